#!/bin/sh
# usage: tools/reeval_seeded.sh [name ...]   re-evaluates seeded changes with the current checker
# (all twenty checks over the patched scratch tree) and rewrites detected_by / rules in meta.json.
ROOT="$(cd "$(dirname "$0")/.." && pwd)"
cd "$ROOT"
one() {
  n="$1"
  out="$("$ROOT/tools/eval_mutant.sh" "$ROOT/seeded/$n/patch.diff" 2>&1)"
  det="$(echo "$out" | head -1 | grep -o 'property=C[0-9]*' | sed 's/property=//' | sort -u | tr '\n' ' ')"
  fk="$(echo "$out" | grep '^FINDING\|^UNDECIDED' | sed 's/^FINDING property=\(C[0-9]*\) key=/\1:/' | cut -c1-170 | tr '\n' '\t')"
  python3 - "$ROOT/seeded/$n/meta.json" "$det" "$fk" <<'PY'
import json,sys
mp,det,fk=sys.argv[1:4]
m=json.load(open(mp)); m['detected_by']=det.split(); m['rules']=[k for k in fk.split('\t') if k]
json.dump(m,open(mp,'w'),indent=1,ensure_ascii=False)
print(mp.split('/')[-2], m['property'], 'det=', det)
PY
}
[ $# -gt 0 ] || set -- $(ls seeded)
if [ "${1:-}" = "--one" ]; then one "$2"; exit 0; fi
printf '%s\n' "$@" | xargs -P 8 -n 1 "$0" --one
