#!/bin/sh
# usage: tools/reconfirm_seeded.sh [name ...]
# Re-confirms at /repo's current HEAD that each seeded change is still a defect there:
# the demo passes without the patch, the patched tree builds and the demo fails with it.
# (The full-suite fact was established when the change was ingested; the patch is unchanged.)
ROOT="$(cd "$(dirname "$0")/.." && pwd)"
export GOFLAGS=-mod=mod GOPROXY=off GOSUMDB=off GOTOOLCHAIN=local GOWORK=off
one() {
  n="$1"; D="$ROOT/seeded/$n"
  CMD="$(python3 -c "import json;print(json.load(open('$D/meta.json'))['demo_cmd'])")"
  WT="$(mktemp -d /tmp/reconf.XXXXXX)"; rmdir "$WT"
  git -C /repo worktree add -q --detach "$WT" HEAD || { echo "$n WORKTREE-FAILED"; return; }
  cd "$WT"; cp -r "$D"/demo/. .
  if $CMD >/dev/null 2>&1; then a=pass; else a=FAIL; fi
  if git apply "$D/patch.diff" 2>/dev/null; then
    if go build ./... >/dev/null 2>&1; then b=ok; else b=BUILD-FAIL; fi
    if $CMD >/dev/null 2>&1; then c=PASS; else c=fail; fi
  else b=NOAPPLY; c=-; fi
  cd /; git -C /repo worktree remove --force "$WT" >/dev/null 2>&1; rm -rf "$WT"
  echo "$n without=$a build=$b with=$c"
}
[ $# -gt 0 ] || set -- $(ls "$ROOT/seeded")
if [ "${1:-}" = "--one" ]; then one "$2"; exit 0; fi
printf '%s\n' "$@" | xargs -P 8 -n 1 "$0" --one
