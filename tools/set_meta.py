#!/usr/bin/env python3
"""usage: tools/set_meta.py <name> key=value ...   (summary, needs, why_missed, note)"""
import json, sys, os
ROOT = os.path.dirname(os.path.dirname(os.path.abspath(__file__)))
mp = os.path.join(ROOT, "seeded", sys.argv[1], "meta.json")
m = json.load(open(mp))
for kv in sys.argv[2:]:
    k, v = kv.split("=", 1); m[k] = v
json.dump(m, open(mp, "w"), indent=1, ensure_ascii=False)
