#!/bin/sh
# usage: tools/confirm_mutant.sh <dir with patch.diff, demo/, README.txt> <base-commit> <demo go-test args...>
# Confirms, in a scratch worktree, the four facts about a seeded defect:
#   with the patch: build ok, existing suite passes, demo FAILS; without: demo passes.
D="$(readlink -f "$1")"; BASE="$2"; shift 2
export GOFLAGS=-mod=mod GOPROXY=off GOSUMDB=off GOTOOLCHAIN=local
WT="$(mktemp -d /tmp/confmut.XXXXXX)"; rmdir "$WT"
git -C /repo worktree add -q --detach "$WT" "$BASE" || exit 3
trap 'git -C /repo worktree remove --force "$WT" >/dev/null 2>&1; rm -rf "$WT"' EXIT
cd "$WT"
cp -r "$D"/demo/. . 
if "$@" >/tmp/$$.base.out 2>&1; then echo "demo-without-patch: PASS"; else echo "demo-without-patch: FAIL"; tail -5 /tmp/$$.base.out; fi
git apply "$D/patch.diff" || { echo "patch: APPLY-FAILED"; exit 3; }
if go build ./... >/tmp/$$.b.out 2>&1; then echo "build-with-patch: OK"; else echo "build-with-patch: FAIL"; tail -3 /tmp/$$.b.out; fi
# the suite without the demo file(s)
find . -name 'zz_demo*_test.go' -exec mv {} {}.off \;
if go test -vet=off -count=1 ./... >/tmp/$$.s.out 2>&1; then echo "suite-with-patch: PASS"; else echo "suite-with-patch: FAIL"; grep -v "^ok\|no test files" /tmp/$$.s.out | head -5; fi
find . -name 'zz_demo*_test.go.off' | while read f; do mv "$f" "${f%.off}"; done
if "$@" >/tmp/$$.m.out 2>&1; then echo "demo-with-patch: PASS (mutant not demonstrated)"; else echo "demo-with-patch: FAIL (as required)"; grep -m3 -- "--- FAIL\|panic\|FAIL" /tmp/$$.m.out | head -3; fi
rm -f /tmp/$$.*.out
