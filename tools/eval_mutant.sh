#!/bin/sh
# usage: tools/eval_mutant.sh <patch.diff> [base-commit]
# Applies a seeded defect to a scratch worktree of /repo, runs every property's
# rules once over it (one program load), prints which properties report a new
# violation, and removes the scratch copy. /repo itself is not touched.
set -e
ROOT="$(cd "$(dirname "$0")/.." && pwd)"
PATCH="$(readlink -f "$1")"
BASE="${2:-HEAD}"
WT="$(mktemp -d /tmp/evalmut.XXXXXX)"
VR="$(mktemp -d /tmp/evalroot.XXXXXX)"
cleanup() { git -C /repo worktree remove --force "$WT" >/dev/null 2>&1 || rm -rf "$WT"; rm -rf "$VR"; }
trap cleanup EXIT
rmdir "$WT"
git -C /repo worktree add -q --detach "$WT" "$BASE"
if ! git -C "$WT" apply "$PATCH" 2>"$VR/apply.err"; then
  echo "APPLY-FAILED $(head -1 "$VR/apply.err")"; exit 3
fi
cp "$ROOT/known_findings.json" "$VR/"
"$ROOT/bin/verifchk" -property "${PROP:-ALL}" -repo "$WT" -root "$VR" > "$VR/all.out" 2>&1 || true
grep "^VIOLATION" "$VR/all.out" | sed 's/ replay=.*//' | tr '\n' ' '; echo
grep "^FINDING\|^UNDECIDED" "$VR/all.out" | sed "s/ at .*//" | cut -c1-200
