#!/usr/bin/env python3
"""Regenerates /verif/MANIFEST.json from the table below (kept valid at all times)."""
import json, os, sys
ROOT = os.path.dirname(os.path.dirname(os.path.abspath(__file__)))

# id -> (technique, level text, level note, design ref)
CLAIMED = {
 "C01": ("clone-sharing analysis (for every generated clone(): each reference-typed field is re-allocated by clone or listed in a frozen shared-on-purpose table with the reason nothing writes through it after parse), field-coverage rule for uses/refine/augment statements against everything reachable from resolve(), CFG ordering rules for the phases of resolver.module and expandUses, pairing rule for the recursion guard, and control-dependence rules for config inheritance",
         "Decides that copies of a grouping cannot share mutable state (a new reference field in a schema struct must be copied by clone or justified), that no part of a uses/refine/augment statement is stored but never applied, that includes ≺ imports ≺ own uses ≺ augments ≺ deviations and copy ≺ refine ≺ uses-augment hold on every path, that recursive groupings are guarded, and that config is inherited/validated as RFC 7950 says. That the expanded tree equals the inline tree for a given set of modules, and name scoping across submodules/imports, are not decided.",
         "The shared-on-purpose table (about 25 field names) is the trusted part: each entry states why no post-parse write goes through the field. Four generated clone() methods that no expansion invokes are skipped with a reason.",
         "DESIGN.md §2 C01"),
 "C02": ("clone-sharing rule specialised to the dtype field (every copy of a typed node owns its Type), control-dependence rules for default/units inheritance in compileType (explicit value wins), must-pass-through rule for the delegate assignment on every successful return, field-coverage rule of Type.mixin against the fields a type statement stores, and a per-node-copy rule for the uses' when",
         "Decides that compileType's early return for an already compiled type cannot skip another leaf's inheritance (each copy has its own Type), that a typedef's default/units are taken only when the leaf states none, that no successfully compiled type lacks its delegate, and that every restriction a type statement can state is carried over from the typedef by mixin. How the restrictions combine (mixin replaces patterns, appends ranges), enum/bit numbering, leafref resolution and identity closure are not decided.",
         "Anchored on meta.compiler.compileType/findTypedef, meta.Type.mixin, meta.resolver.cloneDefs and the generated clone() methods.",
         "DESIGN.md §2 C02"),

 "C11": ("dominance rule (every insertion of a guardable definition by the resolver is dominated by checkFeature on it or on its clone origin, on the on-edge), loop-exit rule (feature-off stays in the sibling loop), error-flow rule for feature evaluation, field-coverage rule (every field a deviate statement stores is read in applyDeviation/checkDeviationTarget) with a once-only loop count, and an identity-comparison rule for not-supported",
         "Decides that no guardable statement kind (data node, case, action, notification; in place, from groupings, from augments) can enter the schema unfiltered, that a disabled sibling does not take the following ones with it, that a malformed feature expression is an error, and that a deviation applies every property it states exactly once and removes a not-supported target by identity. The evaluator's precedence/associativity is a function of the expression string and is not decided; nor is the polarity of the equality tests in deviate delete.",
         "Clone origin is followed through .clone(...) calls and type assertions; five insertion sites are exempt with reasons (re-insertion of already filtered definitions, the filtering wrapper itself).",
         "DESIGN.md §2 C11"),
 "C18": ("guard-dominance rule for the parent-less selection in Delete, request-literal rules (Delete flag, parent selection, own schema node, own key, request kind by InsideList, error returned), ordering/data-flow rule for ReplaceFrom (parent captured before delete, delete error stops it, insert at that parent), a nil-check contradiction rule over callback parameters (Engler-style: checked at one call site ⇒ checked at all), and a field rule that the slice index reports positions",
         "Decides that Delete addresses exactly the selection it is called on through its parent's node, that replace is delete-then-insert with the delete's failure stopping it, that an owner callback is treated consistently on append and delete, and that the slice-backed list cuts out the entry at the position of the found key. That siblings keep their data, the behaviour of each backing store and operation histories are not decided; key uniqueness through the editor rests on C03's lookup-before-create.",
         "Anchored on node.Selection.Delete/ReplaceFrom and nodeutil.Reflect.listSlice/sliceSorter.",
         "DESIGN.md §2 C18"),

 "C04": ("exhaustiveness rule (every exported val.Format constant has a case in node.NewValue or val.Conv), typestate rule (DefaultValue() only after HasDefault() on the same receiver, by dominance), and a CFG cycle rule (every cycle through a re-issued list request passes IncrementRow)",
         "Decides three necessary conditions of faithful export: no declared type lacks a reader case (known finding: instance-identifier), schema defaults are the only values reported that the node did not return, and list iteration advances on every turn so an entry cannot be visited twice. The writer side (value table, brackets) is decided under C15. Round-trip equality for a value, visiting order and exactly-once visiting of every node are statements about runtime data and are not decided.",
         "Thin by nature: the property is mostly about values. The three rules are anchored on node.NewValue, val.Conv, editor.list, selectVisibleListItem and ListItem.Next.",
         "DESIGN.md §2 C04"),
 "C15": ("exhaustiveness of writeValue's Format dispatch over the discovered scalar value kinds (with a frozen literal-safe table), taint-style rule that text taken from a value reaches the stream only through writeString, guard-signature pairing of the bracket writes and of the begin/end callbacks, error-flow rules for Flush / InsertInto / writer steps, who-may-touch rule for JSONWtr.Out, and accessor rules for member names",
         "Decides that every value kind that exists is rendered as JSON (explicit case or literal-safe), that no unescaped value text can reach the output, that '[' and ']' (and list/object open and close in the callbacks) are emitted under the same predicate, that stream errors surface through the final Flush and the API's return, and that member names are schema identifiers qualified by the OriginalModule rule. Bracket balance over every callback sequence, the copied string escaper's correctness and numeric text are not decided.",
         "Literal-safe kinds (Bool, Int8…UInt64) are a frozen table; val kinds never constructed anywhere (BinaryList) are skipped with an info line.",
         "DESIGN.md §2 C15"),
 "C19": ("accessor-agreement rule between the XML writers (XmlName, XMLWtr2.new) and XmlNode.Find, data-flow rule that string leaf text is not transformed on input, loop-shape rule for interleaved list entries, writer dispatch rule, error-flow rule for both writers, and a return-shape rule for the single root",
         "Decides that writer and reader name/match elements with the same two schema accessors (Ident, OriginalModule.Namespace), that string text is taken as written, that list entries may be interleaved, that identityref/decimal64/enum have their own rendering and everything else the String() default, that leaf errors are returned and that a fragment has one root. Escaping is the patched encoding/xml's job (trusted). Inverse-ness on any particular tree is not decided.",
         "Anchored on nodeutil.XmlNode.{Find,Child,Field,leafText}, XmlName, XMLWtr2.{new,writeFieldElement}, XMLWtr.{getStringValue,writeLeafElement}, WriteXMLFrag.",
         "DESIGN.md §2 C19"),

 "C16": ("installation and dominance rules for CheckWhen (unconditional in Browser.baseConstraints, verdict returned unchanged, container-post veto makes selekt return nil), extraction of the operator-literal → predicate table from the SSA of xpathImpl.resolveOperator and comparison with the mathematical table and with the operator set derived from the xpath lexer's AST, nil-guard dominance for unset operands, error-flow rule for expression syntax errors, return-shape rule for Where",
         "Decides that `when` is always evaluated before data is touched and that its verdict is what hides the node; that each of =, !=, <, <=, >, >= is dispatched to the right predicate on c = leaf.Compare(literal) with the right orientation and that exactly the lexer's operators are handled; that an unset operand compares false instead of crashing; that malformed expressions are reported; and that where hides only entries of the addressed list and never stops the iteration. With C17 (Compare is a correct total order) this covers the comparison semantics structurally; XPath path resolution, which rows are kept and notification delivery are not decided.",
         "The table extraction depends on resolveOperator dispatching through string comparisons on the operator field; another shape makes the check fail as undecided rather than pass.",
         "DESIGN.md §2 C16"),

 "C07": ("error-flow rule over the parameter parsers and BuildConstraints, parser-can-fail return-shape rule, key→constraint data-flow rule, receiver-state rule (a Check* method that stores to its receiver needs a pointer receiver and by-pointer registration), entry-guard rule for IsNavigation(), interface near-miss rule, and call-graph non-reachability of edits from constraint checks; the constraint types are discovered from the AddConstraint call sites",
         "Decides that an invalid parameter value cannot be silently ignored (its error reaches the API's return and every parser is able to fail), that every recognised key installs a constraint built from its value, that constraints which count keep their count, that read filters exempt navigation, and that evaluating a filter cannot write. These are necessary conditions of 'exactly the defined projection'; the projection itself (depth counting, field-path matching, row windows, intersections of parameters) is a statement about runtime data and is not decided.",
         "The set of constraint types is discovered (AddConstraint sites) and must not shrink below the hand-confirmed count; four types are exempt from the navigation guard and one dead near-miss method is exempt, each with a reason.",
         "DESIGN.md §2 C07"),
 "C08": ("codec symmetry rule between parseUrlPath (url.QueryUnescape sites) and the renderers Path.toBuffer / EncodeKey (one url.QueryEscape per key on the key's String()), loop-carried data-flow rule for the leading ../ steps of Find, %w error-identity rules for not-found / bad-request, request-literal rule for the navigation target, and a contradiction rule on Path.equalSegment",
         "Decides that every component the path parser decodes is encoded by the renderers with the inverse escaper exactly once, that Find parses the remainder after ../ against the schema node reached, that unknown names and malformed shapes are reported with the defined error identities, that the steps walked are marked as navigation, and that path equality compares names. Not decided: that the selection returned is the addressed node, per-type key conversion, module-qualified lookup.",
         "Anchored on node.parseUrlPath, Path.toBuffer, EncodeKey, Selection.Find/findSlice, Path.equalSegment.",
         "DESIGN.md §2 C08"),

 "C05": ("dominance / must-not-reach analysis in Selection.set and get (pre-constraints before Node.Field, both veto outcomes bypass it), who-may-call for Node.Field, installation rule for fieldConstraints in Browser.baseConstraints and Selection.Split, constraint-inheritance rule for every Selection literal, loop-shape rule for restriction levels (no accepting return inside the loop over the typedef chain), dispatch-coverage rule of the checker, and the crash-class engine rooted at the restriction checker",
         "Decides on all paths that a leaf value cannot reach a node's Field callback without the field constraints having run and allowed it, that those constraints are installed on every selection through which writes flow (including the split side of *Into edits), that range/length levels of a typedef chain are conjunctive, and that checking cannot hit a panic or unchecked assertion (incl. min/max). Known findings: leafref/union restrictions are not resolved; multiple patterns are disjunctive (pinned by the suite). Not decided: acceptance of a particular value; enum/bits/identityref membership.",
         "The crash rule is scoped to package meta, package val and node/field_constraints.go because VTA resolves val.Value calls program-wide.",
         "DESIGN.md §2 C05"),

 "C03": ("SSA/CFG shape rules on node/edit.go and the Selection entry points: strategy dispatch totality, control-dependence of the %w-wrapped fc.ConflictError / fc.NotFoundError on (strategy case × lookup result), dominance of the New=false lookup over every New=true create, parameter-identity of the strategy handed to recursive calls, data-dependence of useDefault, per-entry-point strategy constant and from/to orientation",
         "Decides on all paths of the editor that insert conflicts exactly when the looked-up node exists, update fails with not-found exactly when it does not, nothing is created before it was looked up (or outside insert / upsert-and-absent), the strategy reaches every nested level unchanged and each API method starts the editor with its own strategy and direction. These are necessary conditions of the merge semantics; the merge result itself for a pair of trees and the behaviour of node implementations are not decided.",
         "Error identities are resolved through the fc package's variables and fmt.Errorf verb parsing, not message text; anchors are the editor's function and parameter names (a rename makes the check fail as undecided, not pass).",
         "DESIGN.md §2 C03"),
 "C09": ("CFG must-pass-through and dominance rules on editor.leaf/editor.node/clearOnDifferentChoiceCase/clearChoiceCase/containerMetaList.lookAhead plus a sibling rule over every Choose implementation (no range over the Cases() map)",
         "Decides that in upsert mode the target's active case is asked for and cleared before the leaf write / container create on every path, with the target selection and the node being written; that clearing covers leaves (ClearField) and containers/lists (Find+Delete) through the nested-choice-aware iterator; that readers reach a choice's children only through the case Node.Choose returned; and that every Choose implementation enumerates cases deterministically. Not decided: nested case → choice → case (only the direct parent case is examined by the code), and edit histories.",
         "Anchored on function and parameter names of node/edit.go; Choose implementations are discovered by signature.",
         "DESIGN.md §2 C09"),
 "C12": ("pairing / must-pass-through analysis for beginEdit→deferred endEdit (same request literal and bubble flag, defer directly on the success edge), loop-exit dependence analysis of the ancestor loops, who-may-call for Node.BeginEdit/EndEdit, constant-argument rule for bubble/root, error-flow rule (every error on the edit path is tested before the next call and flows to the return) and %w verb rule for formatted errors",
         "Decides on all exits (returns and panics) of every caller of beginEdit that the matching endEdit is deferred with the same request shape; that endEdit notifies all ancestors and the triggers whatever fails, and a failed beginEdit unwinds the nodes already begun; that only the two protocol functions invoke the node callbacks and only edit roots bubble; and that no callee error on the edit path is dropped, tested late or formatted without %w. Known finding: the deliberately swallowed Choose error before an upsert into a choice. Not decided: exact callback sequences, third-party nodes.",
         "The list of edit-path functions is a frozen table (missing names fail the check); value identity across the deferred closure is resolved through the closure's bindings.",
         "DESIGN.md §2 C12"),

 "C06": ("grammar lint over the goyacc source parser/parser.y (own yacc reader: productions, alternatives, symbols, Go actions parsed with go/parser): value delivery, enumerator alternatives, canonical string decode, builder-stack balance fix-point, extension keyword literals, lexer keyword table vs %token list; plus SSA rules on meta.Builder (dropped add* errors, stored-but-unreadable fields), map-iteration order effects on the load path, and ordered-witness rule for sibling collections",
         "Decides for every production of the grammar at once that each value-carrying symbol is used by its action, that string tokens reach the builder only through the decoder, that the builder stack is balanced and consistent across alternatives, and that the keyword tables agree; and for the builder that no insertion error is dropped, every stored field has a reader or consumer, and no load-path iteration over a map has an order-sensitive effect. Known findings (status dropped, three statements keep quotes, secondary extension attached twice, belongs-to name unreadable, map-only sibling collections) are pinned by the suite's gold files or are API-visible design. It does not decide the lexer's string scanning (escapes, concatenation) or comment handling.",
         "Trusts goyacc (parser.go is regenerated and compared in the thorough tier) and the yacc reader in checker/internal/yacc; map-order analysis follows static calls three levels and is path-insensitive (five loops triaged with reasons).",
         "DESIGN.md §2 C06"),

 "C10": ("integer-width / interval reasoning on every ssa.Convert between numeric types in package val and node/value.go: source range vs destination range, dominating comparison guards compared against the destination type's limits, integrality guard for float→integer, strconv bitSize; plus return-shape rule on val.Conv and a failed-result-used (inverted error test) rule",
         "Decides, for all values at once, that no numeric conversion in the conversion front end can change the number: each narrowing, sign-changing or float→integer conversion is dominated by guards that keep the operand inside the destination type (with the right constants) and, for floats, integral. Any unguarded conversion or wrong bound is reported with the function and types. Known findings: integers beyond 2^53 into decimal64. Not decided: which strings parse, union member choice, enum/bits/identityref lookups.",
         "Interval reasoning looks only at guards on the dominator chain of the same function (a guard in a caller does not discharge a callee conversion); one conversion is triaged by a domain invariant (UInt32 held in uint).",
         "DESIGN.md §2 C10"),

 "C20": ("effect analysis: stores to package-level variables (direct, or through values that flowed out of one: forward value flow with dynamic-type filtering, ≤8 call edges, ≤1 pointer hop) in everything reachable from the load and request entry points; stores to package-meta struct fields reachable from the request API; who-may-write rule for the lazily compiled constraint order",
         "The library has no synchronisation at all, so race freedom can only come from the absence of shared writes. The check decides exactly that absence for the analysed code: no function reachable from loading or using a module writes repository package-level state (sync/atomic excepted) and no function reachable from the request API writes a field of a compiled-schema object; the per-request cache is written only on per-request objects. It does not run schedules and says nothing about user-supplied nodes.",
         "Trusts the VTA call graph; the value-flow is bounded (8 call edges, one pointer hop from the variable) and type-filtered; two sites are triaged by a typestate argument (anyType is complete at init) that a separate rule re-checks on every run.",
         "DESIGN.md §2 C20"),

 "C13": ("reachability of crash classes (explicit panic, unchecked type assertion, constant index) from the request-facing API in the VTA call graph, with dominance/guard-summary/sealed-interface/Format-test/dynamic-type-set dischargers and a per-site triage table",
         "Decides that no explicit panic, unchecked type assertion or constant/len-relative index that request content could trigger is reachable from Selection/Browser/reader/writer/xpath/NewValue entry points, except sites listed as known findings; any new such site (a dropped guard, a new assertion, a new panic) is reported with its call chain. It does not decide nil dereferences outside these classes, arithmetic indexes, recursion depth on nested input or hangs.",
         "Trusts the VTA call graph (no reflect.Value.Call/unsafe into the library), the closed-world assumption for sealed meta interfaces, and the triage table's per-site reasons (API-misuse preconditions and schema invariants, each confirmed by reading).",
         "DESIGN.md §2 C13/C14"),
 "C14": ("the same crash-class reachability engine from the LOAD entry points and every exported accessor of package meta (WALK), plus the module-xor-error return-shape rule on the load functions",
         "Decides that loading any text and walking the result cannot reach an explicit panic, an undischarged unchecked type assertion or a constant index on a possibly empty token, except listed known findings, and that every load function returns either a module or an error, never both. Termination (recursion cycles, fixed-size lexer buffers) is covered only by the rules named in evidence; stack depth on deeply nested input and hangs are not decided.",
         "Trusts the VTA call graph, goyacc's generated driver ($-stack indexing) and the triage table's grammar/schema invariants, each confirmed by reading.",
         "DESIGN.md §2 C13/C14"),

 "C17": ("SSA sign-derivation analysis of every val.Comparable.Compare (path conditions confine receiver-vs-argument relation; integer-width rule on differences) + call-shape rules on Equal/CompareVals/sliceSorter/reflectCompare",
         "Decides, for all values at once, structural necessary conditions of the order laws: each Compare returns a constant only where dominating comparisons pin the relation, never a wrapping or unsigned difference; Equal on scalars is Compare==0 and total over all scalar kinds; tuple comparison bounds its index; sort, search and confirm share one comparator; reflection key comparison covers signed, unsigned, float and string kinds. For this property the shape is most of the behaviour (a Compare built from exact </>/== on the denoted numbers is a total order), but it is not a proof about particular values.",
         "Trusts go/ssa and the rule implementation; strings.Compare/bytes.Compare are taken as correct comparators; Int32 and Enum.Id domains are int32 by construction (table with reasons in c17.go).",
         "DESIGN.md §2 C17"),
}


# additions made after the seeded-change campaign (DESIGN.md §6): id -> (technique addition, level-text addition)
EXTRA = {
 "C01": ("copy-origin rule (what expandAugment/expandUses insert derives from clone() or a Builder constructor), per-iteration rule for the implied case of a shorthand node augmented into a choice, field-coverage and loop-completeness rules for copyOverSubmoduleData, memo-key completeness for lookup caches of the resolver, and the loop-exit rule for feature-disabled siblings",
         "Also decided: an expansion inserts copies, never the statement's own nodes; every shorthand node augmented into a choice gets its own case; every collection a submodule can fill is carried over and no element of it can be skipped; a lookup cache of the resolver is keyed by everything the lookup reads from its argument (lexical scope included); a refine disabled by if-feature does not end the refine loop."),
 "C02": ("polarity-aware guard rule for default/units inheritance (the test must be that the LEAF states none, on that side) and memo-key completeness for caches in compile.go",
         "Also decided: the typedef's units/default are installed only on the side of the test where the leaf itself states none; a typedef lookup cache is keyed by the scope it walks, not by module and name."),
 "C04": ("must-pass-through rule on containerMetaList.lookAhead (the search ends only with a member found or the member list used up) and the escaper rules shared with C15",
         "Also decided: the member iterator cannot end early because a choice has no case selected; value text reaches the JSON output only through the escaping loop (see C15)."),
 "C05": ("field read/write coverage of meta.RangeNumber, dominance rule for the float parse of a bound (only after both 64-bit integer parses failed), and the registration rules of C07 (AddConstraint appends, NewConstraints copies the parent's entries)",
         "Also decided: every representation of a bound the comparison reads is filled by the parser, a whole-number bound is never parsed as float64 first, and the type check of written values — a registered constraint — survives later registrations and is inherited by child constraint sets."),
 "C06": ("append-only rule for slice-held sibling collections at parse time, and a path-condition rule on lexer.acceptString (a skipped character only after a backslash inside double quotes)",
         "Also decided: a statement is added to a slice-held collection at its end only (no element store, no shifting copy), and a backslash escapes only inside double-quoted strings."),
 "C07": ("append-dominates-return and no-element-store rules on the constraint registry, a scan for ==/!= on val.Value.String() in the request path, and an identity-comparison rule for the depth walk",
         "Also decided: registering a constraint never replaces or drops a registered one (parameters given in two rounds intersect) and a child set copies its parent's entries; typed values are never compared through their text; the depth of a request is counted from the node whose schema identity equals the request base."),
 "C08": ("may-be-nil analysis of the Target stored in each navigation request",
         "Also decided: the navigation mark is set on every step, the last one included."),
 "C09": ("per-iteration rule for the implied case (with C01) and the no-stale-verdicts rule: a table of data-derived answers (which case holds data) must be cleared somewhere and its holder must not be copied by value",
         "Also decided: shorthand nodes augmented into a choice get one case each; a node that remembers which case is active forgets it when written and does not share the table between copies of itself."),
 "C11": ("guard rule on a replacing store of the enabled feature set (only while it is nil), loop-membership rule for the write-back of deviate delete, extraction of the operator → (greedy) table of the if-feature evaluator with a back-edge dominance rule for the one-operand return, and memo-key completeness",
         "Also decided: initialising an imported module cannot discard the features of the modules initialised before; each must/unique named by one deviate delete is removed; `and`/`not` take one operand, `or`/`(` the rest, and a call asked for one operand returns after any token completed one (precedence not > and > or). The truth tables of the combinations and the tokeniser remain undecided."),
 "C14": ("the submodule-merge rules of C01 (an import skipped while merging a submodule is never resolved and is a nil module later)",
         "Also decided: no element of a submodule's collections can be skipped while it is merged."),
 "C15": ("evaluation of the escaping tables (safeSet/htmlSafeSet) from the source and of any shortcut's character set against them, use-analysis of the text argument in JSONWtr.writeString and in the package-level escaper (only loop-cut spans are copied), and a field-chain rule for the two nodes whose modules are compared for qualification",
         "Also decided: no shortcut in front of the escaper lets a byte through that the tables say must be escaped; the tables themselves mark control characters, quote and backslash unsafe; a member is qualified by comparing its module with that of the enclosing DATA node (p.Parent.Meta), not the schema parent."),
 "C16": ("identity-comparison rule for the base list of where, the no-stale-verdicts rule for when outcomes, and C17's sign-derivation analysis run over the same Compare methods",
         "Also decided: where recognises its list by schema-node identity, not by name; a when verdict is not remembered without invalidation; every Compare the comparisons rest on derives its sign from an exact comparison."),
 "C17": ("every-return-from-one-comparator rule on sliceSorter.Less and the no-value-text-equality scan",
         "Also decided: the sort order of the key index is decided by val.CompareVals on every path, and key leaves are never matched through their String()."),
 "C18": ("a scan for re-slicing beyond the length in the slice-backed list nodes, and C03's lookup-before-create rules reported under this property",
         "Also decided: a slice-backed list grows only by appending a created item (never by re-slicing into stale capacity), and the editor looks an entry up by key before creating one."),
 "C19": ("accessor-chain rule for the namespace an element remembers for its children",
         "Also decided: XMLWtr2.ns is OriginalModule(d).Namespace() of the definition the element is named after, wherever an element is built."),
 "C20": ("concrete-type analysis of every initialised package-level variable against the set of repository types whose methods write to their receiver",
         "Also decided: no package-level variable of the library holds an object with self-mutating methods (a shared feature set, builder or cache), one exemption with its reason."),
}

# second round of the seeded-change campaign: id -> (technique addition, level-text addition)
EXTRA2 = {
 "C01": ("field-write summaries over the call graph for the lost-update rule (a read-modify-write of a field with a call in between that writes the same field), a scan for in-place sorts of schema slices, the copy-origin rule extended to the node that is entered after insertion, and the return-shape rule for own-prefixed names",
         "Also decided: a merged list is not written back from a value read before a nested merge; collections kept in textual order are never sorted in place; the expansion resolves the copy it inserted, not the template; a name with the module's own prefix is looked up locally; every refine property is handed to the Builder with the target as it is."),
 "C02": ("visited-guard rule (the early success return depends on the visited table alone), append-aliasing rule, own-prefix return-shape rule",
         "Also decided: compileImport's early return cannot skip modules it never handled; an own-prefixed typedef reference is resolved in lexical scope."),
 "C03": ("innermost-condition rule for the conflict error, plus the XML list-entry and default-materialisation rules of C19/C04 reported here",
         "Also decided: in the insert case an existing node is a conflict with no exemption for some node kind; an XML edit source hands out every entry of a list; defaults are materialised for every leaf kind that can have one."),
 "C04": ("return-shape rule for the JSON reader's Child callback on the found side, and C09's chosen-case iterator rule reported here",
         "Also decided: a member present in the JSON document is never reported as absent (an empty object is an existing container); nested choices are iterated through their chosen case only."),
 "C05": ("dominance rule for list values in checkRange (Range.CheckValue only on the not-a-list side, elements walked), a coupling rule between Type.mixin's pattern merge and the checker's acceptance mode, and the post-constraint must-pass-through rule",
         "Also decided: each element of a numeric leaf-list is checked on its own; the typedef's patterns are never merged into a list the checker reads disjunctively."),
 "C06": ("first-argument rule for resolver.refine, flow rule from Builder string parameters to schema fields through slicing/trimming helpers, constant-use rule for the block-comment terminator",
         "Also decided: the Builder stores its (already decoded) string arguments verbatim; a refine's property is not dropped for some node kinds; the block-comment end is matched as the two-character sequence at a position."),
 "C07": ("must-pass-through rule for the field post-constraints in Selection.get/set, AST rule for a break that leaves only a switch inside a scanning loop, append-aliasing rule over the path-expression parser, branch-existence rule for a leading group, and a no-state-before-navigation-guard rule",
         "Also decided: no successful return of get/set skips the post-constraints (with-defaults=trim sees filled-in defaults); an unbalanced ')' stops the scan of a selector; the paths a group expands into do not share an array and a leading group is kept; a counting filter does not count navigation steps."),
 "C08": ("self-derivation rule for the cursor of the ../ loop, may-be-nil rule for the navigation target, no-state-before-guard rule, and a verbatim rule for key text",
         "Also decided: each ../ climbs from where the previous one arrived; decoded key text reaches the value constructor unchanged; stateful filters exempt navigation before touching their state."),
 "C09": ("branch-existence rule for nested choices in nodeutil.Node.exists and a literal-shape rule for Selection.ClearField",
         "Also decided: the presence test looks through a member that is itself a choice; ClearField sends exactly one Clear write with no value."),
 "C10": ("C19's no-lossy-text rule over the XML reader reported here",
         "Also decided: the text of XML string leaves and leaf-list entries reaches the conversion as written."),
 "C11": ("constant-verdict rule for checkFeature, side-of-comparison rule for deviate delete",
         "Also decided: several if-feature statements on one definition are a conjunction; deviate delete clears units/default only where its argument equals the target's value."),
 "C12": ("store rule for the fork's parent in Selection.Split, every-path rule for endEdit inside the deferred function, and an error-tested-before-next-call rule for the Field callback in get/set",
         "Also decided: the other side of an edit has no parent chain to notify; endEdit runs also when the edit failed; a callback error cannot be replaced by a later call's result."),
 "C13": ("guard-backing rules for the triage reasons: format equality before Compare in resolveOperator, CheckWhen moving to the parent of a leaf selection, Selection.Set rejecting nil, isKeyValid looking at every element and being consulted by the reflect list nodes, the ../ loop testing for a parent, resolvePath testing its next step, handler literals storing their node, DoGetChild testing the probe's missing selection",
         "Also decided: the conditions under which the triaged assertion and dereference sites are safe are themselves checked; ten request-reachable crashes found this way were repaired."),
 "C14": ("grammar-context rule (the statements a keyword can occur in, computed from the productions, against the triage reasons that rely on it), worklist guard rule for fillInRecursiveDefs, every-base-compiled and remembered-as-asked rules for the identity and import cycle guards, lexer-position bounds rule, several-defaults guard",
         "Also decided: triage reasons of the form 'occurs only inside …' hold in the grammar; the placeholder worklist cannot re-queue a pair; cycle guards see every edge; the lexer position leaves the text only through next() or a matched prefix."),
 "C15": ("slice-bound rule (a computed upper bound is compared with the length by a dominating test on that same value), identityref prefix control-dependence rule",
         "Also decided: indentation slices are bounded by what they slice; an identityref value's module prefix depends on the modules alone, not on a writer option."),
 "C16": ("dominance rule for the float parse of a literal, C07's registry rules reported here",
         "Also decided: whole-number literals are parsed as integers; one selection's where/filter cannot replace a sibling's."),
 "C17": ("C18's cache rule for the sorted key index reported here",
         "Also decided: the sorted key index is rebuilt after every change of the slice."),
 "C18": ("must-store rule for the list handler's slice after append/delete, a scan for partial struct index paths",
         "Also decided: the slice handler works on the slice it last produced; struct fields are addressed by their full index path."),
 "C19": ("scan for stores to the decoder's Strict/AutoClose/Entity, constant-start rule for the key lookup in XmlNode.Next, case rule for the carriage return in the patched encoder",
         "Also decided: the reader decodes strictly; each key leaf is searched among all children of the entry; a carriage return is written as a character reference."),
 "C20": ("the in-place-sort scan over node and nodeutil",
         "Also decided: no request sorts a slice a schema accessor handed out."),
}

NOT_YET = "check not built yet in this session; see DESIGN.md for the planned static clauses"
NOT_APPLICABLE = {}

EXTRA3 = {
 "C01": ("phase-order rule for the augment loop (a bare uses in an augment body is expanded before the augment is applied), write-through rule over the generated setters of shared template nodes, merge rule for the feature set, case-members-indexed-in-holder rule (a node added to a case is entered into the name index of the choice's holder), feature-set phase rule (includes before Initialize before own uses)",
         "Also decided: nodes that reach a case after its choice was added are found by name in the holder; a submodule's features are enabled like the module's own; a module-level augment's own uses are expanded before the augment is inserted; a generated setter never writes through a pointer that clone() copies shallowly; initialising the feature set of one module adds to what earlier modules enabled."),
 "C02": ("return-shape rule for meta.Find (an absolute path starts at the root module of the tree), clone rule without a guard on the per-copy type, and the explicit-number rule (a written value/position is recognised by a flag, never by being > 0), clone-union-members rule (the copy's Type does not share union member types with the template)",
         "Also decided: an absolute leafref path starts at the root of the tree the leaf ended up in; every clone of a leaf-list gets its own type; `value 0` / `position 0` are honoured as written; a relative leafref among the members of a union in a grouping resolves per use."),
 "C03": ("emptiness rule for list entries (a pointer to an all-zero struct is an entry), member-kind exhaustiveness of clearChoiceCase, definition-module rule for qualified JSON keys",
         "Also decided: an existing entry whose fields are all zero is still an entry; clearing a case reaches nested choices; a qualified member name is built from the module the definition was written in."),
 "C04": ("qualified-lookup rule for the JSON reader's Choose, key-by-its-own-leaf rule for row reads of compound keys, defaults-on-create rule extended to leaves under a false when",
         "Also decided: the JSON reader's case selection uses the same qualified lookup as its member reads; each key of a compound key is converted with its own leaf's type; a default is not materialised for a leaf whose when is false."),
 "C05": ("numeric-class rule normalising list formats to their single form, reader-errors-surface rule over the XML reader's conversions (no shadowed err)",
         "Also decided: a leaf-list of a numeric type is range-checked as numeric; a conversion error of an XML element is returned, not lost in a shadowed variable."),
 "C06": ("exact-decode rule for double-quoted text (no trimming of the decoded value), merge rule for the feature set, units-inheritance rule testing the node's own units, comment-end-behind-opener rule for block comments",
         "Also decided: the decoded text of a quoted string is used as is; a typedef's units are inherited exactly when the node has none; the end of a block comment cannot overlap its opener."),
 "C07": ("target-in-force-at-use rule for the last navigation request, base-agreement rule over the ListRequests the editor builds, flush rule for every separator of the fields expression parser, constraints-keep-no-tally rule (a constraint writes no field of itself while consulted; one known finding)",
         "Also decided: the request for the last path segment carries the Target mark when constraints are applied; the editor's source and destination list requests share the request's base; `;` closes the pending alternative at every level; no constraint but fc.max-node-count (known finding) carries state from one read to the next."),
 "C08": ("key-order rule (KeyMeta follows the key statement), where-needs-base rule, lossy-convert rule over String() of 64-bit values",
         "Also decided: compound keys are matched in key-statement order; a where is not evaluated for navigation requests; a uint64 key renders without passing through int."),
 "C09": ("both-sides rule for Tee.Child under delete, field-path rule for embedded struct fields (FieldByIndex), delete-before-descend rule for map-backed nodes",
         "Also decided: a delete reaches both sides of a Tee; clearing a case member addresses the field by its whole index path; a map-backed node handles delete before it descends into a list."),
 "C10": ("decoded-length rule for base64 (the count Decode returns bounds the value), bits-by-position rule, lossy-convert over float→string",
         "Also decided: binary values have exactly the decoded length; a numeric bits source is matched by bit position, not definition order; a float64 is rendered without an int64 detour."),
 "C11": ("one-IfFeature-per-statement rule, feature-filter rule on cases added by an augment, capability rule for mandatory in deviations",
         "Also decided: two if-feature statements stay two expressions; a case added by augment under a disabled feature is dropped; a deviation may set mandatory on a choice."),
 "C12": ("wrap-with-%w rule over all of package node, defer-immediately-after-begin and deferred-error-is-the-result rules on editor.enter, stop-at-first-failure rule for clearChoiceCase",
         "Also decided: errors crossing CheckWhen keep their identity; endEdit is registered only after beginEdit succeeded and its error is the function's result; clearing stops at the first failure."),
 "C13": ("read-loop rule for the xpath lexer (every read loop leaves on end of input), row-number rule for fc.range, nil-error rule for the Choose of the library's edit sources, hook rule (an optional callback is called only where that same field was tested)",
         "Also decided: an unterminated literal ends the scan; row numbers cannot be negative; the edit sources' Choose cannot fail into the iterator's panic; nodeutil.Node/Basic/Extend never call an unset callback."),
 "C14": ("token-class agreement between the if-feature tokenizer's skip and stop sets, pool-marks-every-holder rule for the compile guard, string-token-needs-input rule, belongs-to-needs-parent rule",
         "Also decided: whitespace that ends an if-feature token is also skipped; the already-compiled guard covers every node kind a grouping cycle can pass through; no empty string token is accepted at end of input; belongs-to is recorded only on an included submodule."),
 "C15": ("request-paths-agree rule (the destination request's path is the request path, not the destination selection's), deferred-error rule shared with C12, lossy-convert over the integer String() helpers",
         "Also decided: qualified member names are decided on the same path for both sides of an edit; a failure of the writer's final flush is the edit's result."),
 "C16": ("when-on-the-node rule for augments into a choice, operand-read-unfiltered rule (the read an expression's operand comes from carries no field filter), compare-order rule without tolerance, exact-literal rule for xpath numbers",
         "Also decided: an augment's when stays on the augmented node; fields= cannot hide an operand; decimal64 and 64-bit integer operands are compared exactly."),
 "C17": ("whole-key comparator rule for the slice sorter, index-nil-on-error rule for Reflect.buildKeys, emptiness rule shared with C03",
         "Also decided: the key index orders by every key; a half-built index is never kept after an error."),
 "C18": ("zeroes-the-field rule for structAsContainer.clear, whole-key comparator and emptiness rules shared with C17/C03",
         "Also decided: a deleted list becomes the zero value of its field, not an empty non-nil slice."),
 "C19": ("list-form-agrees-with-scalar rule for identityref conversion, reader-errors-surface rule; changes inside the vendored encoding/xml copy (patch/xml) are out of scope — the decoder is trusted",
         "Also decided: an identityref leaf-list strips the module prefix the same way the scalar form does. Not decided: the behaviour of the vendored XML decoder (namespace scoping, character data)."),
 "C20": ("no package-level variable written from the resolver, use-mutates-meta rule extended to Builder calls from request handling, replace-not-overwrite rule for reflected leaf-list writes",
         "Also decided: serving a request never completes or repairs the shared schema through the Builder; a leaf-list write replaces the stored slice instead of copying into the array other holders see."),
}

def main():
    props = [json.loads(l) for l in open(os.path.join(ROOT, "properties.jsonl"))]
    checks, na = [], []
    for p in props:
        pid = p["id"]
        if pid in CLAIMED:
            tech, text, note, ref = CLAIMED[pid]
            if pid in EXTRA:
                tech, text = tech + "; " + EXTRA[pid][0], text + " " + EXTRA[pid][1]
            if pid in EXTRA2:
                tech, text = tech + "; " + EXTRA2[pid][0], text + " " + EXTRA2[pid][1]
            if pid in EXTRA3:
                tech, text = tech + "; " + EXTRA3[pid][0], text + " " + EXTRA3[pid][1]
            checks.append({
                "property_id": pid,
                "quick_cmd": "./check %s quick" % pid,
                "thorough_cmd": "./check %s thorough" % pid,
                "evidence_file": "evidence/%s.json" % pid,
                "replay_cmd_template": "jq . {path}",
                "engine": "verifchk",
                "level_claimed": {"category": "other", "text": text, "design_ref": ref},
                "level_note": note,
                "technique": "static analysis: " + tech,
            })
        else:
            na.append({"property_id": pid, "reason": NOT_APPLICABLE.get(pid, NOT_YET)})
    m = {
        "version": 1,
        "setup_cmd": "cd checker && GOFLAGS=-mod=mod GOPROXY=off GOSUMDB=off GOTOOLCHAIN=local GOWORK=off go build -o ../bin/verifchk ./cmd/verifchk",
        "hooks": {
            "guard": "verif",
            "enable": "no hooks: the checker reads /repo's source; nothing is built with a tag",
            "baseline_off_cmd": "cd /repo && go test -vet=off -count=1 ./...",
            "source_commits": [],
            "add_only": True,
        },
        "engines": [{
            "name": "verifchk",
            "path": "checker/",
            "serves_properties": sorted(CLAIMED),
            "kind_free_text": "repository-specific static analyser over go/types + go/ssa + VTA call graph + the goyacc grammars (golang.org/x/tools v0.29.0); one process per property; obligations keyed by rule/construct; known findings in known_findings.json",
        }],
        "checks": checks,
        "not_applicable": na,
        "notes": "All claims are level 'other': structural necessary conditions decided for every input/path at once by static analysis; none is a proof of the behavioural property. Genuine defects found are either repaired in /repo by 'fix:' commits (listed under 'fixed' in known_findings.json) or listed as known findings.",
    }
    json.dump(m, open(os.path.join(ROOT, "MANIFEST.json"), "w"), indent=1)
    with open(os.path.join(ROOT, "checker/internal/rules/explain_extra.go"), "w") as f:
        f.write("package rules\n\n// ExplainExtra: what was added to each property's rule set during the seeded-change\n// campaign (generated by tools/gen_manifest.py from EXTRA/EXTRA2/EXTRA3); appended to the explanation in evidence.\nvar ExplainExtra = map[string]string{\n")
        for pid in sorted(CLAIMED):
            parts = [d[pid][1] for d in (EXTRA, EXTRA2, EXTRA3) if pid in d]
            f.write("\t%s: %s,\n" % (json.dumps(pid), json.dumps(" ".join(parts), ensure_ascii=False)))
        f.write("}\n")
    print("MANIFEST.json: %d checks, %d not_applicable" % (len(checks), len(na)))

if __name__ == "__main__":
    main()
