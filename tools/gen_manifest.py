#!/usr/bin/env python3
"""Regenerates /verif/MANIFEST.json from the table below (kept valid at all times)."""
import json, os, sys
ROOT = os.path.dirname(os.path.dirname(os.path.abspath(__file__)))

# id -> (technique, level text, level note, design ref)
CLAIMED = {
 "C17": ("SSA sign-derivation analysis of every val.Comparable.Compare (path conditions confine receiver-vs-argument relation; integer-width rule on differences) + call-shape rules on Equal/CompareVals/sliceSorter/reflectCompare",
         "Decides, for all values at once, structural necessary conditions of the order laws: each Compare returns a constant only where dominating comparisons pin the relation, never a wrapping or unsigned difference; Equal on scalars is Compare==0 and total over all scalar kinds; tuple comparison bounds its index; sort, search and confirm share one comparator; reflection key comparison covers signed, unsigned, float and string kinds. For this property the shape is most of the behaviour (a Compare built from exact </>/== on the denoted numbers is a total order), but it is not a proof about particular values.",
         "Trusts go/ssa and the rule implementation; strings.Compare/bytes.Compare are taken as correct comparators; Int32 and Enum.Id domains are int32 by construction (table with reasons in c17.go).",
         "DESIGN.md §2 C17"),
}

NOT_YET = "check not built yet in this session; see DESIGN.md for the planned static clauses"
NOT_APPLICABLE = {}

def main():
    props = [json.loads(l) for l in open(os.path.join(ROOT, "properties.jsonl"))]
    checks, na = [], []
    for p in props:
        pid = p["id"]
        if pid in CLAIMED:
            tech, text, note, ref = CLAIMED[pid]
            checks.append({
                "property_id": pid,
                "quick_cmd": "./check %s quick" % pid,
                "thorough_cmd": "./check %s thorough" % pid,
                "evidence_file": "evidence/%s.json" % pid,
                "replay_cmd_template": "jq . {path}",
                "engine": "verifchk",
                "level_claimed": {"category": "other", "text": text, "design_ref": ref},
                "level_note": note,
                "technique": "static analysis: " + tech,
            })
        else:
            na.append({"property_id": pid, "reason": NOT_APPLICABLE.get(pid, NOT_YET)})
    m = {
        "version": 1,
        "setup_cmd": "cd checker && GOFLAGS=-mod=mod GOPROXY=off GOSUMDB=off GOTOOLCHAIN=local GOWORK=off go build -o ../bin/verifchk ./cmd/verifchk",
        "hooks": {
            "guard": "verif",
            "enable": "no hooks: the checker reads /repo's source; nothing is built with a tag",
            "baseline_off_cmd": "cd /repo && go test -vet=off -count=1 ./...",
            "source_commits": [],
            "add_only": True,
        },
        "engines": [{
            "name": "verifchk",
            "path": "checker/",
            "serves_properties": sorted(CLAIMED),
            "kind_free_text": "repository-specific static analyser over go/types + go/ssa + VTA call graph + the goyacc grammars (golang.org/x/tools v0.29.0); one process per property; obligations keyed by rule/construct; known findings in known_findings.json",
        }],
        "checks": checks,
        "not_applicable": na,
        "notes": "All claims are level 'other': structural necessary conditions decided for every input/path at once by static analysis; none is a proof of the behavioural property. Genuine defects found are either repaired in /repo by 'fix:' commits (listed under 'fixed' in known_findings.json) or listed as known findings.",
    }
    json.dump(m, open(os.path.join(ROOT, "MANIFEST.json"), "w"), indent=1)
    print("MANIFEST.json: %d checks, %d not_applicable" % (len(checks), len(na)))

if __name__ == "__main__":
    main()
