#!/usr/bin/env python3
"""Rewrites the generated tables of DESIGN.md (§5 inventory, §6 seeded matrix) from
evidence/*.json, known_findings.json and seeded/*/meta.json."""
import json, os, glob, re
ROOT = os.path.dirname(os.path.dirname(os.path.abspath(__file__)))
kf = json.load(open(os.path.join(ROOT, "known_findings.json")))
out = []
for i in range(1, 21):
    pid = "C%02d" % i
    ev = json.load(open(os.path.join(ROOT, "evidence", pid + ".json")))
    cov = ev["coverage"]
    out.append("#### %s — %d obligations on today's tree\n" % (pid, cov["obligations"]))
    out.append(cov["explanation"] + "\n")
    out.append("| rule | obligations | discharged |\n|---|---|---|")
    for r, c in sorted(cov["per_rule"].items()):
        out.append("| `%s` | %d | %d |" % (r, c["obligations"], c["discharged"]))
    out.append("")
    fx = [e for e in kf["fixed"] if e["property"] == pid]
    if fx:
        out.append("Found by these rules on the original tree and repaired (`fix:` commits in `/repo`):\n")
        for e in fx:
            out.append("* `%s` — `%s`: %s" % (e.get("commit", "")[:7], e["key"], e["what"]))
        out.append("")
    kn = [e for e in kf["findings"] if e["property"] == pid]
    if kn:
        out.append("Known findings (genuine, recorded rather than repaired; printed as KNOWN-FINDING):\n")
        for e in kn:
            out.append("* `%s`: %s%s" % (e["key"], e["what"], (" — why not repaired: " + e["why_not_fixed"]) if e.get("why_not_fixed") else ""))
        out.append("")
inv = "\n".join(out)

rows = []
for d in sorted(glob.glob(os.path.join(ROOT, "seeded", "*"))):
    mp = os.path.join(d, "meta.json")
    if not os.path.exists(mp):
        continue
    m = json.load(open(mp))
    det = ", ".join(m.get("detected_by", [])) or "— (missed)"
    rules = "; ".join(m.get("rules", []))
    rows.append("| `%s` | %s | %s | %s | %s | %s |" % (os.path.basename(d), m.get("property", ""), m.get("summary", "").replace("|", "\\|"), m.get("needs", "").replace("|", "\\|"), det, (rules or m.get("why_missed", "")).replace("|", "\\|")))
mat = "| seeded change | breaks | change | needs, to manifest | reported by | rule(s) that fire / why not decided |\n|---|---|---|---|---|---|\n" + "\n".join(rows)
n = len(rows); caught = sum(1 for r in rows if "— (missed)" not in r)
mat = "%d confirmed changes, %d reported by at least one check.\n\n" % (n, caught) + mat

p = os.path.join(ROOT, "DESIGN.md"); s = open(p).read()
def put(s, tag, body):
    b, e = "<!-- BEGIN GENERATED %s -->" % tag, "<!-- END GENERATED %s -->" % tag
    i, j = s.index(b), s.index(e)
    return s[:i + len(b)] + "\n" + body + "\n" + s[j:]
s = put(s, "inventory", inv); s = put(s, "seeded", mat)
open(p, "w").write(s)
print("inventory: 20 properties; seeded:", n, "caught:", caught)
