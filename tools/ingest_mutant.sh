#!/bin/sh
# usage: tools/ingest_mutant.sh <src dir with patch.diff demo/ notes.md> <name> <property>
# Confirms the four facts in a scratch worktree, evaluates all checks on the patched
# tree, and (when confirmed) stores it as /verif/seeded/<name>/ with a meta.json skeleton.
set -u
ROOT="$(cd "$(dirname "$0")/.." && pwd)"
SRC="$(readlink -f "$1")"; NAME="$2"; PROP="$3"
export GOFLAGS=-mod=mod GOPROXY=off GOSUMDB=off GOTOOLCHAIN=local GOWORK=off
BASE="$(git -C /repo rev-parse HEAD)"
# demo command: one go test per package that has a zz_demo test
PKGS="$(cd "$SRC/demo" && find . -name 'zz_demo*_test.go' -exec dirname {} \; | sort -u | tr '\n' ' ')"
[ -n "$PKGS" ] || { echo "no zz_demo*_test.go under $SRC/demo"; exit 3; }
CMD="go test -vet=off -count=1 -run TestZZDemo $PKGS"
CONF="$("$ROOT/tools/confirm_mutant.sh" "$SRC" "$BASE" $CMD 2>&1)"
echo "$CONF"
echo "$CONF" | grep -q "demo-without-patch: PASS" && echo "$CONF" | grep -q "build-with-patch: OK" && echo "$CONF" | grep -q "suite-with-patch: PASS" && echo "$CONF" | grep -q "demo-with-patch: FAIL" || { echo "NOT-CONFIRMED $NAME"; exit 4; }
EVAL="$("$ROOT/tools/eval_mutant.sh" "$SRC/patch.diff" 2>&1)"
echo "$EVAL"
DET="$(echo "$EVAL" | head -1 | grep -o 'property=C[0-9]*' | sed 's/property=//' | sort -u | tr '\n' ' ')"
FK="$(echo "$EVAL" | grep '^FINDING\|^UNDECIDED' | sed 's/.*key=//' | cut -c1-160 | tr '\n' '\t')"
D="$ROOT/seeded/$NAME"; mkdir -p "$D"; cp "$SRC/patch.diff" "$D/"; rm -rf "$D/demo"; cp -r "$SRC/demo" "$D/demo"; cp "$SRC/notes.md" "$D/notes.md" 2>/dev/null
python3 - "$D" "$PROP" "$BASE" "$CMD" "$DET" "$FK" <<'PY'
import json,sys,os
d,prop,base,cmd,det,fk=sys.argv[1:7]
mp=os.path.join(d,'meta.json')
m=json.load(open(mp)) if os.path.exists(mp) else {}
m.update({"property":prop,"base_commit":base,"demo_cmd":cmd,
 "confirmed":{"demo_without_patch":"pass","build_with_patch":"ok","suite_with_patch":"pass (go test -count=1 ./... without the demo, -vet=off as the baseline)","demo_with_patch":"fail","how":"tools/confirm_mutant.sh in a scratch worktree of /repo at base_commit"},
 "evaluated_with":"tools/eval_mutant.sh (verifchk -property ALL on the patched scratch worktree)",
 "detected_by":det.split()})
m["rules"]=[k for k in fk.split("\t") if k]
m.setdefault("summary",""); m.setdefault("needs",""); m.setdefault("rules",[])
json.dump(m,open(mp,'w'),indent=1,ensure_ascii=False)
print("stored",d,"detected_by",det)
PY
