// Package core loads /repo as a type-checked program, builds SSA and the call
// graph and offers the lookups every rule needs. Nothing here executes code
// of the analysed repository.
package core

import (
	"fmt"
	"go/ast"
	"go/token"
	"go/types"
	"os"
	"path/filepath"
	"sort"
	"strings"
	"time"

	"golang.org/x/tools/go/callgraph"
	"golang.org/x/tools/go/callgraph/cha"
	"golang.org/x/tools/go/callgraph/vta"
	"golang.org/x/tools/go/packages"
	"golang.org/x/tools/go/ssa"
	"golang.org/x/tools/go/ssa/ssautil"
)

// Mod is the module path of the analysed repository.
const Mod = "github.com/freeconf/yang"

// Ctx is the loaded program.
type Ctx struct {
	Repo   string
	GOARCH string
	Fset   *token.FileSet
	Pkgs   []*packages.Package // repo packages only, sorted by path
	AllPkg map[string]*packages.Package
	Prog   *ssa.Program
	Sizes  types.Sizes

	LoadSecs float64
	cg       *callgraph.Graph
	chaCG    *callgraph.Graph
	allFns   map[*ssa.Function]bool
	repoFns  []*ssa.Function
}

// Env returns the environment used for every go invocation.
func Env(goarch string) []string {
	var env []string
	for _, e := range os.Environ() {
		if strings.HasPrefix(e, "GOWORK=") || strings.HasPrefix(e, "GOFLAGS=") ||
			strings.HasPrefix(e, "GOPROXY=") || strings.HasPrefix(e, "GOARCH=") ||
			strings.HasPrefix(e, "GOSUMDB=") || strings.HasPrefix(e, "GOTOOLCHAIN=") {
			continue
		}
		env = append(env, e)
	}
	env = append(env, "GOWORK=off", "GOFLAGS=-mod=mod", "GOPROXY=off", "GOSUMDB=off", "GOTOOLCHAIN=local")
	if goarch != "" {
		env = append(env, "GOARCH="+goarch)
	}
	return env
}

// Load type-checks every package `go build ./...` covers in repo and builds SSA.
func Load(repo, goarch string) (*Ctx, error) {
	t0 := time.Now()
	fset := token.NewFileSet()
	cfg := &packages.Config{
		Mode:  packages.LoadAllSyntax,
		Dir:   repo,
		Fset:  fset,
		Env:   Env(goarch),
		Tests: false,
	}
	pkgs, err := packages.Load(cfg, "./...")
	if err != nil {
		return nil, fmt.Errorf("load: %w", err)
	}
	c := &Ctx{Repo: repo, GOARCH: goarch, Fset: fset, AllPkg: map[string]*packages.Package{}}
	var errs []string
	packages.Visit(pkgs, nil, func(p *packages.Package) {
		c.AllPkg[p.PkgPath] = p
		for _, e := range p.Errors {
			errs = append(errs, e.Error())
		}
	})
	if len(errs) > 0 {
		return nil, fmt.Errorf("type-check/load errors (%d): %s", len(errs), strings.Join(errs[:min(len(errs), 5)], "; "))
	}
	for _, p := range pkgs {
		if p.PkgPath == Mod || strings.HasPrefix(p.PkgPath, Mod+"/") {
			c.Pkgs = append(c.Pkgs, p)
			if c.Sizes == nil {
				c.Sizes = p.TypesSizes
			}
		}
	}
	sort.Slice(c.Pkgs, func(i, j int) bool { return c.Pkgs[i].PkgPath < c.Pkgs[j].PkgPath })
	if len(c.Pkgs) == 0 {
		return nil, fmt.Errorf("no packages of %s found under %s", Mod, repo)
	}
	prog, _ := ssautil.AllPackages(pkgs, ssa.InstantiateGenerics)
	prog.Build()
	c.Prog = prog
	c.LoadSecs = time.Since(t0).Seconds()
	return c, nil
}

func min(a, b int) int {
	if a < b {
		return a
	}
	return b
}

// Full returns the full import path for a short repo package name such as
// "node" or "patch/xml"; "" or "." is the root package.
func Full(short string) string {
	if short == "" || short == "." {
		return Mod
	}
	if strings.HasPrefix(short, Mod) {
		return short
	}
	return Mod + "/" + short
}

// Short is the inverse of Full.
func Short(path string) string {
	if path == Mod {
		return "yang"
	}
	return strings.TrimPrefix(path, Mod+"/")
}

// InRepo reports whether the package path belongs to the analysed module.
func InRepo(path string) bool {
	return path == Mod || strings.HasPrefix(path, Mod+"/")
}

// TPkg returns the types.Package of a repo package, or nil.
func (c *Ctx) TPkg(short string) *types.Package {
	if p := c.AllPkg[Full(short)]; p != nil {
		return p.Types
	}
	return nil
}

// PPkg returns the packages.Package of a repo package, or nil.
func (c *Ctx) PPkg(short string) *packages.Package {
	return c.AllPkg[Full(short)]
}

// SPkg returns the ssa.Package of a repo package, or nil.
func (c *Ctx) SPkg(short string) *ssa.Package {
	tp := c.TPkg(short)
	if tp == nil {
		return nil
	}
	return c.Prog.Package(tp)
}

// Obj looks up a package-level object.
func (c *Ctx) Obj(short, name string) types.Object {
	tp := c.TPkg(short)
	if tp == nil {
		return nil
	}
	return tp.Scope().Lookup(name)
}

// Named looks up a package-level named type.
func (c *Ctx) Named(short, name string) *types.Named {
	o := c.Obj(short, name)
	if o == nil {
		return nil
	}
	tn, ok := o.(*types.TypeName)
	if !ok {
		return nil
	}
	n, _ := tn.Type().(*types.Named)
	return n
}

// Fn looks up a package-level function.
func (c *Ctx) Fn(short, name string) *ssa.Function {
	sp := c.SPkg(short)
	if sp == nil {
		return nil
	}
	return sp.Func(name)
}

// Method looks up a method declared on T or *T.
func (c *Ctx) Method(short, typ, name string) *ssa.Function {
	n := c.Named(short, typ)
	if n == nil {
		return nil
	}
	for i := 0; i < n.NumMethods(); i++ {
		m := n.Method(i)
		if m.Name() == name {
			return c.Prog.FuncValue(m)
		}
	}
	return nil
}

// Lookup resolves "pkg.Func" or "pkg.Type.Method" (pkg may contain slashes).
func (c *Ctx) Lookup(spec string) *ssa.Function {
	// the package part is everything up to the first '.' after the last '/'
	slash := strings.LastIndex(spec, "/")
	dot := strings.Index(spec[slash+1:], ".")
	if dot < 0 {
		return nil
	}
	pkg := spec[:slash+1+dot]
	rest := strings.Split(spec[slash+1+dot+1:], ".")
	switch len(rest) {
	case 1:
		return c.Fn(pkg, rest[0])
	case 2:
		return c.Method(pkg, rest[0], rest[1])
	}
	return nil
}

// Pos renders a position relative to the repository root.
func (c *Ctx) Pos(p token.Pos) string {
	if !p.IsValid() {
		return "-"
	}
	pp := c.Fset.Position(p)
	rel, err := filepath.Rel(c.Repo, pp.Filename)
	if err != nil || strings.HasPrefix(rel, "..") {
		rel = pp.Filename
	}
	return fmt.Sprintf("%s:%d", rel, pp.Line)
}

// File returns the repo-relative file of a position.
func (c *Ctx) File(p token.Pos) string {
	s := c.Pos(p)
	if i := strings.LastIndex(s, ":"); i >= 0 {
		return s[:i]
	}
	return s
}

// AllFuncs returns every function of the program (incl. anonymous, wrappers).
func (c *Ctx) AllFuncs() map[*ssa.Function]bool {
	if c.allFns == nil {
		c.allFns = ssautil.AllFunctions(c.Prog)
	}
	return c.allFns
}

// FnPkgPath returns the import path of the package a function belongs to.
func FnPkgPath(f *ssa.Function) string {
	if f == nil {
		return ""
	}
	if f.Pkg != nil {
		return f.Pkg.Pkg.Path()
	}
	if o := f.Object(); o != nil && o.Pkg() != nil {
		return o.Pkg().Path()
	}
	if f.Parent() != nil {
		return FnPkgPath(f.Parent())
	}
	if f.Origin() != nil {
		return FnPkgPath(f.Origin())
	}
	return ""
}

// RepoFuncs returns all source functions (incl. closures) of repo packages,
// sorted by name. Synthetic wrappers/thunks/bound methods are excluded.
func (c *Ctx) RepoFuncs() []*ssa.Function {
	if c.repoFns != nil {
		return c.repoFns
	}
	for f := range c.AllFuncs() {
		if f.Synthetic != "" && f.Syntax() == nil {
			continue
		}
		if len(f.Blocks) == 0 {
			continue
		}
		if !InRepo(FnPkgPath(f)) {
			continue
		}
		c.repoFns = append(c.repoFns, f)
	}
	sort.Slice(c.repoFns, func(i, j int) bool {
		a, b := FnName(c.repoFns[i]), FnName(c.repoFns[j])
		if a != b {
			return a < b
		}
		return c.repoFns[i].Pos() < c.repoFns[j].Pos()
	})
	return c.repoFns
}

// FnName renders a function as pkg.Type.method or pkg.func, closures with $n.
func FnName(f *ssa.Function) string {
	if f == nil {
		return "<nil>"
	}
	if f.Parent() != nil {
		return FnName(f.Parent()) + "$" + strings.TrimPrefix(f.Name(), f.Parent().Name()+"$")
	}
	pkg := Short(FnPkgPath(f))
	if recv := f.Signature.Recv(); recv != nil {
		t := recv.Type()
		if p, ok := t.(*types.Pointer); ok {
			t = p.Elem()
		}
		if n, ok := t.(*types.Named); ok {
			return pkg + "." + n.Obj().Name() + "." + f.Name()
		}
	}
	return pkg + "." + f.Name()
}

// CG returns the VTA call graph (seeded with CHA), built once.
func (c *Ctx) CG() *callgraph.Graph {
	if c.cg == nil {
		c.cg = vta.CallGraph(c.AllFuncs(), c.CHA())
	}
	return c.cg
}

// CHA returns the class-hierarchy call graph.
func (c *Ctx) CHA() *callgraph.Graph {
	if c.chaCG == nil {
		c.chaCG = cha.CallGraph(c.Prog)
	}
	return c.chaCG
}

// Reach computes the functions reachable from roots in g. parent[f] is the
// caller edge through which f was first reached (nil for roots).
type Reach struct {
	Set    map[*ssa.Function]bool
	Parent map[*ssa.Function]*callgraph.Edge
}

// Reachable walks the call graph breadth first. stop(f) == true prunes the
// walk below f (f itself is still recorded).
func (c *Ctx) Reachable(g *callgraph.Graph, roots []*ssa.Function, stop func(*ssa.Function) bool) *Reach {
	r := &Reach{Set: map[*ssa.Function]bool{}, Parent: map[*ssa.Function]*callgraph.Edge{}}
	var q []*ssa.Function
	for _, f := range roots {
		if f != nil && !r.Set[f] {
			r.Set[f] = true
			q = append(q, f)
		}
	}
	for len(q) > 0 {
		f := q[0]
		q = q[1:]
		if stop != nil && stop(f) {
			continue
		}
		n := g.Nodes[f]
		if n == nil {
			continue
		}
		// deterministic order
		out := append([]*callgraph.Edge(nil), n.Out...)
		sort.SliceStable(out, func(i, j int) bool { return edgePos(out[i]) < edgePos(out[j]) })
		for _, e := range out {
			cal := e.Callee.Func
			if !r.Set[cal] {
				r.Set[cal] = true
				r.Parent[cal] = e
				q = append(q, cal)
			}
		}
	}
	return r
}

func edgePos(e *callgraph.Edge) token.Pos {
	if e.Site != nil {
		return e.Site.Pos()
	}
	return token.NoPos
}

// PathTo renders the call chain root → f.
func (r *Reach) PathTo(f *ssa.Function) string {
	var chain []string
	for cur := f; cur != nil; {
		chain = append(chain, FnName(cur))
		e := r.Parent[cur]
		if e == nil {
			break
		}
		cur = e.Caller.Func
		if len(chain) > 40 {
			break
		}
	}
	for i, j := 0, len(chain)-1; i < j; i, j = i+1, j-1 {
		chain[i], chain[j] = chain[j], chain[i]
	}
	if len(chain) > 8 {
		chain = append(append([]string{}, chain[:3]...), append([]string{"…"}, chain[len(chain)-4:]...)...)
	}
	return strings.Join(chain, " → ")
}

// FileOf returns the *ast.File containing pos in a repo package.
func (c *Ctx) FileOf(pos token.Pos) (*packages.Package, *ast.File) {
	for _, p := range c.Pkgs {
		for _, f := range p.Syntax {
			if f.Pos() <= pos && pos < f.End() {
				return p, f
			}
		}
	}
	return nil, nil
}
