package core

import (
	"go/constant"
	"go/token"
	"go/types"

	"golang.org/x/tools/go/ssa"
)

// Instrs calls fn for every instruction of f.
func Instrs(f *ssa.Function, fn func(b *ssa.BasicBlock, i ssa.Instruction)) {
	for _, b := range f.Blocks {
		for _, in := range b.Instrs {
			fn(b, in)
		}
	}
}

// CallSites returns the call instructions (call, go, defer) of f.
func CallSites(f *ssa.Function) []ssa.CallInstruction {
	var out []ssa.CallInstruction
	Instrs(f, func(_ *ssa.BasicBlock, in ssa.Instruction) {
		if c, ok := in.(ssa.CallInstruction); ok {
			out = append(out, c)
		}
	})
	return out
}

// StaticCallee resolves the callee of a call when it is statically known
// (function, method, closure literal or bound method value).
func StaticCallee(c ssa.CallInstruction) *ssa.Function {
	cc := c.Common()
	if f := cc.StaticCallee(); f != nil {
		return f
	}
	return nil
}

// IfaceMethod returns the interface method of an invoke-mode call, or nil.
func IfaceMethod(c ssa.CallInstruction) *types.Func {
	cc := c.Common()
	if cc.IsInvoke() {
		return cc.Method
	}
	return nil
}

// CalleeName gives a stable display name for what a call invokes:
// "pkg.Func", "pkg.Type.Method", "iface pkg.I.M" or "dynamic".
func CalleeName(c ssa.CallInstruction) string {
	if f := StaticCallee(c); f != nil {
		return FnName(f)
	}
	if m := IfaceMethod(c); m != nil {
		return "iface:" + MethodName(m)
	}
	if b, ok := c.Common().Value.(*ssa.Builtin); ok {
		return "builtin:" + b.Name()
	}
	return "dynamic"
}

// MethodName renders a *types.Func as pkg.Recv.Name.
func MethodName(m *types.Func) string {
	sig, _ := m.Type().(*types.Signature)
	pkg := ""
	if m.Pkg() != nil {
		pkg = Short(m.Pkg().Path())
	}
	if sig != nil && sig.Recv() != nil {
		t := sig.Recv().Type()
		if p, ok := t.(*types.Pointer); ok {
			t = p.Elem()
		}
		if n, ok := t.(*types.Named); ok {
			return pkg + "." + n.Obj().Name() + "." + m.Name()
		}
	}
	return pkg + "." + m.Name()
}

// IsCallTo reports whether c statically calls f.
func IsCallTo(c ssa.CallInstruction, f *ssa.Function) bool {
	return f != nil && StaticCallee(c) == f
}

// Strip removes value-preserving wrappers (ChangeType, ChangeInterface,
// MakeInterface) from v.
func Strip(v ssa.Value) ssa.Value {
	for {
		switch x := v.(type) {
		case *ssa.ChangeType:
			v = x.X
		case *ssa.ChangeInterface:
			v = x.X
		case *ssa.MakeInterface:
			v = x.X
		default:
			return v
		}
	}
}

// ConstInt returns the integer value of a constant SSA value.
func ConstInt(v ssa.Value) (int64, bool) {
	c, ok := v.(*ssa.Const)
	if !ok || c.Value == nil {
		return 0, false
	}
	if c.Value.Kind() == constant.Int {
		i, exact := constant.Int64Val(c.Value)
		return i, exact
	}
	if c.Value.Kind() == constant.Float {
		f, _ := constant.Float64Val(c.Value)
		if f == float64(int64(f)) {
			return int64(f), true
		}
	}
	return 0, false
}

// ConstString returns the string value of a constant SSA value.
func ConstString(v ssa.Value) (string, bool) {
	c, ok := v.(*ssa.Const)
	if !ok || c.Value == nil || c.Value.Kind() != constant.String {
		return "", false
	}
	return constant.StringVal(c.Value), true
}

// IsNilConst reports whether v is the nil constant.
func IsNilConst(v ssa.Value) bool {
	c, ok := v.(*ssa.Const)
	return ok && c.Value == nil
}

// Deref returns the element type of a pointer type, or t itself.
func Deref(t types.Type) types.Type {
	if p, ok := t.Underlying().(*types.Pointer); ok {
		return p.Elem()
	}
	return t
}

// NamedOf returns the named type behind t (through one pointer), or nil.
func NamedOf(t types.Type) *types.Named {
	if t == nil {
		return nil
	}
	if p, ok := t.(*types.Pointer); ok {
		t = p.Elem()
	}
	n, _ := t.(*types.Named)
	return n
}

// TypeName renders a type relative to the repository ("meta.List", "*meta.List").
func TypeName(t types.Type) string {
	return types.TypeString(t, func(p *types.Package) string { return Short(p.Path()) })
}

// IsErrorType reports whether t is the predeclared error type.
func IsErrorType(t types.Type) bool {
	return types.Identical(t, types.Universe.Lookup("error").Type())
}

// BlockDominatedByEdge reports whether block b can only be entered through
// the edge from→from.Succs[succ]: the successor dominates b and the successor
// has from as its only predecessor (otherwise other paths merge into it).
func BlockDominatedByEdge(b, from *ssa.BasicBlock, succ int) bool {
	if succ >= len(from.Succs) {
		return false
	}
	s := from.Succs[succ]
	if len(s.Preds) != 1 {
		return false
	}
	return s.Dominates(b)
}

// PathConds returns the branch conditions that hold on entry to block b:
// for each dominating If, the condition value and whether it is true.
type Cond struct {
	V    ssa.Value
	True bool
	If   *ssa.If
}

func PathConds(b *ssa.BasicBlock) []Cond {
	var out []Cond
	for d := b.Idom(); d != nil; d = d.Idom() {
		if len(d.Instrs) == 0 {
			continue
		}
		ifi, ok := d.Instrs[len(d.Instrs)-1].(*ssa.If)
		if !ok {
			continue
		}
		t := BlockDominatedByEdge(b, d, 0)
		f := BlockDominatedByEdge(b, d, 1)
		if t && !f {
			out = append(out, Cond{ifi.Cond, true, ifi})
		} else if f && !t {
			out = append(out, Cond{ifi.Cond, false, ifi})
		}
	}
	return out
}

// Returns lists the Return instructions of f.
func Returns(f *ssa.Function) []*ssa.Return {
	var out []*ssa.Return
	for _, b := range f.Blocks {
		if len(b.Instrs) == 0 {
			continue
		}
		if r, ok := b.Instrs[len(b.Instrs)-1].(*ssa.Return); ok {
			out = append(out, r)
		}
	}
	return out
}

// PhiLeaves expands v through phis into its non-phi sources, each paired
// with the block in which that source is selected (the predecessor block of
// the phi edge; for non-phi values the block given).
type Leaf struct {
	V     ssa.Value
	Block *ssa.BasicBlock
}

func PhiLeaves(v ssa.Value, at *ssa.BasicBlock) []Leaf {
	var out []Leaf
	seen := map[ssa.Value]bool{}
	var walk func(v ssa.Value, at *ssa.BasicBlock)
	walk = func(v ssa.Value, at *ssa.BasicBlock) {
		if p, ok := v.(*ssa.Phi); ok {
			if seen[p] {
				return
			}
			seen[p] = true
			for i, e := range p.Edges {
				walk(e, p.Block().Preds[i])
			}
			return
		}
		out = append(out, Leaf{v, at})
	}
	walk(v, at)
	return out
}

// IntBits returns the size in bits of a basic integer type and whether it is
// signed; ok=false for non-integers.
func IntBits(t types.Type, sizes types.Sizes) (bits int, signed bool, ok bool) {
	b, isb := t.Underlying().(*types.Basic)
	if !isb || b.Info()&types.IsInteger == 0 {
		return 0, false, false
	}
	return int(sizes.Sizeof(b)) * 8, b.Info()&types.IsUnsigned == 0, true
}

// IsFloat reports whether t is a floating-point type.
func IsFloat(t types.Type) bool {
	b, ok := t.Underlying().(*types.Basic)
	return ok && b.Info()&types.IsFloat != 0
}

// RelOp classifies comparison tokens.
func RelOp(op token.Token) bool {
	switch op {
	case token.LSS, token.GTR, token.LEQ, token.GEQ, token.EQL, token.NEQ:
		return true
	}
	return false
}

// RetOperands returns the values a Return instruction returns, looking through
// the spill go/ssa inserts in functions with defers (results are stored to
// result allocs, `rundefers`, then reloaded).
func RetOperands(ret *ssa.Return) []ssa.Value {
	out := make([]ssa.Value, len(ret.Results))
	for i, v := range ret.Results {
		out[i] = v
		u, ok := v.(*ssa.UnOp)
		if !ok || u.Op != token.MUL {
			continue
		}
		al, ok := u.X.(*ssa.Alloc)
		if !ok {
			continue
		}
		// last store to the alloc in the same block before the load
		var last ssa.Value
		for _, in := range ret.Block().Instrs {
			if in == ssa.Instruction(u) {
				break
			}
			if st, ok := in.(*ssa.Store); ok && st.Addr == al {
				last = st.Val
			}
		}
		if last != nil {
			out[i] = last
			// the stored value may itself be a reload of a captured variable
			// assigned just before in the same block (err = …; return nil, err)
			for hop := 0; hop < 3; hop++ {
				u2, ok := out[i].(*ssa.UnOp)
				if !ok || u2.Op != token.MUL {
					break
				}
				a2, ok := u2.X.(*ssa.Alloc)
				if !ok {
					break
				}
				var l2 ssa.Value
				for _, in := range ret.Block().Instrs {
					if in == ssa.Instruction(u2) {
						break
					}
					if st, ok := in.(*ssa.Store); ok && st.Addr == a2 {
						l2 = st.Val
					}
				}
				if l2 == nil {
					break
				}
				out[i] = l2
			}
		}
	}
	return out
}

// IsParam reports whether v is the parameter p or a load of the local slot the
// parameter was spilled to (parameters captured by closures live in allocs).
func IsParam(v ssa.Value, p *ssa.Parameter) bool {
	if v == ssa.Value(p) {
		return true
	}
	u, ok := v.(*ssa.UnOp)
	if !ok || u.Op != token.MUL {
		return false
	}
	al, ok := u.X.(*ssa.Alloc)
	if !ok {
		return false
	}
	for _, r := range *al.Referrers() {
		if st, ok := r.(*ssa.Store); ok && st.Addr == al && st.Val == ssa.Value(p) {
			return true
		}
	}
	return false
}
