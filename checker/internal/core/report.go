package core

import (
	"encoding/json"
	"fmt"
	"os"
	"path/filepath"
	"sort"
	"strings"
	"time"
)

// Ob is one obligation: a rule instance on a named construct.
type Ob struct {
	Rule      string `json:"rule"`
	Construct string `json:"construct"`
	Key       string `json:"key"`
	Pos       string `json:"pos,omitempty"`
	OK        bool   `json:"discharged"`
	Msg       string `json:"msg,omitempty"`
	Known     bool   `json:"known_finding,omitempty"`
}

// Report collects what a check analysed and decided.
type Report struct {
	Property    string
	Tier        string
	Seed        int
	Root        string // /verif
	Explanation string
	Assumptions []string
	Trusted     []string

	Obs      []*Ob
	keys     map[string]int
	Analysed map[string]int
	Info     []string // informational lines, never violations
	Fatal    []string // unresolved anchors, vacuous rules, engine failures
	Samples  []string
	start    time.Time
	rules    map[string][2]int // rule → [obligations, discharged]
}

func NewReport(property, tier, root string, seed int) *Report {
	return &Report{Property: property, Tier: tier, Root: root, Seed: seed,
		keys: map[string]int{}, Analysed: map[string]int{}, start: time.Now(),
		rules: map[string][2]int{}}
}

// Ob records an obligation. Keys are rule/construct; a repeated key gets an
// ordinal suffix so that every obligation stays addressable.
func (r *Report) Ob(rule, construct, pos string, ok bool, msg string) *Ob {
	key := rule + "/" + construct
	r.keys[key]++
	if n := r.keys[key]; n > 1 {
		key = fmt.Sprintf("%s#%d", key, n)
	}
	o := &Ob{Rule: rule, Construct: construct, Key: key, Pos: pos, OK: ok, Msg: msg}
	r.Obs = append(r.Obs, o)
	c := r.rules[rule]
	c[0]++
	if ok {
		c[1]++
	}
	r.rules[rule] = c
	return o
}

// Count adds to an "analysed" counter shown in evidence.
func (r *Report) Count(what string, n int) { r.Analysed[what] += n }

// Infof records an informational line.
func (r *Report) Infof(f string, a ...any) { r.Info = append(r.Info, fmt.Sprintf(f, a...)) }

// Fatalf records a failure of the machinery to decide (unresolved anchor,
// vacuous rule). It makes the check fail.
func (r *Report) Fatalf(f string, a ...any) { r.Fatal = append(r.Fatal, fmt.Sprintf(f, a...)) }

// Sample keeps an example obligation text for evidence.
func (r *Report) Sample(f string, a ...any) {
	if len(r.Samples) < 12 {
		r.Samples = append(r.Samples, fmt.Sprintf(f, a...))
	}
}

// Floor fails the check when a rule matched fewer instances than were
// confirmed by hand: a rule that matches nothing never passes silently.
func (r *Report) Floor(rule string, got, want int) {
	r.Count("instances:"+rule, got)
	if got < want {
		r.Fatalf("rule %s matched %d instance(s), expected at least %d — the anchored construct moved or the rule is vacuous", rule, got, want)
	}
}

// KnownFile is /verif/known_findings.json.
type KnownFile struct {
	Findings []KnownFinding `json:"findings"`
	Fixed    []FixedFinding `json:"fixed"`
}

type KnownFinding struct {
	Property string `json:"property"`
	Key      string `json:"key"`
	What     string `json:"what"`
	Input    string `json:"input,omitempty"`
}

type FixedFinding struct {
	Property string `json:"property"`
	Key      string `json:"key"`
	Commit   string `json:"commit"`
	What     string `json:"what"`
	Line     string `json:"line"`
}

func LoadKnown(root string) (*KnownFile, error) {
	b, err := os.ReadFile(filepath.Join(root, "known_findings.json"))
	if err != nil {
		if os.IsNotExist(err) {
			return &KnownFile{}, nil
		}
		return nil, err
	}
	var k KnownFile
	if err := json.Unmarshal(b, &k); err != nil {
		return nil, fmt.Errorf("known_findings.json: %w", err)
	}
	return &k, nil
}

// Finish prints the verdict, writes evidence and the replay report and
// returns the process exit code.
func (r *Report) Finish() int {
	known, err := LoadKnown(r.Root)
	if err != nil {
		r.Fatalf("%v", err)
		known = &KnownFile{}
	}
	kmap := map[string]KnownFinding{}
	for _, k := range known.Findings {
		if k.Property == r.Property {
			kmap[k.Key] = k
		}
	}
	sort.SliceStable(r.Obs, func(i, j int) bool { return r.Obs[i].Key < r.Obs[j].Key })
	total, discharged, nknown, nviol := 0, 0, 0, 0
	seenKnown := map[string]bool{}
	var viol []*Ob
	for _, o := range r.Obs {
		total++
		if o.OK {
			discharged++
			continue
		}
		if k, ok := kmap[o.Key]; ok {
			o.Known = true
			nknown++
			seenKnown[o.Key] = true
			fmt.Printf("KNOWN-FINDING: property=%s %s at %s: %s\n", r.Property, o.Key, o.Pos, k.What)
			continue
		}
		nviol++
		viol = append(viol, o)
	}
	for _, k := range known.Findings {
		if k.Property == r.Property && !seenKnown[k.Key] {
			r.Infof("known finding %s is no longer reported by the rules (stale entry)", k.Key)
		}
	}
	for _, s := range r.Info {
		fmt.Printf("info: %s\n", s)
	}
	var ruleNames []string
	for k := range r.rules {
		ruleNames = append(ruleNames, k)
	}
	sort.Strings(ruleNames)
	for _, k := range ruleNames {
		fmt.Printf("rule %-28s obligations=%d discharged=%d\n", k, r.rules[k][0], r.rules[k][1])
	}
	for _, o := range viol {
		fmt.Printf("FINDING property=%s key=%s at %s: %s\n", r.Property, o.Key, o.Pos, o.Msg)
	}
	for _, f := range r.Fatal {
		fmt.Printf("UNDECIDED property=%s: %s\n", r.Property, f)
	}
	wall := time.Since(r.start).Seconds()

	outDir := filepath.Join(r.Root, "out")
	os.MkdirAll(outDir, 0o755)
	replay := filepath.Join(outDir, r.Property+".report.json")
	rep := map[string]any{
		"property": r.Property, "tier": r.Tier, "obligations": r.Obs, "undecided": r.Fatal,
		"analysed": r.Analysed, "info": r.Info,
	}
	writeJSON(replay, rep)

	samples := []any{}
	for _, s := range r.Samples {
		samples = append(samples, s)
	}
	if len(samples) == 0 {
		for i, o := range r.Obs {
			if i >= 8 {
				break
			}
			samples = append(samples, fmt.Sprintf("%s at %s discharged=%v %s", o.Key, o.Pos, o.OK, o.Msg))
		}
	}
	perRule := map[string]any{}
	for _, k := range ruleNames {
		perRule[k] = map[string]int{"obligations": r.rules[k][0], "discharged": r.rules[k][1]}
	}
	distinct := len(r.keys)
	cov := map[string]any{
		"explanation":         r.Explanation,
		"obligations":         total,
		"discharged":          discharged,
		"known_findings":      nknown,
		"undischarged_new":    nviol,
		"undecided":           len(r.Fatal),
		"evaluations":         total,
		"distinct_nontrivial": distinct,
		"rule":                "one obligation per (rule, resolved program construct); distinct = distinct rule/construct keys; every obligation is decided over all paths of the analysed functions",
		"samples":             samples,
		"per_rule":            perRule,
		"analysed":            r.Analysed,
		"checker_cmd":         fmt.Sprintf("bin/verifchk -property %s -tier %s", r.Property, r.Tier),
		"trusted_base":        append([]string{"go/types, go/ssa, callgraph/vta of golang.org/x/tools v0.29.0", "this checker's rule implementations"}, r.Trusted...),
		"exhaustive":          false,
	}
	ev := map[string]any{
		"property_id": r.Property,
		"tier":        r.Tier,
		"seed":        r.Seed,
		"level":       "other",
		"coverage":    cov,
		"assumptions": append([]string{
			"static analysis of the source in /repo at run time; no freeconf/yang code is executed",
			"no calls into library code through reflect.Value.Call or unsafe",
		}, r.Assumptions...),
		"wall_s":     wall,
		"violations": nviol + len(r.Fatal),
	}
	evDir := filepath.Join(r.Root, "evidence")
	os.MkdirAll(evDir, 0o755)
	writeJSON(filepath.Join(evDir, r.Property+".json"), ev)

	fmt.Printf("summary property=%s tier=%s obligations=%d discharged=%d known=%d new=%d undecided=%d wall=%.1fs\n",
		r.Property, r.Tier, total, discharged, nknown, nviol, len(r.Fatal), wall)
	if nviol > 0 || len(r.Fatal) > 0 {
		fmt.Printf("VIOLATION property=%s replay=%s\n", r.Property, replay)
		return 1
	}
	return 0
}

func writeJSON(path string, v any) {
	b, err := json.MarshalIndent(v, "", " ")
	if err != nil {
		fmt.Fprintf(os.Stderr, "marshal %s: %v\n", path, err)
		return
	}
	if err := os.WriteFile(path, append(b, '\n'), 0o644); err != nil {
		fmt.Fprintf(os.Stderr, "write %s: %v\n", path, err)
	}
}

// Join is a small helper for messages.
func Join(ss []string) string { return strings.Join(ss, ", ") }

// Borrow copies the obligations of the named rules (and every failure to
// decide) from a report another property's rule set filled: a property that
// rests on a clause decided elsewhere reports it under its own name too.
func (r *Report) Borrow(from *Report, rules ...string) {
	want := map[string]bool{}
	for _, x := range rules {
		want[x] = true
	}
	known, _ := LoadKnown(r.Root)
	isKnown := func(key string) bool {
		if known == nil {
			return false
		}
		for _, k := range known.Findings {
			if k.Property == from.Property && k.Key == key {
				return true
			}
		}
		return false
	}
	for _, o := range from.Obs {
		if !want[o.Rule] {
			continue
		}
		if !o.OK && isKnown(o.Key) {
			// recorded under the property that owns the rule; not reported a second time here
			continue
		}
		r.Ob(o.Rule, o.Construct, o.Pos, o.OK, o.Msg)
	}
	for _, f := range from.Fatal {
		r.Fatal = append(r.Fatal, "("+from.Property+" rule set) "+f)
	}
}
