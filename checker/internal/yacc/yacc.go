// Package yacc reads a goyacc grammar file far enough to lint its productions:
// declarations (%token, %type, %union), rules with alternatives, symbols and Go
// actions. It does not build parse tables.
package yacc

import (
	"fmt"
	"go/ast"
	"go/parser"
	"go/token"
	"os"
	"regexp"
	"strings"
	"unicode"
)

type Token struct {
	Name string
	Type string // union field, "" when untyped
	Line int
}

type Sym struct {
	Name   string
	Action *Action // non-nil for a mid-rule action occupying this position
}

type Action struct {
	Src  string // Go source with $$/$N rewritten to yyVAL_ / yyD_N
	Raw  string
	Line int
	Body *ast.BlockStmt // nil if it did not parse
	Err  error
}

type Alt struct {
	Rule   *Rule
	Index  int
	Syms   []Sym
	Action *Action // final action (may be nil)
	Line   int
}

type Rule struct {
	Name string
	Alts []*Alt
	Line int
}

type Grammar struct {
	File     string
	Tokens   []Token
	TokIndex map[string]int
	Types    map[string]string // non-terminal → union field
	Rules    []*Rule
	ByName   map[string]*Rule
	Prologue string
	Fset     *token.FileSet
}

// Parse reads the grammar at path.
func Parse(path string) (*Grammar, error) {
	b, err := os.ReadFile(path)
	if err != nil {
		return nil, err
	}
	src := string(b)
	g := &Grammar{File: path, TokIndex: map[string]int{}, Types: map[string]string{}, ByName: map[string]*Rule{}, Fset: token.NewFileSet()}
	// sections
	first := strings.Index(src, "\n%%")
	if first < 0 {
		return nil, fmt.Errorf("%s: no %%%% separator", path)
	}
	decl := src[:first]
	rest := src[first+3:]
	second := strings.Index(rest, "\n%%")
	rules := rest
	if second >= 0 {
		rules = rest[:second]
	}
	rulesLine0 := strings.Count(src[:first+3], "\n") + 1
	// declarations
	line := 0
	inProlog := false
	for _, ln := range strings.Split(decl, "\n") {
		line++
		t := strings.TrimSpace(ln)
		switch {
		case t == "%{":
			inProlog = true
		case t == "%}":
			inProlog = false
		case inProlog:
			g.Prologue += ln + "\n"
		case strings.HasPrefix(t, "%token"):
			f := strings.Fields(t[len("%token"):])
			typ := ""
			for _, w := range f {
				if strings.HasPrefix(w, "<") {
					typ = strings.Trim(w, "<>")
					continue
				}
				g.TokIndex[w] = len(g.Tokens)
				g.Tokens = append(g.Tokens, Token{Name: w, Type: typ, Line: line})
			}
		case strings.HasPrefix(t, "%type"):
			f := strings.Fields(t[len("%type"):])
			typ := ""
			for _, w := range f {
				if strings.HasPrefix(w, "<") {
					typ = strings.Trim(w, "<>")
					continue
				}
				g.Types[w] = typ
			}
		}
	}
	if err := g.parseRules(rules, rulesLine0); err != nil {
		return nil, err
	}
	return g, nil
}

type lexTok struct {
	kind string // ident colon bar semi action char
	text string
	line int
}

func (g *Grammar) lexRules(src string, line0 int) ([]lexTok, error) {
	var toks []lexTok
	line := line0
	i := 0
	n := len(src)
	for i < n {
		c := src[i]
		switch {
		case c == '\n':
			line++
			i++
		case c == ' ' || c == '\t' || c == '\r':
			i++
		case c == '/' && i+1 < n && src[i+1] == '*':
			j := strings.Index(src[i+2:], "*/")
			if j < 0 {
				return nil, fmt.Errorf("line %d: unterminated comment", line)
			}
			line += strings.Count(src[i:i+2+j+2], "\n")
			i += 2 + j + 2
		case c == '/' && i+1 < n && src[i+1] == '/':
			for i < n && src[i] != '\n' {
				i++
			}
		case c == ':':
			toks = append(toks, lexTok{"colon", ":", line})
			i++
		case c == '|':
			toks = append(toks, lexTok{"bar", "|", line})
			i++
		case c == ';':
			toks = append(toks, lexTok{"semi", ";", line})
			i++
		case c == '\'':
			j := i + 1
			for j < n && src[j] != '\'' {
				if src[j] == '\\' {
					j++
				}
				j++
			}
			toks = append(toks, lexTok{"char", src[i : j+1], line})
			i = j + 1
		case c == '{':
			start := i
			startLine := line
			depth := 0
			for i < n {
				ch := src[i]
				switch {
				case ch == '\n':
					line++
					i++
				case ch == '{':
					depth++
					i++
				case ch == '}':
					depth--
					i++
					if depth == 0 {
						goto done
					}
				case ch == '"':
					i++
					for i < n && src[i] != '"' {
						if src[i] == '\\' {
							i++
						}
						if src[i] == '\n' {
							line++
						}
						i++
					}
					i++
				case ch == '`':
					i++
					for i < n && src[i] != '`' {
						if src[i] == '\n' {
							line++
						}
						i++
					}
					i++
				case ch == '\'':
					i++
					for i < n && src[i] != '\'' {
						if src[i] == '\\' {
							i++
						}
						i++
					}
					i++
				case ch == '/' && i+1 < n && src[i+1] == '/':
					for i < n && src[i] != '\n' {
						i++
					}
				case ch == '/' && i+1 < n && src[i+1] == '*':
					j := strings.Index(src[i+2:], "*/")
					if j < 0 {
						return nil, fmt.Errorf("line %d: unterminated comment in action", line)
					}
					line += strings.Count(src[i:i+2+j+2], "\n")
					i += 2 + j + 2
				default:
					i++
				}
			}
			return nil, fmt.Errorf("line %d: unterminated action", startLine)
		done:
			toks = append(toks, lexTok{"action", src[start:i], startLine})
		case unicode.IsLetter(rune(c)) || c == '_':
			j := i
			for j < n && (unicode.IsLetter(rune(src[j])) || unicode.IsDigit(rune(src[j])) || src[j] == '_' || src[j] == '.') {
				j++
			}
			toks = append(toks, lexTok{"ident", src[i:j], line})
			i = j
		default:
			return nil, fmt.Errorf("line %d: unexpected character %q in rules section", line, c)
		}
	}
	return toks, nil
}

var dollarN = regexp.MustCompile(`\$(\$|[0-9]+)`)

func (g *Grammar) mkAction(raw string, line int) *Action {
	a := &Action{Raw: raw, Line: line}
	a.Src = dollarN.ReplaceAllStringFunc(raw, func(m string) string {
		if m == "$$" {
			return "yyVAL_"
		}
		return "yyD_" + m[1:]
	})
	src := "package p\nfunc _() " + a.Src + "\n"
	f, err := parser.ParseFile(g.Fset, fmt.Sprintf("%s:action@%d", g.File, line), src, parser.SkipObjectResolution)
	if err != nil {
		a.Err = err
		return a
	}
	for _, d := range f.Decls {
		if fd, ok := d.(*ast.FuncDecl); ok {
			a.Body = fd.Body
		}
	}
	return a
}

func (g *Grammar) parseRules(src string, line0 int) error {
	toks, err := g.lexRules(src, line0)
	if err != nil {
		return fmt.Errorf("%s: %w", g.File, err)
	}
	i := 0
	for i < len(toks) {
		if toks[i].kind == "semi" {
			i++
			continue
		}
		if toks[i].kind != "ident" || i+1 >= len(toks) || toks[i+1].kind != "colon" {
			return fmt.Errorf("%s:%d: expected 'name :' got %q", g.File, toks[i].line, toks[i].text)
		}
		r := &Rule{Name: toks[i].text, Line: toks[i].line}
		i += 2
		alt := &Alt{Rule: r, Line: r.Line}
		flush := func() {
			// a trailing action is the final action
			if n := len(alt.Syms); n > 0 && alt.Syms[n-1].Action != nil {
				alt.Action = alt.Syms[n-1].Action
				alt.Syms = alt.Syms[:n-1]
			}
			alt.Index = len(r.Alts)
			r.Alts = append(r.Alts, alt)
		}
		for i < len(toks) {
			t := toks[i]
			if t.kind == "ident" && i+1 < len(toks) && toks[i+1].kind == "colon" {
				break // next rule
			}
			switch t.kind {
			case "bar":
				flush()
				alt = &Alt{Rule: r, Line: t.line}
			case "semi":
			case "ident", "char":
				if len(alt.Syms) == 0 {
					alt.Line = t.line
				}
				alt.Syms = append(alt.Syms, Sym{Name: t.text})
			case "action":
				alt.Syms = append(alt.Syms, Sym{Name: "$action", Action: g.mkAction(t.text, t.line)})
			}
			i++
		}
		flush()
		if prev, dup := g.ByName[r.Name]; dup {
			prev.Alts = append(prev.Alts, r.Alts...)
		} else {
			g.Rules = append(g.Rules, r)
			g.ByName[r.Name] = r
		}
	}
	return nil
}

// IsToken reports whether a symbol is a declared terminal.
func (g *Grammar) IsToken(name string) bool {
	_, ok := g.TokIndex[name]
	return ok || strings.HasPrefix(name, "'")
}

// ValueType returns the union field a symbol's value has ("" when none).
func (g *Grammar) ValueType(name string) string {
	if i, ok := g.TokIndex[name]; ok {
		return g.Tokens[i].Type
	}
	return g.Types[name]
}

// Refs returns the set of $N positions and whether $$ is referenced in an action.
func (a *Action) Refs() (pos map[int]bool, val bool) {
	pos = map[int]bool{}
	if a == nil {
		return
	}
	for _, m := range dollarN.FindAllStringSubmatch(stripStrings(a.Raw), -1) {
		if m[1] == "$" {
			val = true
		} else {
			n := 0
			fmt.Sscanf(m[1], "%d", &n)
			pos[n] = true
		}
	}
	return
}

// stripStrings blanks string literals and comments so that "$1" inside a
// message is not taken for a reference.
func stripStrings(s string) string {
	var b strings.Builder
	i := 0
	for i < len(s) {
		c := s[i]
		switch {
		case c == '"':
			b.WriteByte('"')
			i++
			for i < len(s) && s[i] != '"' {
				if s[i] == '\\' {
					i++
				}
				i++
			}
			b.WriteByte('"')
			i++
		case c == '`':
			i++
			for i < len(s) && s[i] != '`' {
				i++
			}
			i++
		case c == '/' && i+1 < len(s) && s[i+1] == '/':
			for i < len(s) && s[i] != '\n' {
				i++
			}
		case c == '/' && i+1 < len(s) && s[i+1] == '*':
			j := strings.Index(s[i+2:], "*/")
			if j < 0 {
				return b.String()
			}
			i += 2 + j + 2
		default:
			b.WriteByte(c)
			i++
		}
	}
	return b.String()
}
