package rules

import (
	"go/token"
	"go/types"
	"strings"

	"golang.org/x/tools/go/ssa"

	"verif/checker/internal/core"
)

// valueTextComparisons lists the ==/!= comparisons in fns one operand of which
// is the String() of a val.Value (or of a concrete value type of package val).
func valueTextComparisons(ctx *core.Ctx, fns []*ssa.Function) []*ssa.BinOp {
	valIface := ctx.Named("val", "Value")
	var out []*ssa.BinOp
	isValString := func(v ssa.Value) bool {
		c, ok := core.Strip(v).(*ssa.Call)
		if !ok {
			return false
		}
		cc := c.Common()
		if cc.IsInvoke() {
			if cc.Method.Name() != "String" {
				return false
			}
			if valIface != nil && types.Implements(cc.Value.Type(), valIface.Underlying().(*types.Interface)) {
				return true
			}
			if n := core.NamedOf(cc.Value.Type()); n != nil && n.Obj().Pkg() != nil && n.Obj().Pkg().Path() == core.Full("val") {
				return true
			}
			return false
		}
		if cal := cc.StaticCallee(); cal != nil && cal.Name() == "String" && cal.Signature.Recv() != nil {
			if n := core.NamedOf(cal.Signature.Recv().Type()); n != nil && n.Obj().Pkg() != nil && n.Obj().Pkg().Path() == core.Full("val") {
				return true
			}
		}
		return false
	}
	for _, f := range fns {
		core.Instrs(f, func(_ *ssa.BasicBlock, in ssa.Instruction) {
			bo, ok := in.(*ssa.BinOp)
			if !ok || (bo.Op != token.EQL && bo.Op != token.NEQ) {
				return
			}
			if isValString(bo.X) || isValString(bo.Y) {
				out = append(out, bo)
			}
		})
	}
	return out
}

// noValueTextEquality: inside the request path (package node, and the keyed
// lookups of nodeutil's list nodes) two typed values are never declared equal
// or different on the strength of their String(): text is not canonical
// (decimal64 prints six digits, identityrefs print without their module, a
// default is spelled as the schema author wrote it), so equal text does not
// mean equal values and different text does not mean different values.
// Readers that match document text against a key (json_rdr, xml_rdr) have only
// text on one side and are not concerned.
func noValueTextEquality(ctx *core.Ctx, r *core.Report) {
	fns := append(scopeFuncs(ctx, "node"), scopeFuncs(ctx, "nodeutil", "node_slice.go", "reflect.go", "node.go", "node_map.go", "node_struct.go")...)
	hits := valueTextComparisons(ctx, fns)
	for _, bo := range hits {
		r.Ob("no-value-text-equality", core.FnName(bo.Parent())+"/"+bo.Op.String(), ctx.Pos(bo.Pos()), false,
			"two typed values are compared through their String(): the text of a value is not canonical (decimal64 is printed with six digits, a default is spelled as the schema author wrote it, an identityref prints without its module), so values that are equal compare different and values that differ compare equal")
	}
	r.Ob("no-value-text-equality", "node+nodeutil(list nodes)/scanned", "node/", len(fns) > 300, "the scope of the rule collapsed")
	r.Count("functions_scanned_for_text_equality", len(fns))
}

// metaIdentityCompare: does bo compare two schema nodes by identity (both
// operands of a type declared in package meta)? Returns the operand chains.
func metaIdentityCompare(bo *ssa.BinOp) (string, string, bool) {
	if bo.Op != token.EQL && bo.Op != token.NEQ {
		return "", "", false
	}
	isMeta := func(t types.Type) bool {
		if n := core.NamedOf(t); n != nil && n.Obj().Pkg() != nil && n.Obj().Pkg().Path() == core.Full("meta") {
			return true
		}
		return false
	}
	if !isMeta(bo.X.Type()) || !isMeta(bo.Y.Type()) {
		return "", "", false
	}
	return paramFieldChain(bo.X), paramFieldChain(bo.Y), true
}

// c16WhereBaseByIdentity: the where expression is applied to the entries of
// the list the request was made on — recognised by the identity of the schema
// node (r.Base.Meta == r.Meta), not by its name: a nested list may carry the
// same name as the list the where is meant for.
func c16WhereBaseByIdentity(ctx *core.Ctx, r *core.Report) {
	f := ctx.Method("node", "Where", "CheckListPostConstraints")
	xp := ctx.Method("node", "Selection", "XPredicate")
	if f == nil || xp == nil {
		r.Fatalf("anchors Where.CheckListPostConstraints / Selection.XPredicate not found")
		return
	}
	for _, c := range callsStatic(f, xp, false) {
		ok := false
		var visit func(v ssa.Value, d int)
		visit = func(v ssa.Value, d int) {
			if d > 4 {
				return
			}
			switch x := v.(type) {
			case *ssa.BinOp:
				if a, b, is := metaIdentityCompare(x); is {
					if x.Op == token.EQL && ((a == "r.Base.Meta" && b == "r.Meta") || (b == "r.Base.Meta" && a == "r.Meta")) {
						ok = true
					}
				}
				visit(x.X, d+1)
				visit(x.Y, d+1)
			case *ssa.Phi:
				for _, e := range x.Edges {
					visit(e, d+1)
				}
			case *ssa.UnOp:
				visit(x.X, d+1)
			}
		}
		for _, pc := range core.PathConds(c.Block()) {
			visit(pc.V, 0)
		}
		r.Ob("where-scope", "node.Where.CheckListPostConstraints/base-list-by-identity", ctx.Pos(c.Pos()), ok,
			"the where expression is applied without the test that this list IS the list the request was made on (r.Base.Meta == r.Meta, identity of the schema node): with a comparison by name, rows of a nested list that merely has the same name are filtered as well and silently dropped")
	}
}

// c07DepthFromBase: the depth of a request is counted from the node the
// request was made on, which the walk up the path recognises by the identity of
// its schema node (p.Meta != base.Meta). Path.Equal also compares list keys, and the
// path of a list as a whole has none while the paths below it do: the walk
// then never meets the base and counts from the module root.
func c07DepthFromBase(ctx *core.Ctx, r *core.Report) {
	f := ctx.Method("node", "MaxDepth", "checkPathLen")
	if f == nil {
		r.Fatalf("anchor node.MaxDepth.checkPathLen not found")
		return
	}
	byIdentity := false
	core.Instrs(f, func(_ *ssa.BasicBlock, in ssa.Instruction) {
		if bo, ok := in.(*ssa.BinOp); ok {
			if a, b, is := metaIdentityCompare(bo); is {
				if (a == "base.Meta" && strings.HasSuffix(b, ".Meta")) || (b == "base.Meta" && strings.HasSuffix(a, ".Meta")) {
					byIdentity = true
				}
			}
		}
	})
	byPath := ""
	for _, c := range core.CallSites(f) {
		if cal := core.StaticCallee(c); cal != nil && strings.HasPrefix(core.FnName(cal), "node.Path.Equal") {
			byPath = core.FnName(cal)
		}
	}
	r.Ob("depth-counts-from-base", "node.MaxDepth.checkPathLen", ctx.Pos(f.Pos()), byIdentity && byPath == "",
		"the walk from the current node up to the node the request was made on does not stop on the identity of the schema node (p.Meta != base.Meta)"+map[bool]string{true: " but on " + byPath, false: ""}[byPath != ""]+": for a request on a list as a whole the base is never met and the depth is counted from the module root, so the answer is cut off too early")
}
