package rules

import (
	"fmt"
	"go/constant"
	"go/token"
	"go/types"
	"regexp"
	"sort"
	"strings"

	"golang.org/x/tools/go/ssa"

	"verif/checker/internal/core"
)

// ---------------------------------------------------------------------------
// Shared helpers for shape rules on named functions (C03, C09, C12, C05, C16…)
// ---------------------------------------------------------------------------

// instrIndex returns the position of an instruction in its block.
func instrIndex(in ssa.Instruction) int {
	for i, x := range in.Block().Instrs {
		if x == in {
			return i
		}
	}
	return -1
}

// instrDominates: a is executed before b on every path to b.
func instrDominates(a, b ssa.Instruction) bool {
	if a.Block() == b.Block() {
		return instrIndex(a) < instrIndex(b)
	}
	return a.Block().Dominates(b.Block())
}

// withClosures lists f and the anonymous functions nested in it.
func withClosures(f *ssa.Function) []*ssa.Function {
	out := []*ssa.Function{f}
	for _, a := range f.AnonFuncs {
		out = append(out, withClosures(a)...)
	}
	return out
}

// callsWhere lists call instructions in f (optionally its closures) matching pred.
func callsWhere(f *ssa.Function, closures bool, pred func(ssa.CallInstruction) bool) []ssa.CallInstruction {
	var out []ssa.CallInstruction
	fs := []*ssa.Function{f}
	if closures {
		fs = withClosures(f)
	}
	for _, g := range fs {
		for _, c := range core.CallSites(g) {
			if pred(c) {
				out = append(out, c)
			}
		}
	}
	return out
}

func callsStatic(f *ssa.Function, callee *ssa.Function, closures bool) []ssa.CallInstruction {
	return callsWhere(f, closures, func(c ssa.CallInstruction) bool { return core.IsCallTo(c, callee) })
}

// invokesOf lists interface calls of method name on an interface declared as pkg.iface.
func invokesOf(f *ssa.Function, closures bool, iface *types.Named, method string) []ssa.CallInstruction {
	return callsWhere(f, closures, func(c ssa.CallInstruction) bool {
		m := core.IfaceMethod(c)
		if m == nil || m.Name() != method {
			return false
		}
		recv := c.Common().Value.Type()
		return iface == nil || types.Identical(recv, iface) || core.NamedOf(recv) == iface
	})
}

// errResult returns the SSA value holding the error result of a call (the
// call itself for single-result calls, the Extract otherwise), or nil.
func errResult(c ssa.CallInstruction) ssa.Value {
	v := c.Value()
	if v == nil {
		return nil
	}
	res := c.Common().Signature().Results()
	if res.Len() == 0 || !core.IsErrorType(res.At(res.Len()-1).Type()) {
		return nil
	}
	if res.Len() == 1 {
		return v
	}
	for _, ref := range *v.Referrers() {
		if ex, ok := ref.(*ssa.Extract); ok && ex.Index == res.Len()-1 {
			return ex
		}
	}
	return nil
}

// flowsToReturn: does value v reach a Return operand of its function, either
// directly, through phis / interface conversions, through a store to a local
// that is later returned, or as an argument of fmt.Errorf whose result does?
func flowsToReturn(v ssa.Value, depth int, seen map[ssa.Value]bool) bool {
	if v == nil || depth > 6 || seen[v] {
		return false
	}
	seen[v] = true
	refs := v.Referrers()
	if refs == nil {
		return false
	}
	for _, ref := range *refs {
		switch x := ref.(type) {
		case *ssa.Return:
			return true
		case *ssa.Phi:
			if flowsToReturn(x, depth+1, seen) {
				return true
			}
		case *ssa.MakeInterface:
			if flowsToReturn(x, depth+1, seen) {
				return true
			}
		case *ssa.ChangeInterface:
			if flowsToReturn(x, depth+1, seen) {
				return true
			}
		case *ssa.Store:
			if x.Val != v {
				continue
			}
			// stored to a local/result slot or captured variable that is loaded and returned
			if al, ok := x.Addr.(*ssa.Alloc); ok {
				for _, r2 := range *al.Referrers() {
					if u, ok := r2.(*ssa.UnOp); ok && u.Op == token.MUL && flowsToReturn(u, depth+1, seen) {
						return true
					}
				}
				// a named result captured by a deferred closure is returned implicitly
				if al.Comment == "err" || strings.HasPrefix(al.Comment, "err") {
					return true
				}
			}
			if fv, ok := x.Addr.(*ssa.FreeVar); ok {
				// assignment to a variable of the enclosing function from a closure: it surfaces only
				// if that variable is one the enclosing function returns (a named result reloaded
				// after the deferred calls, or a local that is returned)
				if capturedIsReturned(fv) {
					return true
				}
			}
			// varargs slice element: []interface{}{…, err} passed to fmt.Errorf
			if ia, ok := x.Addr.(*ssa.IndexAddr); ok {
				if flowsThroughVarargs(ia, depth, seen) {
					return true
				}
			}
		case ssa.CallInstruction:
			if cal := core.StaticCallee(x); cal != nil && core.FnName(cal) == "fmt.Errorf" {
				if cv := x.Value(); cv != nil && flowsToReturn(cv, depth+1, seen) {
					return true
				}
			}
		}
	}
	return false
}

func flowsThroughVarargs(ia *ssa.IndexAddr, depth int, seen map[ssa.Value]bool) bool {
	// ia.X is the backing array alloc; find Slice of it used as Errorf arg
	base := ia.X
	refs := base.Referrers()
	if refs == nil {
		return false
	}
	for _, r := range *refs {
		if sl, ok := r.(*ssa.Slice); ok {
			for _, r2 := range *sl.Referrers() {
				if c, ok := r2.(ssa.CallInstruction); ok {
					if cal := core.StaticCallee(c); cal != nil && core.FnName(cal) == "fmt.Errorf" {
						if cv := c.Value(); cv != nil && flowsToReturn(cv, depth+1, seen) {
							return true
						}
					}
				}
			}
		}
	}
	return false
}

// errorfCalls lists fmt.Errorf calls in f with their format string and the
// arguments packed into the variadic slice (nil entries when not resolvable).
type errorfCall struct {
	Call   *ssa.Call
	Format string
	Args   []ssa.Value
}

func errorfCalls(f *ssa.Function) []errorfCall {
	var out []errorfCall
	for _, c := range core.CallSites(f) {
		call, ok := c.(*ssa.Call)
		if !ok {
			continue
		}
		cal := core.StaticCallee(c)
		if cal == nil || core.FnName(cal) != "fmt.Errorf" || len(call.Call.Args) < 1 {
			continue
		}
		ef := errorfCall{Call: call}
		ef.Format, _ = core.ConstString(call.Call.Args[0])
		if len(call.Call.Args) == 2 {
			if sl, ok := call.Call.Args[1].(*ssa.Slice); ok {
				if al, ok := sl.X.(*ssa.Alloc); ok {
					m := map[int64]ssa.Value{}
					max := int64(-1)
					for _, r := range *al.Referrers() {
						if ia, ok := r.(*ssa.IndexAddr); ok {
							idx, _ := core.ConstInt(ia.Index)
							for _, r2 := range *ia.Referrers() {
								if st, ok := r2.(*ssa.Store); ok {
									m[idx] = st.Val
									if idx > max {
										max = idx
									}
								}
							}
						}
					}
					for i := int64(0); i <= max; i++ {
						ef.Args = append(ef.Args, m[i])
					}
				}
			}
		}
		out = append(out, ef)
	}
	return out
}

var verbRe = regexp.MustCompile(`%[-+# 0]*[0-9]*(\.[0-9]+)?[a-zA-Z%]`)

// verbs returns the verbs of a format string in order (without %%).
func verbs(format string) []string {
	var out []string
	for _, m := range verbRe.FindAllString(format, -1) {
		if m == "%%" {
			continue
		}
		out = append(out, m[len(m)-1:])
	}
	return out
}

// wrapsGlobal: does the Errorf call wrap (with %w) the package-level error
// variable pkg.name?
func (ef errorfCall) wraps(g *ssa.Global) bool {
	vs := verbs(ef.Format)
	for i, a := range ef.Args {
		if i >= len(vs) || vs[i] != "w" || a == nil {
			continue
		}
		v := core.Strip(a)
		if u, ok := v.(*ssa.UnOp); ok && u.Op == token.MUL && u.X == ssa.Value(g) {
			return true
		}
	}
	return false
}

func globalVar(ctx *core.Ctx, pkg, name string) *ssa.Global {
	sp := ctx.SPkg(pkg)
	if sp == nil {
		return nil
	}
	g, _ := sp.Members[name].(*ssa.Global)
	return g
}

// constIntOf returns the integer value of a named constant object.
func constIntOf(ctx *core.Ctx, pkg, name string) (int64, bool) {
	o := ctx.Obj(pkg, name)
	c, ok := o.(*types.Const)
	if !ok {
		return 0, false
	}
	return constant.Int64Val(c.Val())
}

// sccOf returns the blocks that lie on a cycle with b (b's loop), or nil.
func loopBlocks(b *ssa.BasicBlock) map[*ssa.BasicBlock]bool {
	// blocks reachable from b that can reach b
	fwd := map[*ssa.BasicBlock]bool{}
	var walk func(x *ssa.BasicBlock)
	walk = func(x *ssa.BasicBlock) {
		for _, s := range x.Succs {
			if !fwd[s] {
				fwd[s] = true
				walk(s)
			}
		}
	}
	walk(b)
	if !fwd[b] {
		return nil
	}
	back := map[*ssa.BasicBlock]bool{}
	var rwalk func(x *ssa.BasicBlock)
	rwalk = func(x *ssa.BasicBlock) {
		for _, p := range x.Preds {
			if !back[p] {
				back[p] = true
				rwalk(p)
			}
		}
	}
	rwalk(b)
	out := map[*ssa.BasicBlock]bool{}
	for x := range fwd {
		if back[x] {
			out[x] = true
		}
	}
	return out
}

// dependsOn: does value v (a branch condition) depend on target through
// BinOp/UnOp/Phi/Extract chains?
func dependsOn(v, target ssa.Value, depth int) bool {
	if v == target {
		return true
	}
	if depth > 5 {
		return false
	}
	switch x := v.(type) {
	case *ssa.BinOp:
		return dependsOn(x.X, target, depth+1) || dependsOn(x.Y, target, depth+1)
	case *ssa.UnOp:
		if al, ok := x.X.(*ssa.Alloc); ok && x.Op == token.MUL {
			// a local (e.g. a named result captured by a deferred closure): any store of the target
			for _, r := range *al.Referrers() {
				if st, ok := r.(*ssa.Store); ok && st.Addr == ssa.Value(al) && dependsOn(st.Val, target, depth+1) {
					return true
				}
			}
			return false
		}
		return dependsOn(x.X, target, depth+1)
	case *ssa.Phi:
		for _, e := range x.Edges {
			if dependsOn(e, target, depth+1) {
				return true
			}
		}
	case *ssa.Extract:
		return dependsOn(x.Tuple, target, depth+1)
	case *ssa.MakeInterface:
		return dependsOn(x.X, target, depth+1)
	case *ssa.TypeAssert:
		return dependsOn(x.X, target, depth+1)
	case *ssa.ChangeInterface:
		return dependsOn(x.X, target, depth+1)
	case *ssa.ChangeType:
		return dependsOn(x.X, target, depth+1)
	}
	return false
}

// storesToField lists, for a struct alloc built in f (composite literal), the
// value stored into the named field.
func fieldStores(al ssa.Value, st *types.Struct) map[string]ssa.Value {
	out := map[string]ssa.Value{}
	refs := al.Referrers()
	if refs == nil {
		return out
	}
	for _, r := range *refs {
		fa, ok := r.(*ssa.FieldAddr)
		if !ok {
			continue
		}
		for _, r2 := range *fa.Referrers() {
			if s, ok := r2.(*ssa.Store); ok && s.Addr == ssa.Value(fa) {
				out[st.Field(fa.Field).Name()] = s.Val
			}
			// nested struct literal: Request{...} inside ChildRequest
			if fa2, ok := r2.(*ssa.FieldAddr); ok {
				if inner, ok := core.Deref(fa.Type()).Underlying().(*types.Struct); ok {
					for _, r3 := range *fa2.Referrers() {
						if s, ok := r3.(*ssa.Store); ok {
							out[st.Field(fa.Field).Name()+"."+inner.Field(fa2.Field).Name()] = s.Val
						}
					}
				}
			}
		}
	}
	return out
}

// structLiteralOf: if v is a load of a composite-literal alloc (or the alloc
// itself), return the alloc and its struct type.
func structLiteralOf(v ssa.Value) (ssa.Value, *types.Struct) {
	if u, ok := v.(*ssa.UnOp); ok && u.Op == token.MUL {
		v = u.X
	}
	al, ok := v.(*ssa.Alloc)
	if !ok {
		return nil, nil
	}
	st, ok := core.Deref(al.Type()).Underlying().(*types.Struct)
	if !ok {
		return nil, nil
	}
	return al, st
}

// sameCaptured: do a (in the outer function) and b (in a closure made in the
// outer function) denote the same variable / constant?
func sameCaptured(a, b ssa.Value, mc *ssa.MakeClosure) bool {
	if ca, ok := a.(*ssa.Const); ok {
		if cb, ok := b.(*ssa.Const); ok {
			return ca.Value == cb.Value || (ca.Value != nil && cb.Value != nil && constant.Compare(ca.Value, token.EQL, cb.Value))
		}
		return false
	}
	la, ok1 := a.(*ssa.UnOp)
	lb, ok2 := b.(*ssa.UnOp)
	if ok1 && ok2 && la.Op == token.MUL && lb.Op == token.MUL {
		if fv, ok := lb.X.(*ssa.FreeVar); ok && mc != nil {
			clo := mc.Fn.(*ssa.Function)
			for i, f := range clo.FreeVars {
				if f == fv && i < len(mc.Bindings) {
					return mc.Bindings[i] == la.X
				}
			}
		}
		return la.X == lb.X
	}
	return a == b
}

func sortedKeys(m map[string]ssa.Value) []string {
	var ks []string
	for k := range m {
		ks = append(ks, k)
	}
	sort.Strings(ks)
	return ks
}

var _ = fmt.Sprintf

func constantInt(i int64) constant.Value { return constant.MakeInt64(i) }

// capturedIsReturned: the free variable of a closure is bound (in every
// MakeClosure of the parent) to a local slot whose loads reach a Return of the parent.
func capturedIsReturned(fv *ssa.FreeVar) bool {
	clo := fv.Parent()
	parent := clo.Parent()
	if parent == nil {
		return false
	}
	idx := -1
	for i, f := range clo.FreeVars {
		if f == fv {
			idx = i
		}
	}
	if idx < 0 {
		return false
	}
	found := false
	core.Instrs(parent, func(_ *ssa.BasicBlock, in ssa.Instruction) {
		mc, ok := in.(*ssa.MakeClosure)
		if !ok || mc.Fn != ssa.Value(clo) || idx >= len(mc.Bindings) {
			return
		}
		al, ok := mc.Bindings[idx].(*ssa.Alloc)
		if !ok {
			return
		}
		for _, r := range *al.Referrers() {
			u, ok := r.(*ssa.UnOp)
			if !ok || u.Op != token.MUL {
				continue
			}
			for _, r2 := range *u.Referrers() {
				ret, isRet := r2.(*ssa.Return)
				if !isRet {
					continue
				}
				// a deferred closure's assignment is only seen by a load that happens after
				// the deferred calls ran, i.e. after `rundefers` in the return block
				if _, isDefer := closureIsDeferred(parent, clo); isDefer {
					afterDefers := false
					for _, bi := range ret.Block().Instrs {
						if _, isRun := bi.(*ssa.RunDefers); isRun {
							afterDefers = true
						}
						if bi == ssa.Instruction(u) && afterDefers {
							found = true
						}
					}
				} else {
					found = true
				}
			}
		}
	})
	return found
}

func closureIsDeferred(parent, clo *ssa.Function) (*ssa.Defer, bool) {
	var d *ssa.Defer
	core.Instrs(parent, func(_ *ssa.BasicBlock, in ssa.Instruction) {
		if df, ok := in.(*ssa.Defer); ok {
			if mc, ok := df.Call.Value.(*ssa.MakeClosure); ok && mc.Fn == ssa.Value(clo) {
				d = df
			}
		}
	})
	return d, d != nil
}

// freshResult: every value function f can return as result idx is an object
// allocated during that call (an Alloc in f, or the result of a callee for
// which the same holds, ≤ 3 levels), or nil. Returns a description of the
// first offending source otherwise.
func freshResult(f *ssa.Function, idx int, depth int) (bool, string) {
	if f == nil || len(f.Blocks) == 0 {
		return false, "no body"
	}
	if depth > 3 {
		return false, "call depth"
	}
	for _, ret := range core.Returns(f) {
		ops := core.RetOperands(ret)
		if idx >= len(ops) {
			return false, "arity"
		}
		for _, leaf := range core.PhiLeaves(ops[idx], ret.Block()) {
			v := core.Strip(leaf.V)
			switch x := v.(type) {
			case *ssa.Alloc:
				if !x.Heap {
					return false, "stack slot"
				}
			case *ssa.Const:
				if x.Value != nil {
					return false, "constant"
				}
			case *ssa.Call:
				cal := core.StaticCallee(x)
				if cal == nil {
					return false, "dynamic call " + core.CalleeName(x)
				}
				if ok, why := freshResult(cal, 0, depth+1); !ok {
					return false, core.FnName(cal) + ": " + why
				}
			case *ssa.Extract:
				if c, ok := x.Tuple.(*ssa.Call); ok {
					cal := core.StaticCallee(c)
					if cal == nil {
						return false, "dynamic call"
					}
					if ok, why := freshResult(cal, x.Index, depth+1); !ok {
						return false, core.FnName(cal) + ": " + why
					}
				} else {
					return false, "value taken from " + fmt.Sprintf("%T", x.Tuple)
				}
			case *ssa.UnOp:
				// a load: from a package-level variable, a map, a field …
				if g, ok := x.X.(*ssa.Global); ok {
					return false, "package-level variable " + g.Name()
				}
				if _, ok := x.X.(*ssa.Alloc); ok {
					continue // a struct value built in a local and returned by value: a copy per call
				}
				return false, "loaded from existing storage"
			default:
				return false, fmt.Sprintf("taken from %T", v)
			}
		}
	}
	return true, ""
}
