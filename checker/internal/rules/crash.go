package rules

import (
	"fmt"
	"go/ast"
	"go/token"
	"go/types"
	"os"
	"sort"
	"strings"

	"golang.org/x/tools/go/callgraph"
	"golang.org/x/tools/go/ssa"

	"verif/checker/internal/core"
)

// ---------------------------------------------------------------------------
// Engine A — crash classes reachable from an entry set (C13, C14, C05.4).
//
//  K1 explicit panic not converted to an error by a recovering defer
//  K2 unchecked type assertion x.(T) (or comma-ok with ok discarded)
//  K4 constant / len-relative index into a possibly empty string or slice
//
// A site is an obligation only when its function is reachable in the VTA call
// graph from the entry set without passing through a function that recovers.
// ---------------------------------------------------------------------------

type crashSite struct {
	Class     string // K1 K2 K4
	Fn        *ssa.Function
	Pos       token.Pos
	Construct string // stable key part: <fn>/<expr text>
	Detail    string
	OK        bool   // discharged by the analysis
	Why       string // how it was discharged
}

type astIndex struct {
	asserts map[token.Pos]*ast.TypeAssertExpr // by Lparen
	calls   map[token.Pos]*ast.CallExpr       // by Lparen
	indexes map[token.Pos]ast.Expr            // by Lbrack: IndexExpr / SliceExpr
}

func buildASTIndex(ctx *core.Ctx) *astIndex {
	ix := &astIndex{asserts: map[token.Pos]*ast.TypeAssertExpr{}, calls: map[token.Pos]*ast.CallExpr{}, indexes: map[token.Pos]ast.Expr{}}
	for _, p := range ctx.Pkgs {
		for _, f := range p.Syntax {
			ast.Inspect(f, func(n ast.Node) bool {
				switch x := n.(type) {
				case *ast.TypeAssertExpr:
					ix.asserts[x.Lparen] = x
				case *ast.CallExpr:
					ix.calls[x.Lparen] = x
				case *ast.IndexExpr:
					ix.indexes[x.Lbrack] = x
				case *ast.SliceExpr:
					ix.indexes[x.Lbrack] = x
				}
				return true
			})
		}
	}
	return ix
}

// exprText renders an expression compactly and stably.
func exprText(e ast.Expr) string {
	s := types.ExprString(e)
	if len(s) > 70 {
		s = s[:70] + "…"
	}
	return s
}

// recovers reports whether f defers a closure that calls recover() and does
// not panic again (so a panic below f becomes a normal return).
func recovers(f *ssa.Function) bool {
	for _, b := range f.Blocks {
		for _, in := range b.Instrs {
			d, ok := in.(*ssa.Defer)
			if !ok {
				continue
			}
			var clo *ssa.Function
			switch v := d.Call.Value.(type) {
			case *ssa.MakeClosure:
				clo, _ = v.Fn.(*ssa.Function)
			case *ssa.Function:
				clo = v
			}
			if clo == nil {
				continue
			}
			hasRecover, hasPanic := false, false
			core.Instrs(clo, func(_ *ssa.BasicBlock, i ssa.Instruction) {
				if c, ok := i.(ssa.CallInstruction); ok {
					if bi, ok := c.Common().Value.(*ssa.Builtin); ok && bi.Name() == "recover" {
						hasRecover = true
					}
				}
				if _, ok := i.(*ssa.Panic); ok {
					hasPanic = true
				}
			})
			if hasRecover && !hasPanic {
				return true
			}
		}
	}
	return false
}

// crashEngine holds shared state for one run.
type crashEngine struct {
	ctx      *core.Ctx
	r        *core.Report
	ix       *astIndex
	reach    *core.Reach
	roots    map[*ssa.Function]bool
	guards   map[*ssa.Function][]types.Type // guard summaries: true ⇒ arg ∈ set
	getters  map[*ssa.Function]bool
	dynMemo  map[ssa.Value]*typeSet
	exclude  func(f *ssa.Function) bool
	fmtTable map[int64]*valFmtInfo
	// subset: this engine looks at part of the reachable set only, so unused
	// triage entries are expected and not worth an info line
	subset bool
}

func newCrashEngine(ctx *core.Ctx, r *core.Report, roots []*ssa.Function, exclude func(*ssa.Function) bool) *crashEngine {
	e := &crashEngine{ctx: ctx, r: r, ix: buildASTIndex(ctx), roots: map[*ssa.Function]bool{},
		guards: map[*ssa.Function][]types.Type{}, getters: map[*ssa.Function]bool{}, dynMemo: map[ssa.Value]*typeSet{}, exclude: exclude}
	for _, f := range roots {
		e.roots[f] = true
	}
	nrec := 0
	e.reach = ctx.Reachable(ctx.CG(), roots, func(f *ssa.Function) bool {
		if recovers(f) && !e.roots[f] {
			nrec++
			return true
		}
		if recovers(f) {
			return true
		}
		return false
	})
	for _, f := range ctx.RepoFuncs() {
		if s := guardSummary(f); s != nil {
			e.guards[f] = s
		}
		if pureGetter(f) {
			e.getters[f] = true
		}
	}
	r.Count("entry_functions", len(roots))
	r.Count("reachable_functions", len(e.reach.Set))
	r.Count("guard_summaries", len(e.guards))
	r.Count("pure_getters", len(e.getters))
	return e
}

// reachableRepoFuncs lists analysed functions, sorted.
func (e *crashEngine) reachableRepoFuncs() []*ssa.Function {
	var out []*ssa.Function
	for _, f := range e.ctx.RepoFuncs() {
		if !e.reach.Set[f] {
			continue
		}
		if recovers(f) {
			// the body of a recovering function is itself protected
			continue
		}
		if e.exclude != nil && e.exclude(f) {
			continue
		}
		out = append(out, f)
	}
	return out
}

// guardSummary recognises `func(m I) bool` whose true result implies that the
// argument's dynamic type is one of the comma-ok asserted types.
func guardSummary(f *ssa.Function) []types.Type {
	if len(f.Params) != 1 || f.Signature.Results().Len() != 1 || f.Signature.Recv() != nil {
		return nil
	}
	if !isBoolType(f.Signature.Results().At(0).Type()) || !types.IsInterface(f.Params[0].Type()) {
		return nil
	}
	p := f.Params[0]
	var set []types.Type
	oks := map[ssa.Value]bool{}
	bad := false
	core.Instrs(f, func(_ *ssa.BasicBlock, in ssa.Instruction) {
		switch x := in.(type) {
		case *ssa.TypeAssert:
			if x.X != p || !x.CommaOk {
				bad = true
				return
			}
			set = append(set, x.AssertedType)
			for _, ref := range *x.Referrers() {
				if ex, ok := ref.(*ssa.Extract); ok && ex.Index == 1 {
					oks[ex] = true
				}
			}
		case *ssa.If:
			if !oks[x.Cond] {
				bad = true
			}
		case *ssa.Call, *ssa.Store, *ssa.Panic, *ssa.Go, *ssa.Defer:
			bad = true
		}
	})
	if bad || len(set) == 0 {
		return nil
	}
	// follow the all-false path: it must return false (or an ok value)
	b := f.Blocks[0]
	for steps := 0; steps < 64; steps++ {
		last := b.Instrs[len(b.Instrs)-1]
		switch x := last.(type) {
		case *ssa.If:
			b = b.Succs[1]
			continue
		case *ssa.Jump:
			b = b.Succs[0]
			continue
		case *ssa.Return:
			v := x.Results[0]
			for _, leaf := range core.PhiLeaves(v, b) {
				if c, ok := leaf.V.(*ssa.Const); ok {
					if c.Value != nil && c.Value.String() == "true" {
						// a true constant may be selected on a path where some ok held; accept
						// only if this leaf's block is not on the all-false path — approximated
						// by requiring a false constant among the leaves too.
						continue
					}
					continue
				}
				if !oks[leaf.V] {
					return nil
				}
			}
			return set
		default:
			return nil
		}
	}
	return nil
}

// pureGetter: single block, no calls/stores, returns loads of receiver fields.
func pureGetter(f *ssa.Function) bool {
	if len(f.Blocks) != 1 || f.Signature.Recv() == nil || len(f.Params) != 1 {
		return false
	}
	for _, in := range f.Blocks[0].Instrs {
		switch x := in.(type) {
		case *ssa.FieldAddr, *ssa.Field, *ssa.Return, *ssa.ChangeInterface, *ssa.ChangeType, *ssa.MakeInterface, *ssa.DebugRef:
		case *ssa.UnOp:
			if x.Op != token.MUL {
				return false
			}
		case *ssa.Alloc:
			// spilled value receiver
		case *ssa.Store:
			if _, ok := x.Addr.(*ssa.Alloc); !ok {
				return false
			}
		default:
			return false
		}
	}
	return true
}

// sameLoc: do a and b denote the same location (no CSE in go/ssa)?
func (e *crashEngine) sameLoc(a, b ssa.Value, depth int) bool {
	a, b = core.Strip(a), core.Strip(b)
	if a == b {
		return true
	}
	if depth > 4 {
		return false
	}
	switch x := a.(type) {
	case *ssa.Call:
		y, ok := b.(*ssa.Call)
		if !ok {
			return false
		}
		cx, cy := x.Common(), y.Common()
		if cx.IsInvoke() != cy.IsInvoke() || len(cx.Args) != len(cy.Args) {
			return false
		}
		if cx.IsInvoke() {
			if cx.Method != cy.Method || len(cx.Args) != 0 {
				return false
			}
			if !e.invokePure(x) {
				return false
			}
			return e.sameLoc(cx.Value, cy.Value, depth+1)
		}
		fx, fy := cx.StaticCallee(), cy.StaticCallee()
		if fx == nil || fx != fy || !e.getters[fx] {
			return false
		}
		for i := range cx.Args {
			if !e.sameLoc(cx.Args[i], cy.Args[i], depth+1) {
				return false
			}
		}
		return true
	case *ssa.UnOp:
		y, ok := b.(*ssa.UnOp)
		if !ok || x.Op != token.MUL || y.Op != token.MUL {
			return false
		}
		return e.sameLoc(x.X, y.X, depth+1)
	case *ssa.FieldAddr:
		y, ok := b.(*ssa.FieldAddr)
		return ok && x.Field == y.Field && e.sameLoc(x.X, y.X, depth+1)
	case *ssa.Field:
		y, ok := b.(*ssa.Field)
		return ok && x.Field == y.Field && e.sameLoc(x.X, y.X, depth+1)
	case *ssa.Extract:
		y, ok := b.(*ssa.Extract)
		return ok && x.Index == y.Index && x.Tuple == y.Tuple
	case *ssa.IndexAddr:
		y, ok := b.(*ssa.IndexAddr)
		return ok && e.sameLoc(x.X, y.X, depth+1) && (x.Index == y.Index || sameConst(x.Index, y.Index))
	case *ssa.Index:
		y, ok := b.(*ssa.Index)
		return ok && e.sameLoc(x.X, y.X, depth+1) && (x.Index == y.Index || sameConst(x.Index, y.Index))
	}
	return false
}

func sameConst(a, b ssa.Value) bool {
	x, ok1 := core.ConstInt(a)
	y, ok2 := core.ConstInt(b)
	return ok1 && ok2 && x == y
}

// invokePure: every callee of a zero-arg interface call is a pure getter.
func (e *crashEngine) invokePure(c *ssa.Call) bool {
	n := e.ctx.CG().Nodes[c.Parent()]
	if n == nil {
		return false
	}
	any := false
	for _, ed := range n.Out {
		if ed.Site == c {
			any = true
			if !e.getters[ed.Callee.Func] {
				return false
			}
		}
	}
	return any
}

// typeSet is the set of dynamic types a value may hold.
type typeSet struct {
	types    []types.Type
	complete bool
	why      string // reason when incomplete
}

func (t *typeSet) add(o *typeSet) {
	if !o.complete {
		t.complete = false
		if t.why == "" {
			t.why = o.why
		}
	}
	for _, x := range o.types {
		dup := false
		for _, y := range t.types {
			if types.Identical(x, y) {
				dup = true
			}
		}
		if !dup {
			t.types = append(t.types, x)
		}
	}
}

func incomplete(why string) *typeSet { return &typeSet{why: why} }

// dynTypes computes the dynamic type set of an interface value by following
// its construction backwards through calls (≤ depth call/return edges).
func (e *crashEngine) dynTypes(v ssa.Value, depth int, seen map[ssa.Value]bool) *typeSet {
	if seen[v] {
		return &typeSet{complete: true}
	}
	seen[v] = true
	if depth > 8 {
		return incomplete("depth bound")
	}
	switch x := v.(type) {
	case *ssa.MakeInterface:
		return &typeSet{types: []types.Type{x.X.Type()}, complete: true}
	case *ssa.ChangeInterface:
		return e.dynTypes(x.X, depth, seen)
	case *ssa.ChangeType:
		return e.dynTypes(x.X, depth, seen)
	case *ssa.Const:
		if x.Value == nil {
			return incomplete("may be nil")
		}
	case *ssa.Phi:
		res := &typeSet{complete: true}
		for _, ed := range x.Edges {
			res.add(e.dynTypes(ed, depth, seen))
		}
		return res
	case *ssa.TypeAssert:
		if !types.IsInterface(x.AssertedType) {
			return &typeSet{types: []types.Type{x.AssertedType}, complete: true}
		}
		return e.dynTypes(x.X, depth, seen)
	case *ssa.Extract:
		if ta, ok := x.Tuple.(*ssa.TypeAssert); ok && x.Index == 0 {
			return e.dynTypes(ta, depth, seen)
		}
		if c, ok := x.Tuple.(*ssa.Call); ok {
			return e.callResultTypes(c, x.Index, depth, seen)
		}
	case *ssa.Call:
		return e.callResultTypes(x, 0, depth, seen)
	case *ssa.Parameter:
		f := x.Parent()
		if e.roots[f] {
			return incomplete("parameter of an entry point")
		}
		idx := -1
		for i, p := range f.Params {
			if p == x {
				idx = i
			}
		}
		n := e.ctx.CG().Nodes[f]
		if idx < 0 || n == nil || len(n.In) == 0 {
			return incomplete("no known callers")
		}
		if f.Object() != nil && f.Object().Exported() && f.Signature.Recv() == nil && false {
			return incomplete("exported")
		}
		res := &typeSet{complete: true}
		for _, in := range n.In {
			if in.Site == nil {
				return incomplete("synthetic caller")
			}
			args := in.Site.Common().Args
			ai := idx
			if in.Site.Common().IsInvoke() {
				ai = idx - 1 // receiver is not in Args for invoke
			}
			if _, isGo := in.Site.(*ssa.Go); isGo {
				_ = isGo
			}
			if ai < 0 || ai >= len(args) {
				// bound-method closure or receiver position
				return incomplete("caller passes receiver/bound value")
			}
			res.add(e.dynTypes(args[ai], depth+1, seen))
		}
		return res
	}
	return incomplete(fmt.Sprintf("%T source", v))
}

func (e *crashEngine) callResultTypes(c *ssa.Call, idx int, depth int, seen map[ssa.Value]bool) *typeSet {
	n := e.ctx.CG().Nodes[c.Parent()]
	if n == nil {
		return incomplete("no cg node")
	}
	res := &typeSet{complete: true}
	any := false
	// interfaces the receiver is known to implement (it was asserted to them)
	var recvIfaces []*types.Interface
	if c.Common().IsInvoke() {
		for v := c.Common().Value; v != nil; {
			if it, ok := v.Type().Underlying().(*types.Interface); ok {
				recvIfaces = append(recvIfaces, it)
			}
			switch x := v.(type) {
			case *ssa.TypeAssert:
				v = x.X
			case *ssa.ChangeInterface:
				v = x.X
			case *ssa.Extract:
				if ta, ok := x.Tuple.(*ssa.TypeAssert); ok && x.Index == 0 {
					v = ta
				} else {
					v = nil
				}
			default:
				v = nil
			}
		}
	}
	for _, ed := range n.Out {
		if ed.Site != c {
			continue
		}
		cal := ed.Callee.Func
		if len(recvIfaces) > 0 && cal.Signature.Recv() != nil {
			rt := cal.Signature.Recv().Type()
			compatible := true
			for _, it := range recvIfaces {
				if !types.Implements(rt, it) {
					compatible = false
				}
			}
			if !compatible {
				continue // VTA imprecision: this callee's receiver cannot be the asserted value
			}
		}
		any = true
		if len(cal.Blocks) == 0 {
			return incomplete("external callee " + cal.Name())
		}
		for _, ret := range core.Returns(cal) {
			if idx >= len(ret.Results) {
				return incomplete("arity")
			}
			res.add(e.dynTypes(ret.Results[idx], depth+1, seen))
		}
	}
	if !any {
		return incomplete("unresolved call")
	}
	return res
}

// satisfies: does every type in the set satisfy assertion to T?
func satisfies(set []types.Type, T types.Type) bool {
	if len(set) == 0 {
		return false
	}
	for _, s := range set {
		if types.IsInterface(T) {
			if !types.Implements(s, T.Underlying().(*types.Interface)) {
				return false
			}
		} else if !types.Identical(s, T) {
			return false
		}
	}
	return true
}

// dischargeAssert tries to prove that ta cannot fail.
func (e *crashEngine) dischargeAssert(ta *ssa.TypeAssert) (bool, string) {
	T := ta.AssertedType
	// (1) static type already guarantees it (only a nil interface can fail;
	// nil dereferences are outside the crash classes decided here)
	if types.IsInterface(T) && types.IsInterface(ta.X.Type()) {
		if types.Implements(ta.X.Type(), T.Underlying().(*types.Interface)) {
			return true, "static type implements the asserted interface"
		}
	}
	// (2) dominating guard on the same value
	for _, pc := range core.PathConds(ta.Block()) {
		v := pc.V
		truth := pc.True
		if u, ok := v.(*ssa.UnOp); ok && u.Op == token.NOT {
			v, truth = u.X, !truth
		}
		if !truth {
			continue
		}
		switch g := v.(type) {
		case *ssa.Extract:
			if g.Index != 1 {
				continue
			}
			if gta, ok := g.Tuple.(*ssa.TypeAssert); ok && gta.CommaOk && e.sameLoc(gta.X, ta.X, 0) {
				if satisfies([]types.Type{gta.AssertedType}, T) {
					return true, "dominated by comma-ok assertion on the same value"
				}
			}
		case *ssa.Call:
			if cal := core.StaticCallee(g); cal != nil {
				if set, ok := e.guards[cal]; ok && len(g.Common().Args) == 1 && e.sameLoc(g.Common().Args[0], ta.X, 0) {
					if satisfies(set, T) {
						return true, "dominated by guard " + core.FnName(cal)
					}
				}
			}
		}
	}
	// (2b) disjunction of guards: a block all of whose predecessors enter it on
	// the true edge of a guard of the same value (`IsList(m) || IsContainer(m)`)
	for d := ta.Block(); d != nil; d = d.Idom() {
		if len(d.Preds) < 2 {
			continue
		}
		var union []types.Type
		all := true
		for _, p := range d.Preds {
			ifi, ok := p.Instrs[len(p.Instrs)-1].(*ssa.If)
			if !ok || p.Succs[0] != d {
				all = false
				break
			}
			g, ok := ifi.Cond.(*ssa.Call)
			if !ok {
				all = false
				break
			}
			cal := core.StaticCallee(g)
			set, isGuard := e.guards[cal]
			if cal == nil || !isGuard || len(g.Common().Args) != 1 || !e.sameLoc(g.Common().Args[0], ta.X, 0) {
				all = false
				break
			}
			union = append(union, set...)
		}
		if all && satisfies(union, T) {
			return true, "dominated by a disjunction of guards on the same value"
		}
	}
	// (2c) closed world: every implementer of the operand's (sealed) interface
	// type satisfies the assertion
	if ok, why := e.closedWorld(ta); ok {
		return true, why
	}
	// (2d) dominated by a test of the value's Format that fixes its Go type
	if ok, why := e.formatGuard(ta); ok {
		return true, why
	}
	// (3) dynamic type set of the operand
	ts := e.dynTypes(ta.X, 0, map[ssa.Value]bool{})
	if ts.complete && satisfies(ts.types, T) {
		return true, fmt.Sprintf("operand can only hold %d type(s) that satisfy the assertion", len(ts.types))
	}
	why := ts.why
	if ts.complete {
		var bad []string
		for _, s := range ts.types {
			if !satisfies([]types.Type{s}, T) {
				bad = append(bad, core.TypeName(s))
			}
		}
		sort.Strings(bad)
		if len(bad) > 4 {
			bad = append(bad[:4], "…")
		}
		why = "operand may hold " + strings.Join(bad, ", ")
		if len(ts.types) == 0 {
			why = "operand type set empty"
		}
	}
	return false, why
}

// sites enumerates K1/K2/K4 sites in the reachable, unprotected functions.
func (e *crashEngine) sites(classes string) []crashSite {
	var out []crashSite
	for _, f := range e.reachableRepoFuncs() {
		fname := core.FnName(f)
		core.Instrs(f, func(b *ssa.BasicBlock, in ssa.Instruction) {
			switch x := in.(type) {
			case *ssa.Panic:
				if !strings.Contains(classes, "K1") || !x.Pos().IsValid() {
					return
				}
				txt := "panic"
				if ce := e.ix.calls[x.Pos()]; ce != nil && len(ce.Args) == 1 {
					txt = "panic(" + exprText(ce.Args[0]) + ")"
				}
				out = append(out, crashSite{Class: "K1", Fn: f, Pos: x.Pos(), Construct: fname + "/" + txt, Detail: "explicit panic reachable from the entry set"})
			case *ssa.TypeAssert:
				if !strings.Contains(classes, "K2") {
					return
				}
				if x.CommaOk {
					// ok discarded and value used?
					var okUsed, valUsed bool
					for _, ref := range *x.Referrers() {
						if ex, isEx := ref.(*ssa.Extract); isEx {
							if ex.Index == 1 && len(*ex.Referrers()) > 0 {
								okUsed = true
							}
							if ex.Index == 0 && len(*ex.Referrers()) > 0 {
								valUsed = true
							}
						}
					}
					ae := e.ix.asserts[x.Pos()]
					if !okUsed && valUsed && ae != nil {
						// only interface-typed results crash when used (method call on nil interface);
						// pointer results crash on field access — both are crash sites
						out = append(out, crashSite{Class: "K2", Fn: f, Pos: x.Pos(),
							Construct: fname + "/" + exprText(ae) + "[ok discarded]",
							Detail:    "comma-ok assertion whose ok is discarded; the zero value is used when the assertion fails"})
					}
					return
				}
				ae := e.ix.asserts[x.Pos()]
				if ae == nil {
					return // compiler-generated (e.g. range over func), not source
				}
				ok, why := e.dischargeAssert(x)
				out = append(out, crashSite{Class: "K2", Fn: f, Pos: x.Pos(), Construct: fname + "/" + exprText(ae),
					Detail: "unchecked type assertion: " + why, OK: ok, Why: why})
			case *ssa.IndexAddr, *ssa.Index, *ssa.Lookup, *ssa.Slice:
				if !strings.Contains(classes, "K4") {
					return
				}
				if s, ok := e.k4(f, b, in); ok {
					out = append(out, s)
				}
			}
		})
	}
	sort.SliceStable(out, func(i, j int) bool {
		if out[i].Construct != out[j].Construct {
			return out[i].Construct < out[j].Construct
		}
		return out[i].Pos < out[j].Pos
	})
	return out
}

// k4: x[c] / x[len(x)-c] / x[c:] on string or slice with constant c, not
// dominated by a comparison involving len(x) (or ranging over x).
func (e *crashEngine) k4(f *ssa.Function, b *ssa.BasicBlock, in ssa.Instruction) (crashSite, bool) {
	var coll, idx ssa.Value
	var pos token.Pos
	switch x := in.(type) {
	case *ssa.IndexAddr:
		coll, idx, pos = x.X, x.Index, x.Pos()
	case *ssa.Index:
		coll, idx, pos = x.X, x.Index, x.Pos()
	case *ssa.Lookup:
		if _, isMap := x.X.Type().Underlying().(*types.Map); isMap {
			return crashSite{}, false
		}
		coll, idx, pos = x.X, x.Index, x.Pos()
	case *ssa.Slice:
		// s[c:] or s[:len(s)-c]
		coll, pos = x.X, x.Pos()
		if x.Low != nil {
			idx = x.Low
		}
		if x.High != nil {
			if _, isConst := x.High.(*ssa.Const); !isConst {
				idx = x.High
			} else if idx == nil {
				idx = x.High
			}
		}
		if idx == nil {
			return crashSite{}, false
		}
	}
	if coll == nil || idx == nil || !pos.IsValid() {
		return crashSite{}, false
	}
	// arrays (and pointers to arrays) have a static length: the compiler checks constants
	ct := coll.Type().Underlying()
	if p, ok := ct.(*types.Pointer); ok {
		ct = p.Elem().Underlying()
	}
	if _, isArr := ct.(*types.Array); isArr {
		return crashSite{}, false
	}
	kind := ""
	if _, ok := core.ConstInt(idx); ok {
		kind = "const"
		if sl, isSlice := in.(*ssa.Slice); isSlice {
			if c, _ := core.ConstInt(idx); c == 0 && sl.High == nil {
				return crashSite{}, false
			}
		}
	} else if bo, ok := idx.(*ssa.BinOp); ok && bo.Op == token.SUB {
		if isLenOfLoose(bo.X, coll, e) {
			if _, ok := core.ConstInt(bo.Y); ok {
				kind = "len-k"
			}
		}
	}
	if kind == "" {
		return crashSite{}, false
	}
	ie := e.ix.indexes[pos]
	if ie == nil {
		return crashSite{}, false
	}
	if strings.HasPrefix(exprText(ie), "yyDollar[") {
		// goyacc's $-stack: sliced to the production's length by the generated driver
		return crashSite{}, false
	}
	guarded := false
	why := ""
	// the guard may dominate this block or sit earlier in the same block's chain
	for _, pc := range core.PathConds(b) {
		if mentionsLen(pc.V, coll, e, 0) {
			guarded = true
			why = "dominated by a length test of the same collection"
		}
	}
	// composite literal / make with constant length / strings.Split result (len ≥ 1)
	if !guarded {
		if ok, w := knownNonEmpty(coll, idx); ok {
			guarded, why = true, w
		}
	}
	return crashSite{Class: "K4", Fn: f, Pos: pos, Construct: core.FnName(f) + "/" + exprText(ie),
		Detail: "constant or len-relative index without a dominating length test", OK: guarded, Why: why}, true
}

func isLenOfLoose(v ssa.Value, coll ssa.Value, e *crashEngine) bool {
	c, ok := v.(*ssa.Call)
	if !ok {
		return false
	}
	bi, ok := c.Common().Value.(*ssa.Builtin)
	if !ok || bi.Name() != "len" || len(c.Common().Args) != 1 {
		return false
	}
	return e.sameLoc(c.Common().Args[0], coll, 0) || sameUnderlying(c.Common().Args[0], coll)
}

// sameUnderlying: conversions between string/[]byte/named slices of the same value.
func sameUnderlying(a, b ssa.Value) bool {
	strip := func(v ssa.Value) ssa.Value {
		for {
			switch x := v.(type) {
			case *ssa.Convert:
				v = x.X
			case *ssa.ChangeType:
				v = x.X
			default:
				return v
			}
		}
	}
	return strip(a) == strip(b)
}

// mentionsLen: does the condition (possibly a conjunction computed through
// phis of short-circuit operators) involve len(coll) or a comparison of coll
// with ""?
func mentionsLen(v ssa.Value, coll ssa.Value, e *crashEngine, depth int) bool {
	if depth > 3 {
		return false
	}
	switch x := v.(type) {
	case *ssa.BinOp:
		if isLenOfLoose(x.X, coll, e) || isLenOfLoose(x.Y, coll, e) {
			return true
		}
		if (e.sameLoc(x.X, coll, 0) || sameUnderlying(x.X, coll)) && isEmptyStr(x.Y) {
			return true
		}
		if (e.sameLoc(x.Y, coll, 0) || sameUnderlying(x.Y, coll)) && isEmptyStr(x.X) {
			return true
		}
		// len(x)-1 > 0 etc.
		return mentionsLen(x.X, coll, e, depth+1) || mentionsLen(x.Y, coll, e, depth+1)
	case *ssa.UnOp:
		return mentionsLen(x.X, coll, e, depth+1)
	case *ssa.Phi:
		for _, ed := range x.Edges {
			if mentionsLen(ed, coll, e, depth+1) {
				return true
			}
		}
	case *ssa.Call:
		// strings.HasPrefix(coll, "x") etc. imply non-empty
		if cal := core.StaticCallee(x); cal != nil && core.FnPkgPath(cal) == "strings" {
			switch cal.Name() {
			case "HasPrefix", "HasSuffix", "Contains", "ContainsRune", "ContainsAny":
				if len(x.Common().Args) > 0 && (e.sameLoc(x.Common().Args[0], coll, 0) || sameUnderlying(x.Common().Args[0], coll)) {
					return true
				}
			}
		}
	}
	return false
}

func isEmptyStr(v ssa.Value) bool {
	s, ok := core.ConstString(v)
	return ok && s == ""
}

// knownNonEmpty: the collection's construction guarantees the index exists.
func knownNonEmpty(coll ssa.Value, idx ssa.Value) (bool, string) {
	c, isConst := core.ConstInt(idx)
	switch x := coll.(type) {
	case *ssa.Call:
		if cal := core.StaticCallee(x); cal != nil {
			n := core.FnName(cal)
			if isConst && c == 0 && (n == "strings.Split" || n == "strings.SplitN" || n == "strings.Fields" && false) {
				return true, n + " returns at least one element"
			}
		}
	case *ssa.Slice:
		// slicing an array allocated with constant size
		if al, ok := x.X.(*ssa.Alloc); ok {
			if arr, ok := core.Deref(al.Type()).Underlying().(*types.Array); ok && isConst && c < arr.Len() && x.High == nil && x.Low == nil {
				return true, "constant index into a fixed-size array literal"
			}
		}
	case *ssa.MakeSlice:
		if n, ok := core.ConstInt(x.Len); ok && isConst && c < n {
			return true, "make with constant length"
		}
	}
	return false, ""
}

// triage applies a frozen table (construct → reason) to the undischarged
// sites and records the obligations.
type triageEntry struct {
	Reason string
}

func (e *crashEngine) record(rule string, sites []crashSite, triaged map[string]string) {
	used := map[string]bool{}
	for _, s := range sites {
		key := s.Class + ":" + s.Construct
		ok, msg := s.OK, s.Why
		if !ok {
			if reason, t := triaged[key]; t {
				ok, msg = true, "triaged: "+reason
				used[key] = true
			} else {
				msg = s.Detail + " — reached via " + e.reach.PathTo(s.Fn)
			}
		}
		e.r.Ob(rule, key, e.ctx.Pos(s.Pos), ok, msg)
	}
	var stale []string
	for k := range triaged {
		if !used[k] {
			stale = append(stale, k)
		}
	}
	sort.Strings(stale)
	if e.subset {
		stale = nil
	}
	for _, k := range stale {
		e.r.Infof("triage entry no longer matches any undischarged site: %s", k)
	}
}

// resolveRoots resolves entry specs; missing ones are fatal.
func resolveRoots(ctx *core.Ctx, r *core.Report, specs []string) []*ssa.Function {
	var out []*ssa.Function
	for _, s := range specs {
		f := ctx.Lookup(s)
		if f == nil {
			r.Fatalf("entry point %s not found", s)
			continue
		}
		out = append(out, f)
	}
	return out
}

// exportedMethods lists the exported methods (value and pointer receiver) of
// a named type.
func exportedMethods(ctx *core.Ctx, pkg, typ string) []*ssa.Function {
	n := ctx.Named(pkg, typ)
	if n == nil {
		return nil
	}
	var out []*ssa.Function
	for i := 0; i < n.NumMethods(); i++ {
		m := n.Method(i)
		if m.Exported() {
			if f := ctx.Prog.FuncValue(m); f != nil {
				out = append(out, f)
			}
		}
	}
	return out
}

// implementersOf lists named types (in the given packages) implementing iface.
func implementersOf(ctx *core.Ctx, iface *types.Interface, pkgs ...string) []*types.Named {
	var out []*types.Named
	for _, p := range pkgs {
		tp := ctx.TPkg(p)
		if tp == nil {
			continue
		}
		names := tp.Scope().Names()
		sort.Strings(names)
		for _, n := range names {
			tn, ok := tp.Scope().Lookup(n).(*types.TypeName)
			if !ok {
				continue
			}
			named, ok := tn.Type().(*types.Named)
			if !ok || types.IsInterface(named) {
				continue
			}
			if types.Implements(named, iface) || types.Implements(types.NewPointer(named), iface) {
				out = append(out, named)
			}
		}
	}
	return out
}

var _ = callgraph.GraphVisitEdges

// sealed reports whether a named interface has an unexported method (so it
// cannot be implemented outside its package) and returns its implementers.
func (e *crashEngine) sealedImplementers(t types.Type) ([]types.Type, bool) {
	n, ok := t.(*types.Named)
	if !ok || n.Obj().Pkg() == nil || !core.InRepo(n.Obj().Pkg().Path()) {
		return nil, false
	}
	iface, ok := n.Underlying().(*types.Interface)
	if !ok {
		return nil, false
	}
	sealed := false
	for i := 0; i < iface.NumMethods(); i++ {
		if !iface.Method(i).Exported() {
			sealed = true
		}
	}
	if !sealed {
		return nil, false
	}
	var impls []types.Type
	scope := n.Obj().Pkg().Scope()
	for _, name := range scope.Names() {
		tn, ok := scope.Lookup(name).(*types.TypeName)
		if !ok {
			continue
		}
		named, ok := tn.Type().(*types.Named)
		if !ok || types.IsInterface(named) {
			continue
		}
		if types.Implements(named, iface) {
			impls = append(impls, named)
		} else if types.Implements(types.NewPointer(named), iface) {
			impls = append(impls, types.NewPointer(named))
		}
	}
	return impls, len(impls) > 0
}

func (e *crashEngine) closedWorld(ta *ssa.TypeAssert) (bool, string) {
	impls, ok := e.sealedImplementers(ta.X.Type())
	if !ok {
		return false, ""
	}
	if os.Getenv("VERIF_DEBUG") != "" {
		for _, im := range impls {
			if !satisfies([]types.Type{im}, ta.AssertedType) {
				fmt.Fprintf(os.Stderr, "closedWorld %s: %s does not satisfy %s\n", e.ctx.Pos(ta.Pos()), core.TypeName(im), core.TypeName(ta.AssertedType))
			}
		}
	}
	if satisfies(impls, ta.AssertedType) {
		return true, fmt.Sprintf("closed world: all %d implementers of sealed %s satisfy the assertion", len(impls), core.TypeName(ta.X.Type()))
	}
	return false, ""
}

// valFormats: Format constant → val types carrying it, and the Go type their
// Value() returns. Discovered from the bodies of Format()/Value().
type valFmtInfo struct {
	types  []types.Type
	goType []types.Type
}

func (e *crashEngine) valFormatTable() map[int64]*valFmtInfo {
	if e.fmtTable != nil {
		return e.fmtTable
	}
	e.fmtTable = map[int64]*valFmtInfo{}
	tp := e.ctx.TPkg("val")
	valI := e.ctx.Named("val", "Value")
	if tp == nil || valI == nil {
		return e.fmtTable
	}
	vi := valI.Underlying().(*types.Interface)
	for _, name := range tp.Scope().Names() {
		tn, ok := tp.Scope().Lookup(name).(*types.TypeName)
		if !ok {
			continue
		}
		named, ok := tn.Type().(*types.Named)
		if !ok || types.IsInterface(named) || !types.Implements(named, vi) {
			continue
		}
		ff := e.ctx.Method("val", name, "Format")
		vf := e.ctx.Method("val", name, "Value")
		if ff == nil || vf == nil {
			continue
		}
		var fconst int64 = -1
		for _, ret := range core.Returns(ff) {
			if c, ok := core.ConstInt(ret.Results[0]); ok {
				fconst = c
			} else {
				fconst = -1
				break
			}
		}
		if fconst < 0 {
			continue
		}
		var goT types.Type
		for _, ret := range core.Returns(vf) {
			if mi, ok := ret.Results[0].(*ssa.MakeInterface); ok {
				if goT == nil || types.Identical(goT, mi.X.Type()) {
					goT = mi.X.Type()
					continue
				}
			}
			goT = nil
			break
		}
		info := e.fmtTable[fconst]
		if info == nil {
			info = &valFmtInfo{}
			e.fmtTable[fconst] = info
		}
		info.types = append(info.types, named)
		if goT != nil {
			info.goType = append(info.goType, goT)
		} else {
			info.goType = append(info.goType, nil)
		}
	}
	return e.fmtTable
}

// formatsAt: the set of Format constants the value v is known to have on
// entry to block b, from dominating `v.Format() == C` tests (incl. multi-value
// switch cases). nil = unknown.
func (e *crashEngine) formatsAt(b *ssa.BasicBlock, v ssa.Value) []int64 {
	isFmtOf := func(x ssa.Value) bool {
		c, ok := x.(*ssa.Call)
		if !ok {
			return false
		}
		m := core.IfaceMethod(c)
		if m == nil || m.Name() != "Format" {
			if cal := core.StaticCallee(c); cal == nil || cal.Name() != "Format" || len(c.Common().Args) != 1 {
				return false
			} else {
				return e.sameLoc(c.Common().Args[0], v, 0)
			}
		}
		return e.sameLoc(c.Common().Value, v, 0)
	}
	eqConst := func(cond ssa.Value) (int64, bool) {
		bo, ok := cond.(*ssa.BinOp)
		if !ok || bo.Op != token.EQL {
			return 0, false
		}
		if c, ok := core.ConstInt(bo.Y); ok && isFmtOf(bo.X) {
			return c, true
		}
		if c, ok := core.ConstInt(bo.X); ok && isFmtOf(bo.Y) {
			return c, true
		}
		return 0, false
	}
	for d := b; d != nil; d = d.Idom() {
		if len(d.Preds) == 0 {
			continue
		}
		var set []int64
		all := true
		for _, p := range d.Preds {
			ifi, ok := p.Instrs[len(p.Instrs)-1].(*ssa.If)
			if !ok || p.Succs[0] != d || p.Succs[1] == d {
				all = false
				break
			}
			c, ok := eqConst(ifi.Cond)
			if !ok {
				all = false
				break
			}
			set = append(set, c)
		}
		if all && len(set) > 0 {
			return set
		}
	}
	return nil
}

func (e *crashEngine) formatGuard(ta *ssa.TypeAssert) (bool, string) {
	tbl := e.valFormatTable()
	// x.(T) on a val.Value, or x.Value().(U)
	target := ta.X
	viaValue := false
	if c, ok := ta.X.(*ssa.Call); ok {
		if m := core.IfaceMethod(c); m != nil && m.Name() == "Value" {
			target = c.Common().Value
			viaValue = true
		}
	}
	fs := e.formatsAt(ta.Block(), target)
	if len(fs) == 0 {
		return false, ""
	}
	for _, f := range fs {
		info := tbl[f]
		if info == nil || len(info.types) == 0 {
			return false, ""
		}
		for i, t := range info.types {
			if viaValue {
				if info.goType[i] == nil || !satisfies([]types.Type{info.goType[i]}, ta.AssertedType) {
					return false, ""
				}
			} else if !satisfies([]types.Type{t}, ta.AssertedType) {
				return false, ""
			}
		}
	}
	return true, "dominated by a Format() test that fixes the value's Go type"
}
