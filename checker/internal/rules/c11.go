package rules

import (
	"fmt"
	"go/token"
	"go/types"
	"sort"
	"strconv"
	"strings"

	"golang.org/x/tools/go/ssa"

	"verif/checker/internal/core"
)

// ---------------------------------------------------------------------------
// C11 — if-feature and deviations shape the schema exactly as written.
// ---------------------------------------------------------------------------

// insertion sites that need no feature test of their own, with the reason.
var c11InsertExempt = map[string]string{
	"meta.resolver.fillInRecursiveDefs":   "re-inserts definitions that were already filtered when their uses was first expanded",
	"meta.resolver.applyDeviation":        "re-inserts the siblings of a not-supported target, which were filtered when first added",
	"meta.resolver.copyOverSubmoduleData": "copies a submodule's raw definitions into the parent before resolution; each is filtered when resolver.enter/addDataDefinition later processes the parent",
	"meta.resolver.delayRecursiveUses":    "inserts the *Uses placeholder of a recursive grouping, whose own if-feature was tested by addDataDefinition before expandUses was called",
	"meta.resolver.addDataDefinition":     "this IS the filter: it tests the child's features at its top and inserts only on the on-edge",
}

func C11(ctx *core.Ctx, r *core.Report) {
	r.Explanation = "Where features and deviations are applied, decided on all paths of the resolver: every insertion of a guardable definition (data node, case, action, notification — in place, from a grouping or from an augment) is dominated by checkFeature on that definition or on the definition it was cloned from; when a feature is off inside a loop over siblings only that sibling is skipped; errors of feature evaluation are returned and a malformed expression can fail; every property a deviate statement stores is read when the deviation is applied, and applied once; not-supported removes the target by identity. The tests for deviate add, replace and delete are independent of each other; no successful return of supportedFeatures.Initialize bypasses the merge of the module's features into the enabled set. Not decided: the expression evaluator's precedence/associativity (a function of the expression string), the polarity of the equality tests in deviate delete."
	check := ctx.Fn("meta", "checkFeature")
	if check == nil {
		r.Fatalf("anchor meta.checkFeature not found")
		return
	}
	c11Insertions(ctx, r, check)
	c11OffSkipsOnlyItem(ctx, r, check)
	c11ErrorsPropagate(ctx, r, check)
	c11DeviationCoverage(ctx, r)
	c11NotSupported(ctx, r)
	c11DeviateKindsIndependent(ctx, r)
	c11InitializeMerges(ctx, r)
	c11DeleteEachTakesEffect(ctx, r)
	c11IfFeatureOperators(ctx, r)
	c11FeaturesConjunctive(ctx, r)
	c11EachIfFeatureKept(ctx, r)
	c11DeviationCheckByCapability(ctx, r)
	c11DeviateFieldsFilled(ctx, r)
	c11DeleteRequiresMatch(ctx, r)
	r.Count("instances:memo-key-complete(tables found)", memoKeyComplete(ctx, r, scopeFuncs(ctx, "meta", "feature_set.go", "core.go", "resolver.go")))
}

// originOf: strip clones/conversions: d := orig.clone(target).(Definition) → orig.
func originOf(v ssa.Value, depth int) ssa.Value {
	if depth > 6 {
		return v
	}
	switch x := v.(type) {
	case *ssa.TypeAssert:
		return originOf(x.X, depth+1)
	case *ssa.ChangeInterface:
		return originOf(x.X, depth+1)
	case *ssa.MakeInterface:
		return originOf(x.X, depth+1)
	case *ssa.Extract:
		return originOf(x.Tuple, depth+1)
	case *ssa.Call:
		if m := core.IfaceMethod(x); m != nil && m.Name() == "clone" {
			return originOf(x.Call.Value, depth+1)
		}
		if cal := core.StaticCallee(x); cal != nil && cal.Name() == "clone" && len(x.Call.Args) > 0 {
			return originOf(x.Call.Args[0], depth+1)
		}
	}
	return v
}

func c11Insertions(ctx *core.Ctx, r *core.Report, check *ssa.Function) {
	inserters := map[string]bool{"addDataDefinition": true, "addCase": true, "addAction": true, "addNotification": true}
	n := 0
	for _, f := range ctx.RepoFuncs() {
		recv := f.Signature.Recv()
		if core.FnPkgPath(f) != core.Full("meta") || recv == nil || core.NamedOf(recv.Type()) == nil || core.NamedOf(recv.Type()).Obj().Name() != "resolver" {
			continue
		}
		fname := core.FnName(f)
		for _, c := range core.CallSites(f) {
			name := ""
			var arg ssa.Value
			if m := core.IfaceMethod(c); m != nil && inserters[m.Name()] {
				name = m.Name()
				arg = c.Common().Args[0]
			} else if cal := core.StaticCallee(c); cal != nil && inserters[cal.Name()] && cal.Signature.Recv() != nil && core.FnPkgPath(cal) == core.Full("meta") {
				if rn := core.NamedOf(cal.Signature.Recv().Type()); rn != nil && rn.Obj().Name() == "resolver" {
					continue // resolver.addDataDefinition is the filtering wrapper, not an insertion
				}
				name = cal.Name()
				arg = c.Common().Args[len(c.Common().Args)-1]
			}
			if name == "" {
				continue
			}
			n++
			key := fname + "/" + name
			if reason, ok := c11InsertExempt[fname]; ok {
				r.Ob("feature-filtered", key, ctx.Pos(c.Pos()), true, "exempt: "+reason)
				continue
			}
			org := originOf(arg, 0)
			ok := false
			for _, cc := range callsStatic(f, check, false) {
				if !instrDominates(cc, c) {
					continue
				}
				ca := originOf(cc.Common().Args[0], 0)
				if ca == org || ca == arg {
					// inserted only on the on-edge
					for _, pc := range core.PathConds(c.Block()) {
						if dependsOn(pc.V, cc.Value(), 0) {
							ok = true
						}
					}
				}
			}
			// implied case built for an augment/shorthand: carries no if-feature of its own
			if !ok {
				if call, isCall := org.(*ssa.Call); isCall {
					if cal := core.StaticCallee(call); cal != nil && core.FnName(cal) == "meta.Builder.Case" {
						ok = true
					}
				}
			}
			r.Ob("feature-filtered", key, ctx.Pos(c.Pos()), ok,
				"a definition is inserted into the schema without checkFeature having been evaluated on it (or on the definition it was cloned from): its if-feature is ignored")
		}
	}
	r.Floor("feature-filtered", n, 8)

	// resolver.enter: the loops over cases, actions and notifications test each element
	enter := ctx.Method("meta", "resolver", "enter")
	if enter == nil {
		r.Fatalf("anchor meta.resolver.enter not found")
		return
	}
	for _, coll := range []string{"CaseIdents", "Actions", "Notifications"} {
		var src ssa.CallInstruction
		for _, c := range core.CallSites(enter) {
			match := false
			if m := core.IfaceMethod(c); m != nil && m.Name() == coll {
				match = true
			}
			if cal := core.StaticCallee(c); cal != nil && cal.Name() == coll {
				match = true
			}
			// the collection call that starts the loop is the one dominating the others
			if match && (src == nil || instrDominates(c, src)) {
				src = c
			}
		}
		if src == nil {
			r.Ob("feature-filtered", "meta.resolver.enter/loop:"+coll, ctx.Pos(enter.Pos()), false, "resolver.enter no longer iterates "+coll+"()")
			continue
		}
		// a checkFeature call in a loop that is dominated by the collection call
		ok := false
		for _, cc := range callsStatic(enter, check, false) {
			if instrDominates(src, cc) && loopBlocks(cc.Block()) != nil {
				// and nested resolution (enter/addDefinitions) in that loop happens on the on-edge
				for _, c2 := range core.CallSites(enter) {
					cal := core.StaticCallee(c2)
					if cal == nil || (cal.Name() != "enter" && cal.Name() != "addDefinitions") || !loopBlocks(cc.Block())[c2.Block()] {
						continue
					}
					if instrDominates(cc, c2) {
						ok = true
					}
				}
			}
		}
		// choose the check that belongs to this collection: its loop must be entered after src and before the next collection call
		r.Ob("feature-filtered", "meta.resolver.enter/loop:"+coll, ctx.Pos(src.Pos()), ok,
			"the "+coll+" of a node are entered without testing their if-feature")
	}
}

// c11OffSkipsOnlyItem: inside a loop, feature-off continues the loop.
func c11OffSkipsOnlyItem(ctx *core.Ctx, r *core.Report, check *ssa.Function) {
	n := 0
	for _, f := range ctx.RepoFuncs() {
		if core.FnPkgPath(f) != core.Full("meta") {
			continue
		}
		for _, c := range callsStatic(f, check, false) {
			loop := loopBlocks(c.Block())
			if loop == nil {
				continue
			}
			n++
			// the `on` result
			var on ssa.Value
			for _, ref := range *c.Value().Referrers() {
				if ex, ok := ref.(*ssa.Extract); ok && ex.Index == 0 {
					on = ex
				}
			}
			ok, msg := on != nil, "the feature verdict is not used"
			if ok {
				// every branch on `on` alone: its off side stays in the loop
				core.Instrs(f, func(b *ssa.BasicBlock, in ssa.Instruction) {
					ifi, isIf := in.(*ssa.If)
					if !isIf || !loop[b] || !dependsOn(ifi.Cond, on, 0) {
						return
					}
					// which successor is the off side?
					offSucc := 1
					if u, isNot := ifi.Cond.(*ssa.UnOp); isNot && u.Op == token.NOT {
						offSucc = 0
					}
					if bo, isBo := ifi.Cond.(*ssa.BinOp); isBo {
						_ = bo
						return // combined with the error (`!on || err != nil`): handled below
					}
					if !loop[b.Succs[offSucc]] {
						ok, msg = false, "when the feature is off the function leaves the loop: the siblings after the disabled one are dropped as well"
					}
				})
				// combined form `!on || err != nil { return err }`: a return reachable with on == false
				for _, ret := range core.Returns(f) {
					for _, p := range ret.Block().Preds {
						if !loop[p] {
							continue
						}
						if ifi, isIf := p.Instrs[len(p.Instrs)-1].(*ssa.If); isIf && dependsOn(ifi.Cond, on, 0) {
							// a return straight from the test of `on`
							ok, msg = false, "when the feature is off the function returns from inside the loop: the siblings after the disabled one are dropped as well"
						}
					}
				}
			}
			r.Ob("off-skips-only-item", core.FnName(f), ctx.Pos(c.Pos()), ok, msg)
		}
	}
	r.Floor("off-skips-only-item", n, 5)
}

func c11ErrorsPropagate(ctx *core.Ctx, r *core.Report, check *ssa.Function) {
	n := 0
	for _, f := range ctx.RepoFuncs() {
		if core.FnPkgPath(f) != core.Full("meta") {
			continue
		}
		for _, c := range core.CallSites(f) {
			cal := core.StaticCallee(c)
			m := core.IfaceMethod(c)
			isTarget := cal == check || (cal != nil && core.FnName(cal) == "meta.IfFeature.Evaluate") || (m != nil && m.Name() == "Resolve" && strings.HasSuffix(core.TypeName(c.Common().Value.Type()), "FeatureSet"))
			if !isTarget {
				continue
			}
			n++
			ev := errResult(c)
			ok := ev != nil && flowsToReturn(ev, 0, map[ssa.Value]bool{})
			r.Ob("feature-errors-propagate", core.FnName(f)+"/"+core.CalleeName(c), ctx.Pos(c.Pos()), ok,
				"the error of evaluating an if-feature expression is not returned: a malformed expression silently counts as on or off")
		}
	}
	r.Floor("feature-errors-propagate", n, 8)
	// a malformed expression can fail
	ev := ctx.Method("meta", "IfFeature", "Evaluate")
	if ev == nil {
		r.Fatalf("anchor meta.IfFeature.Evaluate not found")
		return
	}
	nFail := 0
	for _, ret := range core.Returns(ev) {
		ops := core.RetOperands(ret)
		if !core.IsNilConst(ops[1]) {
			nFail++
		}
	}
	r.Ob("feature-errors-propagate", "meta.IfFeature.Evaluate/can-fail", ctx.Pos(ev.Pos()), nFail >= 1, "Evaluate has no failing return: a malformed expression is never an error")
}

// c11DeviationCoverage: every field a deviate statement stores is read when
// the deviation is applied, and list-valued ones are applied by one loop.
// c11DeviateKindsIndependent: one deviation statement may hold deviate add,
// replace and delete together; applyDeviation applies each that is present:
// the test of one kind is never made only when another kind is absent.
func c11DeviateKindsIndependent(ctx *core.Ctx, r *core.Report) {
	ad := ctx.Method("meta", "resolver", "applyDeviation")
	dev := ctx.Named("meta", "Deviation")
	if ad == nil || dev == nil {
		r.Fatalf("anchors meta.resolver.applyDeviation / meta.Deviation not found")
		return
	}
	st := dev.Underlying().(*types.Struct)
	kinds := map[int]string{}
	for i := 0; i < st.NumFields(); i++ {
		switch st.Field(i).Name() {
		case "Add", "Replace", "Delete":
			kinds[i] = st.Field(i).Name()
		}
	}
	// nil tests of d.<kind>
	kindOf := func(v ssa.Value) string {
		b, ok := v.(*ssa.BinOp)
		if !ok || (b.Op != token.NEQ && b.Op != token.EQL) {
			return ""
		}
		x := b.X
		if core.IsNilConst(x) {
			x = b.Y
		} else if !core.IsNilConst(b.Y) {
			return ""
		}
		u, ok := x.(*ssa.UnOp)
		if !ok {
			return ""
		}
		fa, ok := u.X.(*ssa.FieldAddr)
		if !ok || core.NamedOf(fa.X.Type()) != dev {
			return ""
		}
		return kinds[fa.Field]
	}
	n := 0
	seen := map[string]bool{}
	for _, b := range ad.Blocks {
		if len(b.Instrs) == 0 {
			continue
		}
		ifi, ok := b.Instrs[len(b.Instrs)-1].(*ssa.If)
		if !ok {
			continue
		}
		k := kindOf(ifi.Cond)
		if k == "" || seen[k] {
			continue
		}
		seen[k] = true
		n++
		dep := ""
		for _, pc := range core.PathConds(b) {
			if o := kindOf(pc.V); o != "" && o != k {
				dep = o
			}
		}
		r.Ob("deviate-kinds-independent", "meta.resolver.applyDeviation/"+k, ctx.Pos(ifi.Pos()), dep == "",
			"deviate "+strings.ToLower(k)+" is looked at only on one side of the test for deviate "+strings.ToLower(dep)+": a deviation that holds both has the second one silently dropped")
	}
	r.Floor("deviate-kinds-independent", n, 3)
}

// c11InitializeMerges: one FeatureSet serves every module of a load and
// Initialize is called once per module; no successful return of
// supportedFeatures.Initialize bypasses the step that puts this module's
// features into the enabled set (the assignment of self.enabled or the loop
// that merges into it).
func c11InitializeMerges(ctx *core.Ctx, r *core.Report) {
	f := ctx.Method("meta", "supportedFeatures", "Initialize")
	sf := ctx.Named("meta", "supportedFeatures")
	if f == nil || sf == nil {
		r.Fatalf("anchor meta.supportedFeatures.Initialize not found")
		return
	}
	st := sf.Underlying().(*types.Struct)
	idx := -1
	for i := 0; i < st.NumFields(); i++ {
		if st.Field(i).Name() == "enabled" {
			idx = i
		}
	}
	isEnabledAddr := func(v ssa.Value) bool {
		fa, ok := v.(*ssa.FieldAddr)
		return ok && fa.Field == idx && core.NamedOf(fa.X.Type()) == sf
	}
	merge := map[*ssa.BasicBlock]bool{}
	core.Instrs(f, func(b *ssa.BasicBlock, in ssa.Instruction) {
		switch x := in.(type) {
		case *ssa.Store:
			if isEnabledAddr(x.Addr) && !core.IsNilConst(x.Val) {
				merge[b] = true
			}
		case *ssa.MapUpdate:
			if u, ok := x.Map.(*ssa.UnOp); ok && isEnabledAddr(u.X) {
				merge[b] = true
				if _, h := innerLoopOf(b); h != nil {
					merge[h] = true // a merge loop, also when it runs zero times
				}
			}
		}
	})
	n := 0
	for _, ret := range core.Returns(f) {
		ops := core.RetOperands(ret)
		if len(ops) == 1 && !core.IsNilConst(ops[0]) {
			continue // a failure
		}
		n++
		bypass := false
		seen := map[*ssa.BasicBlock]bool{}
		var walk func(b *ssa.BasicBlock)
		walk = func(b *ssa.BasicBlock) {
			if seen[b] || merge[b] {
				return
			}
			seen[b] = true
			if b == ret.Block() {
				bypass = true
				return
			}
			for _, s := range b.Succs {
				walk(s)
			}
		}
		walk(f.Blocks[0])
		key := "meta.supportedFeatures.Initialize/return"
		if n > 1 {
			key += "#" + strconv.Itoa(n)
		}
		r.Ob("initialize-merges-every-module", key, ctx.Pos(ret.Pos()), !bypass,
			"Initialize can return success without adding this module's features to the enabled set: the features of every module but the first are off, whatever the configuration says")
	}
	r.Floor("initialize-merges-every-module", n, 1)
	// a store that replaces the whole enabled set throws away what the modules
	// initialised before this one contributed, unless it runs only while the set
	// is still nil
	core.Instrs(f, func(b *ssa.BasicBlock, in ssa.Instruction) {
		st, ok := in.(*ssa.Store)
		if !ok || !isEnabledAddr(st.Addr) || core.IsNilConst(st.Val) {
			return
		}
		guarded := false
		for _, pc := range core.PathConds(b) {
			bo, ok := pc.V.(*ssa.BinOp)
			if !ok || (bo.Op != token.EQL && bo.Op != token.NEQ) {
				continue
			}
			var other ssa.Value
			if core.IsNilConst(bo.Y) {
				other = bo.X
			} else if core.IsNilConst(bo.X) {
				other = bo.Y
			} else {
				continue
			}
			u, ok := core.Strip(other).(*ssa.UnOp)
			if !ok || u.Op != token.MUL || !isEnabledAddr(u.X) {
				continue
			}
			if (bo.Op == token.EQL) == pc.True {
				guarded = true
			}
		}
		r.Ob("initialize-merges-every-module", "meta.supportedFeatures.Initialize/replace-enabled", ctx.Pos(st.Pos()), guarded,
			"the enabled set is replaced, not merged into, also when it already holds the features of the modules initialised before this one: after an import is initialised the importing module's own features are gone (its if-feature nodes vanish, its `not` nodes appear)")
	})
	if len(merge) == 0 {
		r.Fatalf("supportedFeatures.Initialize no longer writes the enabled set")
	}
}

func c11DeviationCoverage(ctx *core.Ctx, r *core.Report) {
	ad := ctx.Method("meta", "resolver", "applyDeviation")
	chk := ctx.Method("meta", "resolver", "checkDeviationTarget")
	if ad == nil {
		r.Fatalf("anchor meta.resolver.applyDeviation not found")
		return
	}
	readers := []*ssa.Function{ad}
	if chk != nil {
		readers = append(readers, chk)
	}
	// accessor methods of the deviate types called from the readers count as reads of what they load
	for _, t := range []string{"AddDeviate", "ReplaceDeviate", "DeleteDeviate"} {
		named := ctx.Named("meta", t)
		if named == nil {
			r.Fatalf("anchor meta.%s not found", t)
			continue
		}
		st := named.Underlying().(*types.Struct)
		read := map[string]int{}
		loops := map[string]int{}
		var visit func(f *ssa.Function, depth int)
		seen := map[*ssa.Function]bool{}
		visit = func(f *ssa.Function, depth int) {
			if f == nil || seen[f] || depth > 2 || len(f.Blocks) == 0 {
				return
			}
			seen[f] = true
			core.Instrs(f, func(_ *ssa.BasicBlock, in ssa.Instruction) {
				switch x := in.(type) {
				case *ssa.FieldAddr:
					if core.NamedOf(x.X.Type()) == named {
						for _, ref := range *x.Referrers() {
							if u, ok := ref.(*ssa.UnOp); ok && u.Op == token.MUL {
								read[st.Field(x.Field).Name()]++
								// a loop over the loaded slice: len() of it feeds a loop condition
								for _, r2 := range *u.Referrers() {
									if c, ok := r2.(*ssa.Call); ok {
										if bi, ok := c.Common().Value.(*ssa.Builtin); ok && bi.Name() == "len" {
											for _, r3 := range *c.Referrers() {
												if bo, ok := r3.(*ssa.BinOp); ok && bo.Op == token.LSS {
													loops[st.Field(x.Field).Name()]++
												}
											}
										}
									}
								}
							}
						}
					}
				case ssa.CallInstruction:
					if cal := core.StaticCallee(x); cal != nil && cal.Signature.Recv() != nil && core.NamedOf(cal.Signature.Recv().Type()) == named {
						visit(cal, depth+1)
					}
				}
			})
		}
		for _, f := range readers {
			visit(f, 0)
		}
		// fields written anywhere else in package meta (builder, generated setters)
		written := map[string]bool{}
		for _, f := range ctx.RepoFuncs() {
			if core.FnPkgPath(f) != core.Full("meta") || f == ad || f == chk {
				continue
			}
			core.Instrs(f, func(_ *ssa.BasicBlock, in ssa.Instruction) {
				st2, ok := in.(*ssa.Store)
				if !ok {
					return
				}
				if fa, ok := st2.Addr.(*ssa.FieldAddr); ok && core.NamedOf(fa.X.Type()) == named {
					written[st.Field(fa.Field).Name()] = true
				}
			})
		}
		var names []string
		for w := range written {
			names = append(names, w)
		}
		sort.Strings(names)
		for _, fld := range names {
			if fld == "parent" || fld == "extensions" {
				continue // back pointer / extension statements on the deviate itself, not properties of the target
			}
			r.Ob("deviation-field-coverage", "meta."+t+"."+fld, ctx.Pos(ad.Pos()), read[fld] > 0,
				"the deviate statement stores "+fld+" but applyDeviation never reads it: that part of the deviation is silently dropped")
			if loops[fld] > 1 {
				r.Ob("deviation-applied-once", "meta."+t+"."+fld, ctx.Pos(ad.Pos()), false,
					fmt.Sprintf("%d loops over %s in applyDeviation: each entry is applied more than once", loops[fld], fld))
			} else if loops[fld] == 1 {
				r.Ob("deviation-applied-once", "meta."+t+"."+fld, ctx.Pos(ad.Pos()), true, "")
			}
		}
	}
}

// c11NotSupported: the removal loop compares by identity and re-adds the rest.
func c11NotSupported(ctx *core.Ctx, r *core.Report) {
	ad := ctx.Method("meta", "resolver", "applyDeviation")
	if ad == nil {
		return
	}
	ok := false
	for _, c := range core.CallSites(ad) {
		m := core.IfaceMethod(c)
		if m == nil || m.Name() != "addDataDefinition" || loopBlocks(c.Block()) == nil {
			continue
		}
		for _, pc := range core.PathConds(c.Block()) {
			if bo, isBo := pc.V.(*ssa.BinOp); isBo && bo.Op == token.NEQ && pc.True {
				// candidate != target, where the re-added value is the candidate
				if originOf(c.Common().Args[0], 0) == originOf(bo.X, 0) || originOf(c.Common().Args[0], 0) == originOf(bo.Y, 0) {
					ok = true
				}
			}
		}
	}
	r.Ob("not-supported-by-identity", "meta.resolver.applyDeviation", ctx.Pos(ad.Pos()), ok,
		"not-supported must re-add every sibling that is not the target itself (candidate != target): otherwise it removes more, or less, than its target")
}

// c11DeleteEachTakesEffect: `deviate delete` may name several musts (uniques).
// Each one is removed by re-reading the target's current list and writing back
// the list without it, so the write-back has to happen inside the loop over the
// named entries: written back after the loop, only the last removal survives
// (every iteration filtered the original list).
func c11DeleteEachTakesEffect(ctx *core.Ctx, r *core.Report) {
	ad := ctx.Method("meta", "resolver", "applyDeviation")
	dd := ctx.Named("meta", "DeleteDeviate")
	if ad == nil || dd == nil {
		r.Fatalf("anchors meta.resolver.applyDeviation / meta.DeleteDeviate not found")
		return
	}
	st := dd.Underlying().(*types.Struct)
	loops := map[string]map[*ssa.BasicBlock]bool{}
	core.Instrs(ad, func(b *ssa.BasicBlock, in ssa.Instruction) {
		ifi, ok := in.(*ssa.If)
		if !ok {
			return
		}
		bo, ok := ifi.Cond.(*ssa.BinOp)
		if !ok || bo.Op != token.LSS {
			return
		}
		c, ok := bo.Y.(*ssa.Call)
		if !ok {
			return
		}
		if bi, ok := c.Common().Value.(*ssa.Builtin); !ok || bi.Name() != "len" {
			return
		}
		u, ok := core.Strip(c.Common().Args[0]).(*ssa.UnOp)
		if !ok {
			return
		}
		fa, ok := u.X.(*ssa.FieldAddr)
		if !ok || core.NamedOf(fa.X.Type()) != dd {
			return
		}
		if lb := loopBlocks(b); lb != nil {
			loops[st.Field(fa.Field).Name()] = lb
		}
	})
	apply := map[string][]ssa.Instruction{}
	core.Instrs(ad, func(_ *ssa.BasicBlock, in ssa.Instruction) {
		switch x := in.(type) {
		case ssa.CallInstruction:
			if m := core.IfaceMethod(x); m != nil && m.Name() == "setMusts" {
				apply["musts"] = append(apply["musts"], x)
			}
		case *ssa.Store:
			if fa, ok := x.Addr.(*ssa.FieldAddr); ok {
				if n := core.NamedOf(fa.X.Type()); n != nil && n.Obj().Name() == "List" {
					if core.Deref(fa.X.Type()).Underlying().(*types.Struct).Field(fa.Field).Name() == "unique" {
						apply["unique"] = append(apply["unique"], x)
					}
				}
			}
		}
	})
	n := 0
	for _, fld := range []string{"musts", "unique"} {
		lb, has := loops[fld]
		if !has {
			continue
		}
		n++
		ok := false
		pos := ctx.Pos(ad.Pos())
		for _, a := range apply[fld] {
			if lb[a.Block()] {
				ok = true
				pos = ctx.Pos(a.Pos())
			}
		}
		r.Ob("delete-each-takes-effect", "meta.resolver.applyDeviation/Delete."+fld, pos, ok,
			"the list without the deleted "+fld+" entry is not written back to the target inside the loop over the entries named by the deviate: each iteration filters the target's original list again, so of several named entries only the last one is removed (and no error is raised)")
	}
	r.Floor("delete-each-takes-effect", n, 2)
}

// c11IfFeatureOperators: the if-feature evaluator (ifFeatureEval.eval) is a
// one-pass precedence parser: `and` and `not` ask the recursive call for ONE
// operand (greedy=true), `or` and `(` for everything up to the closing bracket
// (greedy=false), and a call that was asked for one operand returns as soon as
// any token has completed one — which is what makes `not` bind tighter than
// `and`, and `and` tighter than `or` (RFC 7950 7.20.2). Decided: the constant
// handed to each recursive call, per operator, and that every way back to the
// top of the token loop passes the test of `greedy`. The truth tables of the
// combinations (&&, ||, !) and the tokeniser are not decided.
func c11IfFeatureOperators(ctx *core.Ctx, r *core.Report) {
	f := ctx.Method("meta", "ifFeatureEval", "eval")
	if f == nil || len(f.Params) < 2 {
		r.Fatalf("anchor meta.ifFeatureEval.eval not found")
		return
	}
	greedy := f.Params[1]
	// operator → block where its case starts
	caseOf := map[string]*ssa.BasicBlock{}
	core.Instrs(f, func(b *ssa.BasicBlock, in ssa.Instruction) {
		ifi, ok := in.(*ssa.If)
		if !ok {
			return
		}
		bo, ok := ifi.Cond.(*ssa.BinOp)
		if !ok || bo.Op != token.EQL {
			return
		}
		if s, isC := core.ConstString(bo.Y); isC {
			caseOf[s] = b.Succs[0]
		}
	})
	want := map[string]string{"and": "true", "not": "true", "or": "false", "(": "false"}
	ops := []string{"(", "and", "not", "or"}
	for _, op := range ops {
		cb, has := caseOf[op]
		if !has {
			r.Ob("if-feature-operators", "meta.ifFeatureEval.eval/case:"+op, ctx.Pos(f.Pos()), false, "the evaluator has no case for the operator `"+op+"` (the dispatch on the token is no longer a comparison with that literal)")
			continue
		}
		got := ""
		pos := ctx.Pos(f.Pos())
		for _, c := range callsStatic(f, f, false) {
			if c.Block() == cb || cb.Dominates(c.Block()) {
				if k, isC := c.Common().Args[1].(*ssa.Const); isC && k.Value != nil {
					got = k.Value.String()
					pos = ctx.Pos(c.Pos())
				}
				break
			}
		}
		r.Ob("if-feature-operators", "meta.ifFeatureEval.eval/case:"+op, pos, got == want[op],
			fmt.Sprintf("operator `%s` must evaluate its right-hand side with greedy=%s (got %q): with the other value it takes one operand too few or too many and the precedence not > and > or is lost", op, want[op], got))
	}
	// every back edge of the token loop is dominated by a test of greedy inside the loop
	var tests []*ssa.BasicBlock
	core.Instrs(f, func(b *ssa.BasicBlock, in ssa.Instruction) {
		if ifi, ok := in.(*ssa.If); ok && (ifi.Cond == ssa.Value(greedy) || dependsOn(ifi.Cond, greedy, 0)) {
			tests = append(tests, b)
		}
	})
	n := 0
	for _, h := range f.Blocks {
		body, hdr := innerLoopOf(h)
		if hdr != h || body == nil {
			continue
		}
		for _, p := range h.Preds {
			if !body[p] {
				continue
			}
			n++
			ok := false
			for _, tb := range tests {
				if body[tb] && tb.Dominates(p) {
					ok = true
				}
			}
			pos := ctx.Pos(f.Pos())
			if len(p.Instrs) > 0 {
				pos = ctx.Pos(p.Instrs[len(p.Instrs)-1].Pos())
			}
			r.Ob("if-feature-operators", fmt.Sprintf("meta.ifFeatureEval.eval/one-operand-then-return#%d", n), pos, ok,
				"the token loop can go round again without testing `greedy`: a call asked for ONE operand (the right-hand side of `and` or `not`) then keeps consuming the operators that follow, so `a and not b or c` is read as `a and (not b or c)`")
		}
	}
	r.Floor("if-feature-operators(loop back edges)", n, 1)
}
