package rules

import (
	"fmt"
	"go/token"
	"go/types"
	"strings"

	"golang.org/x/tools/go/ssa"

	"verif/checker/internal/core"
)

// c01AugmentUsesExpandedFirst (phase order inside resolver.module): for every
// module-level augment the uses written in its body are expanded
// (addDefinitions(a, a.popDataDefinitions())) before the augment is applied to
// its target — for a choice target each node then becomes a case of its own;
// an unexpanded uses would be wrapped whole into one case named after the grouping.
func c01AugmentUsesExpandedFirst(ctx *core.Ctx, r *core.Report) {
	f := ctx.Method("meta", "resolver", "module")
	ea := ctx.Method("meta", "resolver", "expandAugment")
	ad := ctx.Method("meta", "resolver", "addDefinitions")
	if f == nil || ea == nil || ad == nil {
		r.Fatalf("anchors meta.resolver.module / expandAugment / addDefinitions not found")
		return
	}
	n := 0
	for _, c := range callsStatic(f, ea, false) {
		n++
		ok := false
		lb := loopBlocks(c.Block())
		for _, a := range callsStatic(f, ad, false) {
			// in the same loop, before it, on the same augment
			if lb != nil && lb[a.Block()] && instrDominates(a.(ssa.Instruction), c.(ssa.Instruction)) {
				if originOf(a.Common().Args[1], 0) == originOf(c.Common().Args[1], 0) || paramFieldChain(a.Common().Args[1]) == paramFieldChain(c.Common().Args[1]) {
					ok = true
				}
			}
		}
		r.Ob("phase-order", "meta.resolver.module/augment-body-uses-before-expandAugment", ctx.Pos(c.Pos()), ok,
			"a module-level augment is applied without the uses in its own body having been expanded first: augmenting a choice with `uses g` then yields one implied case named g holding all of g's nodes instead of one case per node — the same tree written inline compiles differently")
	}
	r.Floor("phase-order(augment loop)", n, 1)
}

// c02AbsolutePathFromRoot: an absolute schema path (leafref path, augment or
// deviation target) starts at the module whose tree the node is in — meta.Find
// takes RootModule of the context node, not the module the node was written in:
// a leaf that came in through an imported grouping lives in the using module.
func c02AbsolutePathFromRoot(ctx *core.Ctx, r *core.Report) {
	f := ctx.Fn("meta", "Find")
	if f == nil {
		r.Fatalf("anchor meta.Find not found")
		return
	}
	cn := calleeNames(f)
	r.Ob("absolute-path-from-root", "meta.Find", ctx.Pos(f.Pos()), cn["meta.RootModule"] >= 1 && cn["meta.OriginalModule"] == 0,
		fmt.Sprintf("meta.Find resolves an absolute path from something other than RootModule of the context node (RootModule calls: %d, OriginalModule calls: %d): for a leaf written in an imported grouping `/x/id` is looked up in the imported module's own, never compiled tree", cn["meta.RootModule"], cn["meta.OriginalModule"]))
}

// c06DecoderExact: the canonical decoder of string tokens (parser.tokenString)
// returns the text between the quotes as it is — no trimming, no case mapping:
// a blank at the end of a double-quoted part belongs to the string ("a. " + "b").
func c06DecoderExact(ctx *core.Ctx, r *core.Report) {
	for _, name := range []string{"tokenString", "trimQuotes"} {
		f := ctx.Fn("parser", name)
		if f == nil {
			r.Fatalf("anchor parser.%s not found", name)
			continue
		}
		bad := ""
		for _, c := range core.CallSites(f) {
			cal := core.StaticCallee(c)
			if cal == nil || cal.Pkg == nil || cal.Pkg.Pkg.Path() != "strings" {
				continue
			}
			switch cal.Name() {
			case "TrimSpace", "Trim", "TrimRight", "TrimLeft", "TrimFunc", "TrimRightFunc", "TrimLeftFunc", "ToLower", "ToUpper", "Fields":
				// blanks around the token (outside the quotes) may go; what is cut out from
				// between the quotes (a re-slice) may not be touched again
				if _, isSlice := core.Strip(c.Common().Args[0]).(*ssa.Slice); isSlice {
					bad = cal.Name()
				}
			}
		}
		r.Ob("decode-once", "parser."+name+"/exact", ctx.Pos(f.Pos()), bad == "",
			"the decoder of quoted strings applies strings."+bad+" to the text: blanks at the edge of a quoted part belong to the string, so concatenated parts (\"a. \" + \"b\") and free text are silently altered")
	}
}

// c10DecodedLengthHonoured: a call that decodes into a buffer and reports how many
// bytes it wrote ((*base64.Encoding).Decode, hex.Decode, io.ReadFull …) has that
// count used: returning the whole buffer of DecodedLen bytes appends zero bytes to
// every value whose encoded form is padded.
func c10DecodedLengthHonoured(ctx *core.Ctx, r *core.Report) {
	n := 0
	for _, f := range append(scopeFuncs(ctx, "val"), scopeFuncs(ctx, "node", "value.go")...) {
		for _, c := range core.CallSites(f) {
			cal := core.StaticCallee(c)
			if cal == nil || cal.Pkg == nil {
				continue
			}
			p := cal.Pkg.Pkg.Path()
			if !(strings.HasPrefix(p, "encoding/") && cal.Name() == "Decode" && cal.Signature.Results().Len() == 2) {
				continue
			}
			n++
			used := false
			if v := c.Value(); v != nil && v.Referrers() != nil {
				for _, ref := range *v.Referrers() {
					if ex, ok := ref.(*ssa.Extract); ok && ex.Index == 0 && ex.Referrers() != nil {
						for _, r2 := range *ex.Referrers() {
							if _, dbg := r2.(*ssa.DebugRef); !dbg {
								used = true
							}
						}
					}
				}
			}
			r.Ob("decoded-length-honoured", core.FnName(f)+"/"+core.CalleeName(c), ctx.Pos(c.Pos()), used,
				"the number of bytes the decoder wrote is ignored: the buffer sized for the maximum decoded length is handed on whole, so values whose text form is padded (binary data of a length that is not a multiple of three) read back with zero bytes appended")
		}
	}
	r.Count("instances:decoded-length-honoured", n)
}

// c17LessComparesWholeKey: the comparator that orders the key index of slice-backed
// lists hands the whole key tuples of the two entries to val.CompareVals — the
// binary search uses the whole key, so an index ordered by a part of the key
// (the first leaf) is not ordered the way the search assumes.
func c17LessComparesWholeKey(ctx *core.Ctx, r *core.Report) {
	less := ctx.Method("nodeutil", "sliceSorter", "Less")
	cv := ctx.Fn("val", "CompareVals")
	if less == nil || cv == nil {
		r.Fatalf("anchors nodeutil.sliceSorter.Less / val.CompareVals not found")
		return
	}
	for _, c := range callsStatic(less, cv, false) {
		ok := true
		for _, a := range c.Common().Args {
			if !strings.HasSuffix(paramFieldChain(a), ".key") {
				ok = false
			}
			if _, isSlice := core.Strip(a).(*ssa.Slice); isSlice {
				ok = false
			}
		}
		r.Ob("sort-search-one-comparator", "nodeutil.sliceSorter.Less/whole-key", ctx.Pos(c.Pos()), ok,
			"Less orders the key index by a part of the key (a re-sliced tuple) while the search compares whole keys: entries that share the leading key leaf are not found, cannot be deleted, and an upsert of an existing key appends a twin")
	}
}

// c14TokenizerSetsAgree: the if-feature tokeniser ends a token at certain
// characters (ifFeatureEval.next) and skips blanks between tokens (eatws). Every
// character that ends a token is either a bracket — a token of its own — or is
// skipped by eatws; a character that ends a token and is not skipped (tab, CR, LF)
// yields an empty token without moving on, and the evaluation never ends.
func c14TokenizerSetsAgree(ctx *core.Ctx, r *core.Report) {
	next := ctx.Method("meta", "ifFeatureEval", "next")
	eat := ctx.Method("meta", "ifFeatureEval", "eatws")
	if next == nil || eat == nil {
		r.Fatalf("anchors meta.ifFeatureEval.next / eatws not found")
		return
	}
	consts := func(f *ssa.Function) map[int64]bool {
		out := map[int64]bool{}
		core.Instrs(f, func(_ *ssa.BasicBlock, in ssa.Instruction) {
			if bo, ok := in.(*ssa.BinOp); ok && (bo.Op == token.EQL || bo.Op == token.NEQ) {
				if k, isC := core.ConstInt(bo.Y); isC {
					out[k] = true
				}
			}
		})
		return out
	}
	ends, skipped := consts(next), consts(eat)
	var bad []string
	for k := range ends {
		if k == '(' || k == ')' || skipped[k] {
			continue
		}
		bad = append(bad, fmt.Sprintf("%q", rune(k)))
	}
	r.Ob("lexer-cycle-advances", "meta.ifFeatureEval.next/token-ends-are-skipped", ctx.Pos(next.Pos()), len(bad) == 0 && len(ends) > 0,
		"the if-feature tokeniser ends a token at "+strings.Join(bad, ", ")+", which eatws does not skip: next() then returns an empty token without advancing and the evaluator loops for ever (an if-feature expression wrapped over two lines never finishes loading)")
}

// c13LiteralScanStopsAtEnd: every loop of the xpath lexer that reads characters
// has a way out on end of input (a comparison of the character read with eof on a
// path that leaves the loop).
func c13LiteralScanStopsAtEnd(ctx *core.Ctx, r *core.Report) {
	next := ctx.Method("xpath", "lexer", "next")
	if next == nil {
		r.Fatalf("anchor xpath.lexer.next not found")
		return
	}
	eofV, hasEof := constIntOf(ctx, "xpath", "eof")
	n := 0
	for _, f := range scopeFuncs(ctx, "xpath", "lexer.go") {
		for _, c := range callsStatic(f, next, false) {
			body, _ := innerLoopOf(c.Block())
			if body == nil {
				continue
			}
			n++
			// some comparison of this character with eof (or a class test that eof fails) leaves the loop
			exits := false
			var follow func(v ssa.Value, d int)
			follow = func(v ssa.Value, d int) {
				if v == nil || v.Referrers() == nil || d > 3 {
					return
				}
				for _, ref := range *v.Referrers() {
					switch x := ref.(type) {
					case *ssa.BinOp:
						if k, isC := core.ConstInt(x.Y); isC && hasEof && k == eofV {
							exits = true
						}
					case *ssa.Call:
						// unicode.IsDigit(r), strings.IndexRune(valid, r): eof is not in any class
						if cal := x.Common().StaticCallee(); cal != nil && cal.Pkg != nil && (cal.Pkg.Pkg.Path() == "unicode" || cal.Pkg.Pkg.Path() == "strings") {
							exits = true
						}
					case *ssa.Phi:
						follow(x, d+1)
					case *ssa.Convert:
						follow(x, d+1)
					}
				}
			}
			follow(c.Value(), 0)
			r.Ob("lexer-cycle-advances", fmt.Sprintf("%s/reads-until-eof#%d", core.FnName(f), n), ctx.Pos(c.Pos()), exits,
				"a loop of the xpath lexer reads characters without ever comparing what it read with end of input: an unterminated literal (where=name='robin) is scanned for ever")
		}
	}
	r.Floor("lexer-cycle-advances(xpath read loops)", n, 2)
	_ = types.Typ
}

// c11EachIfFeatureKept: every if-feature statement of a node is stored as its own
// IfFeature: Builder.IfFeature never writes into the expression of one that is
// already there (gluing the texts with " and " changes the grouping of an `or`
// inside one of them).
func c11EachIfFeatureKept(ctx *core.Ctx, r *core.Report) {
	f := ctx.Method("meta", "Builder", "IfFeature")
	iff := ctx.Named("meta", "IfFeature")
	if f == nil || iff == nil {
		r.Fatalf("anchors meta.Builder.IfFeature / meta.IfFeature not found")
		return
	}
	ok := true
	pos := ctx.Pos(f.Pos())
	core.Instrs(f, func(_ *ssa.BasicBlock, in ssa.Instruction) {
		st, isSt := in.(*ssa.Store)
		if !isSt {
			return
		}
		fa, isFa := st.Addr.(*ssa.FieldAddr)
		if !isFa || core.NamedOf(fa.X.Type()) != iff {
			return
		}
		// a store into an IfFeature that was not allocated here
		if _, fresh := core.Strip(fa.X).(*ssa.Alloc); !fresh {
			ok = false
			pos = ctx.Pos(st.Pos())
		}
	})
	r.Ob("each-if-feature-kept", "meta.Builder.IfFeature", pos, ok,
		"Builder.IfFeature rewrites an if-feature that is already stored instead of adding the new statement as its own: texts glued with \" and \" regroup an `or` inside one of them (`a or b` and `c` becomes a or (b and c))")
}

// c11DeviationCheckByCapability: checkDeviationTarget decides by what the target
// can carry (the HasDetails/HasListDetails/Leafable/HasMusts capabilities handed in,
// plus *List and *Any), not by a node-kind helper: IsLeaf is true for leaves,
// leaf-lists and anydata but not for a choice, which also takes `mandatory`.
func c11DeviationCheckByCapability(ctx *core.Ctx, r *core.Report) {
	f := ctx.Method("meta", "resolver", "checkDeviationTarget")
	if f == nil {
		r.Fatalf("anchor meta.resolver.checkDeviationTarget not found")
		return
	}
	bad := ""
	for _, c := range core.CallSites(f) {
		if cal := core.StaticCallee(c); cal != nil && core.FnPkgPath(cal) == core.Full("meta") && strings.HasPrefix(cal.Name(), "Is") && cal.Signature.Params().Len() == 1 {
			bad = cal.Name()
		}
	}
	r.Ob("deviation-field-coverage", "meta.resolver.checkDeviationTarget/by-capability", ctx.Pos(f.Pos()), bad == "",
		"checkDeviationTarget refuses a property by node kind (meta."+bad+") instead of by the capability interfaces: a legal deviation — mandatory on a choice — fails the whole load")
}

// c14PoolCoversEveryHolder: compiler.compile remembers every node that holds data
// definitions before it descends into it (c.pool): that is what stops the
// descent when a recursive grouping leads back to a node — whatever kind of node
// the cycle passes through (a choice and its case have no container in between).
func c14PoolCoversEveryHolder(ctx *core.Ctx, r *core.Report) {
	n := 0
	for _, f := range scopeFuncs(ctx, "meta", "compile.go") {
		core.Instrs(f, func(b *ssa.BasicBlock, in ssa.Instruction) {
			mu, ok := in.(*ssa.MapUpdate)
			if !ok {
				return
			}
			if _, fld, _, isField := mapFieldOf(mu.Map); !isField || fld != "pool" {
				return
			}
			n++
			narrowed := ""
			for _, pc := range core.PathConds(b) {
				if ex, isEx := pc.V.(*ssa.Extract); isEx {
					if ta, isTa := ex.Tuple.(*ssa.TypeAssert); isTa && !strings.HasSuffix(core.TypeName(ta.AssertedType), "HasDataDefinitions") {
						narrowed = core.TypeName(ta.AssertedType)
					}
				}
				// a type switch compiles to a chain of comma-ok asserts; also catch typeswitch on concrete kinds via BinOp on type tags is not used by go/ssa
			}
			// inside a helper whose parameter is already narrowed by a type switch in this function
			core.Instrs(f, func(_ *ssa.BasicBlock, in2 ssa.Instruction) {
				if ta, isTa := in2.(*ssa.TypeAssert); isTa && ta.CommaOk {
					t := core.TypeName(ta.AssertedType)
					if (strings.HasSuffix(t, "meta.Container") || strings.HasSuffix(t, "meta.List")) && f.Name() != "compile" {
						narrowed = t
					}
				}
			})
			r.Ob("guard-backing", core.FnName(f)+"/pool-marks-every-holder", ctx.Pos(mu.Pos()), narrowed == "",
				"the set of nodes already compiled is filled only for some node kinds ("+narrowed+"): a recursive grouping whose cycle passes through other holders only (a choice and its case) is descended into for ever and the load ends in a stack overflow")
		})
	}
	r.Floor("guard-backing(compile pool)", n, 1)
}

// c18ExistingEntryIsNotEmpty: nodeutil.reflectIsEmpty is consulted by the list
// handlers for every entry (getKey, DoGetByRow), not only under the IgnoreEmpty
// option: it calls a pointer empty only when it is nil — a pointer to a struct
// whose fields are all zero (key 0, nothing else set) is an entry that exists.
func c18ExistingEntryIsNotEmpty(ctx *core.Ctx, r *core.Report) {
	f := ctx.Fn("nodeutil", "reflectIsEmpty")
	if f == nil {
		r.Fatalf("anchor nodeutil.reflectIsEmpty not found")
		return
	}
	bad := false
	for _, c := range core.CallSites(f) {
		cal := core.StaticCallee(c)
		if cal == nil || core.FnName(cal) != "reflect.Value.IsZero" {
			continue
		}
		// the receiver derives from Elem(): the pointed-to value
		recv := c.Common().Args[0]
		seen := map[ssa.Value]bool{}
		var walk func(v ssa.Value) bool
		walk = func(v ssa.Value) bool {
			if v == nil || seen[v] {
				return false
			}
			seen[v] = true
			switch x := v.(type) {
			case *ssa.Call:
				if cc := core.StaticCallee(x); cc != nil && core.FnName(cc) == "reflect.Value.Elem" {
					return true
				}
			case *ssa.Phi:
				for _, e := range x.Edges {
					if walk(e) {
						return true
					}
				}
			case *ssa.UnOp:
				if al, ok := x.X.(*ssa.Alloc); ok {
					for _, ref := range *al.Referrers() {
						if st, ok := ref.(*ssa.Store); ok && st.Addr == ssa.Value(al) && walk(st.Val) {
							return true
						}
					}
				}
				return walk(x.X)
			}
			return false
		}
		if walk(recv) {
			bad = true
		}
	}
	r.Ob("existing-entry-is-not-empty", "nodeutil.reflectIsEmpty", ctx.Pos(f.Pos()), !bad,
		"reflectIsEmpty calls a pointer to an all-zero struct empty: the list handlers use it for every entry, so the entry with key 0 (or \"\") and nothing else set is not found by key, cannot be deleted, is duplicated by an upsert, and ends a walk early")
}

// c18ClearZeroes: the struct-backed container handler clears a member by zeroing
// the Go field (the field handler's clear). Storing an empty but non-nil slice
// instead leaves a list that DoGetChild still reports as present.
func c18ClearZeroes(ctx *core.Ctx, r *core.Report) {
	f := ctx.Method("nodeutil", "structAsContainer", "clear")
	if f == nil {
		r.Fatalf("anchor nodeutil.structAsContainer.clear not found")
		return
	}
	clears, sets := 0, 0
	for _, c := range core.CallSites(f) {
		name := ""
		if m := core.IfaceMethod(c); m != nil {
			name = m.Name()
		} else if cal := core.StaticCallee(c); cal != nil {
			name = cal.Name()
		}
		switch name {
		case "clear":
			clears++
		case "set", "MakeSlice", "MakeMap":
			sets++
		}
	}
	r.Ob("delete-addresses-selection", "nodeutil.structAsContainer.clear/zeroes-the-field", ctx.Pos(f.Pos()), clears >= 1 && sets == 0,
		"clearing a member of a struct-backed node stores a new empty value instead of zeroing the field: a deleted list is an empty non-nil slice, which the node still reports as an existing list (Find sees it, ReplaceFrom fails with a conflict)")
}

// c17IndexNilOnError: Reflect.buildKeys hands back no index at all when reading a
// key fails (nil with the error). The list node stores what buildKeys returns as
// its cached index before it looks at the error; a half-filled, unsorted index
// kept that way answers every later lookup through the node wrongly.
func c17IndexNilOnError(ctx *core.Ctx, r *core.Report) {
	f := ctx.Method("nodeutil", "Reflect", "buildKeys")
	if f == nil {
		r.Fatalf("anchor nodeutil.Reflect.buildKeys not found")
		return
	}
	n := 0
	for _, ret := range core.Returns(f) {
		if mayBeSuccess(ret) {
			continue
		}
		n++
		ops := core.RetOperands(ret)
		isNil := true
		for _, leaf := range core.PhiLeaves(ops[0], ret.Block()) {
			if !core.IsNilConst(leaf.V) {
				isNil = false
			}
		}
		r.Ob("cache-dropped-on-mutation", fmt.Sprintf("nodeutil.Reflect.buildKeys/error-return#%d", n), ctx.Pos(ret.Pos()), isNil,
			"buildKeys returns a partly built index together with an error: the list node has already stored it as its cached index, so after one failed lookup existing entries are reported absent and an upsert creates a duplicate key")
	}
	r.Floor("cache-dropped-on-mutation(buildKeys error returns)", n, 1)
}

// c09TeeReachesBothSides: nodeutil.Tee mirrors every request to both of its nodes.
// The call on the second node is skipped only when the first one failed — not when
// it returned no node (a delete returns none by contract: the mirror would keep the
// containers and lists of the case that is being left).
func c09TeeReachesBothSides(ctx *core.Ctx, r *core.Report) {
	tee := ctx.Named("nodeutil", "Tee")
	nodeI := ctx.Named("node", "Node")
	if tee == nil || nodeI == nil {
		r.Fatalf("anchors nodeutil.Tee / node.Node not found")
		return
	}
	n := 0
	for _, f := range scopeFuncs(ctx, "nodeutil", "tee.go") {
		rv := f.Signature.Recv()
		if rv == nil || core.NamedOf(rv.Type()) != tee || (f.Name() != "Child" && f.Name() != "Next") {
			continue
		}
		var calls []ssa.CallInstruction
		for _, c := range core.CallSites(f) {
			if m := core.IfaceMethod(c); m != nil && m.Name() == f.Name() {
				calls = append(calls, c)
			}
		}
		if len(calls) != 2 {
			continue
		}
		n++
		// conditions between the first and the second call: only tests of the error
		second := calls[1]
		if instrDominates(calls[1].(ssa.Instruction), calls[0].(ssa.Instruction)) {
			second = calls[0]
		}
		ok := true
		for _, pc := range core.PathConds(second.Block()) {
			bo, isBo := pc.V.(*ssa.BinOp)
			if !isBo {
				continue
			}
			other := bo.X
			if core.IsNilConst(bo.X) {
				other = bo.Y
			}
			if !core.IsErrorType(other.Type()) {
				ok = false
			}
		}
		r.Ob("tee-reaches-both-sides", core.FnName(f), ctx.Pos(second.Pos()), ok,
			"the request is passed to the second node only if the first returned a node: a delete (which returns none) stops at the first side and the mirror keeps what was deleted — the mirror then holds two cases of a choice")
	}
	r.Floor("tee-reaches-both-sides", n, 2)
}

// c09MapDeleteBeforeDescend: Reflect.childMap's Child callback handles a delete
// request before it decides what kind of child to hand out: tested after the list
// branch, the delete of a whole list returns the list node and removes nothing.
func c09MapDeleteBeforeDescend(ctx *core.Ctx, r *core.Report) {
	f := ctx.Method("nodeutil", "Reflect", "childMap")
	if f == nil {
		r.Fatalf("anchor nodeutil.Reflect.childMap not found")
		return
	}
	n := 0
	for _, clo := range withClosures(f)[1:] {
		if clo.Signature.Params().Len() != 1 || !strings.HasSuffix(core.TypeName(clo.Signature.Params().At(0).Type()), "ChildRequest") {
			continue
		}
		// every call that builds a list or child node is on the side where Delete is false
		for _, c := range core.CallSites(clo) {
			cal := core.StaticCallee(c)
			if cal == nil || (cal.Name() != "list" && cal.Name() != "child") {
				continue
			}
			n++
			// on every way to this call r.Delete was tested and found false, or r.New true:
			// from the entry, avoiding the false side of the Delete tests and the true side of
			// the New tests, the call must be out of reach
			var delFalse, newTrue []*ssa.BasicBlock
			core.Instrs(clo, func(b *ssa.BasicBlock, in ssa.Instruction) {
				ifi, isIf := in.(*ssa.If)
				if !isIf {
					return
				}
				switch {
				case strings.HasSuffix(paramFieldChain(ifi.Cond), ".Delete"):
					delFalse = append(delFalse, b.Succs[1])
				case strings.HasSuffix(paramFieldChain(ifi.Cond), ".New"):
					newTrue = append(newTrue, b.Succs[0])
				}
			})
			blocked := map[*ssa.BasicBlock]bool{}
			for _, x := range append(delFalse, newTrue...) {
				if len(x.Preds) == 1 {
					blocked[x] = true
				}
			}
			seen := map[*ssa.BasicBlock]bool{}
			reach := false
			var walk func(b *ssa.BasicBlock)
			walk = func(b *ssa.BasicBlock) {
				if seen[b] || blocked[b] || reach {
					return
				}
				seen[b] = true
				if b == c.Block() {
					reach = true
					return
				}
				for _, s2 := range b.Succs {
					walk(s2)
				}
			}
			walk(clo.Blocks[0])
			ok := !reach && len(delFalse) > 0
			r.Ob("map-delete-before-descend", fmt.Sprintf("%s/%s#%d", core.FnName(clo), cal.Name(), n), ctx.Pos(c.Pos()), ok,
				"the map-backed node hands out a child or list node without having tested the request for Delete first: deleting a whole list returns the list and removes nothing, so the old case keeps its list and Choose keeps answering with it")
		}
	}
	r.Floor("map-delete-before-descend", n, 2)
}

// c15DeferredErrorIsTheResult: the deferred function of editor.enter and
// Selection.Delete stores the endEdit failure into the function's result — a
// named result, captured: with an ordinary local the store is dead and a failure of
// the node's EndEdit (the JSON writer's final Flush) is lost.
func c15DeferredErrorIsTheResult(ctx *core.Ctx, r *core.Report) {
	end := ctx.Method("node", "Selection", "endEdit")
	if end == nil {
		r.Fatalf("anchor node.Selection.endEdit not found")
		return
	}
	n := 0
	for _, spec := range []string{"node.editor.enter", "node.Selection.Delete"} {
		f := ctx.Lookup(spec)
		if f == nil {
			r.Fatalf("anchor %s not found", spec)
			continue
		}
		for _, clo := range f.AnonFuncs {
			if len(callsStatic(clo, end, false)) == 0 {
				continue
			}
			n++
			ok := false
			core.Instrs(clo, func(_ *ssa.BasicBlock, in ssa.Instruction) {
				st, isSt := in.(*ssa.Store)
				if !isSt {
					return
				}
				if fv, isFv := st.Addr.(*ssa.FreeVar); isFv && core.IsErrorType(core.Deref(fv.Type())) && capturedIsReturned(fv) {
					ok = true
				}
			})
			r.Ob("end-follows-begin", core.FnName(f)+"/deferred-error-is-the-result", ctx.Pos(clo.Pos()), ok,
				"the deferred function stores the endEdit failure into a variable that is not the function's result: an error of the root node's EndEdit — for the JSON writer the final Flush of the stream — never reaches the caller")
		}
	}
	r.Floor("end-follows-begin(deferred error)", n, 2)
}

// c16WhenGoesOnTheNode: the `when` of an augment is copied onto the data node it
// adds (the same value that is inserted), never onto an implied case: nothing
// evaluates the when of a case at run time.
func c16WhenGoesOnTheNode(ctx *core.Ctx, r *core.Report) {
	f := ctx.Method("meta", "resolver", "expandAugment")
	if f == nil {
		r.Fatalf("anchor meta.resolver.expandAugment not found")
		return
	}
	n := 0
	for _, g := range withClosures(f) {
		for _, c := range core.CallSites(g) {
			m := core.IfaceMethod(c)
			if m == nil || m.Name() != "setWhen" {
				continue
			}
			n++
			recv := c.Common().Value
			for {
				if ex, ok := recv.(*ssa.Extract); ok {
					recv = ex.Tuple
				} else if ta, ok := recv.(*ssa.TypeAssert); ok {
					recv = ta.X
				} else if mi, ok := recv.(*ssa.MakeInterface); ok {
					recv = mi.X
				} else if ci, ok := recv.(*ssa.ChangeInterface); ok {
					recv = ci.X
				} else {
					break
				}
			}
			// the receiver is the clone made from one of the augment's own definitions
			verdict, _ := copyOrOriginal(recv, map[ssa.Value]bool{})
			isClone := verdict == "copy"
			if call, isCall := recv.(*ssa.Call); isCall {
				if cal := core.StaticCallee(call); cal != nil && core.FnName(cal) == "meta.Builder.Case" {
					isClone = false
				}
			}
			if _, isParam := recv.(*ssa.Parameter); isParam || g != f {
				isClone = false // through a helper: cannot tell which value it is applied to
			}
			r.Ob("when-on-the-node", fmt.Sprintf("meta.resolver.expandAugment/setWhen#%d", n), ctx.Pos(c.Pos()), isClone,
				"the augment's when is not put on the cloned data node itself (it goes through a helper, or onto the implied case): a when on a case is never evaluated, so a node augmented into a choice in shorthand form is shown and written although the condition is false")
		}
	}
	r.Floor("when-on-the-node", n, 1)
}

// c05NumericClassNormalised: Format.IsNumeric classifies the single form of the
// format (list formats are the single format plus an offset): every comparison in
// it is made on that normalised value, none on the receiver as given — or a list
// format (decimal64 leaf-list) is "not numeric" and its range is never checked.
func c05NumericClassNormalised(ctx *core.Ctx, r *core.Report) {
	f := ctx.Method("val", "Format", "IsNumeric")
	if f == nil || len(f.Params) == 0 {
		r.Fatalf("anchor val.Format.IsNumeric not found")
		return
	}
	recv := f.Params[0]
	n, bad := 0, 0
	core.Instrs(f, func(_ *ssa.BasicBlock, in ssa.Instruction) {
		bo, ok := in.(*ssa.BinOp)
		if !ok {
			return
		}
		switch bo.Op {
		case token.EQL, token.NEQ, token.LSS, token.LEQ, token.GTR, token.GEQ:
		default:
			return
		}
		if _, isC := core.ConstInt(bo.Y); !isC {
			return
		}
		n++
		if bo.X == ssa.Value(recv) {
			bad++
		}
	})
	r.Ob("numeric-class-normalised", "val.Format.IsNumeric", ctx.Pos(f.Pos()), bad == 0 && n > 0,
		fmt.Sprintf("%d of %d comparisons in IsNumeric look at the format as given instead of its single form: the list form of that format (a decimal64 leaf-list) is not numeric for the checker and its range is never applied", bad, n))
}

// readerErrorsSurface (C05, C19): in the XML reader's Field/Next callbacks the error
// of every value conversion reaches the callback's own error result (a `v, err :=`
// inside an inner block declares another err and the outer one stays nil: the bad
// leaf-list is dropped silently and the rest of the payload applied).
func readerErrorsSurface(ctx *core.Ctx, r *core.Report) {
	nv := ctx.Fn("node", "NewValue")
	if nv == nil {
		r.Fatalf("anchor node.NewValue not found")
		return
	}
	n := 0
	for _, name := range []string{"Field", "Next", "field"} {
		f := ctx.Method("nodeutil", "XmlNode", name)
		if f == nil {
			continue
		}
		res := f.Signature.Results()
		if res.Len() == 0 || !core.IsErrorType(res.At(res.Len()-1).Type()) {
			continue
		}
		for _, c := range callsStatic(f, nv, false) {
			n++
			ev := errResult(c)
			ok := ev != nil && flowsToReturn(ev, 0, map[ssa.Value]bool{})
			r.Ob("reader-errors-surface", fmt.Sprintf("nodeutil.XmlNode.%s/NewValue#%d", name, n), ctx.Pos(c.Pos()), ok,
				"the error of converting XML text to the leaf's type does not reach the callback's result: an element the type rejects (undeclared enum, out-of-range number) is dropped or replaced by an empty value, the write returns nil and the rest of the payload is applied")
		}
	}
	r.Floor("reader-errors-surface", n, 2)
}

// borrowFrom runs another property's rule set into a scratch report and copies the named rules.
func borrowFrom(ctx *core.Ctx, r *core.Report, prop string, rule Rule, names ...string) {
	sub := core.NewReport(prop, r.Tier, r.Root, r.Seed)
	rule(ctx, sub)
	r.Borrow(sub, names...)
}

// c07TargetBeforeUse: the navigation target of each request findSlice builds is
// part of the literal — in force when the request is handed to selekt /
// selectListItem. A Target assigned later under a condition (not on the last step)
// leaves the step onto the target itself unmarked: the query's own filters then
// apply to it (fc.max-node-count counts it, content=config vetoes a config false target).
func c07TargetBeforeUse(ctx *core.Ctx, r *core.Report) {
	fs := ctx.Method("node", "Selection", "findSlice")
	if fs == nil {
		r.Fatalf("anchor node.Selection.findSlice not found")
		return
	}
	n := 0
	core.Instrs(fs, func(_ *ssa.BasicBlock, in ssa.Instruction) {
		al, ok := in.(*ssa.Alloc)
		if !ok || al.Comment != "complit" {
			return
		}
		named := core.NamedOf(al.Type())
		if named == nil || (named.Obj().Name() != "ChildRequest" && named.Obj().Name() != "ListRequest") {
			return
		}
		n++
		// every store into the literal's Target dominates every call that takes the literal
		var stores []*ssa.Store
		var uses []ssa.Instruction
		var visit func(v ssa.Value, d int)
		visit = func(v ssa.Value, d int) {
			if v.Referrers() == nil || d > 3 {
				return
			}
			for _, ref := range *v.Referrers() {
				switch x := ref.(type) {
				case *ssa.FieldAddr:
					st := core.Deref(x.X.Type()).Underlying().(*types.Struct)
					if st.Field(x.Field).Name() == "Target" {
						for _, r2 := range *x.Referrers() {
							if s, isS := r2.(*ssa.Store); isS && s.Addr == ssa.Value(x) {
								stores = append(stores, s)
							}
						}
					} else {
						visit(x, d+1)
					}
				case ssa.CallInstruction:
					uses = append(uses, x.(ssa.Instruction))
				}
			}
		}
		visit(al, 0)
		ok2 := len(stores) > 0 && len(uses) > 0
		for _, u := range uses {
			dom := false
			for _, s := range stores {
				if instrDominates(s, u) {
					dom = true
				}
			}
			if !dom {
				ok2 = false
			}
		}
		r.Ob("navigation-marks-requests", fmt.Sprintf("node.Selection.findSlice/%s/target-in-force-at-use", named.Obj().Name()), ctx.Pos(al.Pos()), ok2,
			"the request is handed on without its navigation target having been set on every path (it is assigned afterwards, or only for some steps): the step onto the target counts as a read and the query's own filters are applied to it")
	})
	r.Floor("navigation-marks-requests(target at use)", n, 2)
}

// c07EditBaseIsRequestBase: every request the editor builds for the read side of a
// walk carries the base path of the whole edit (e.basePath): the read filters
// measure depth, field paths and list selectors from it. A request based on the
// current selection's own path makes every list look like the one fc.range names.
func c07EditBaseIsRequestBase(ctx *core.Ctx, r *core.Report) {
	n := 0
	for _, name := range []string{"leaf", "node", "list"} {
		f := ctx.Method("node", "editor", name)
		if f == nil {
			r.Fatalf("anchor node.editor.%s not found", name)
			continue
		}
		core.Instrs(f, func(_ *ssa.BasicBlock, in ssa.Instruction) {
			st, ok := in.(*ssa.Store)
			if !ok {
				return
			}
			fa, ok := st.Addr.(*ssa.FieldAddr)
			if !ok {
				return
			}
			sts, ok := core.Deref(fa.X.Type()).Underlying().(*types.Struct)
			if !ok || sts.Field(fa.Field).Name() != "Base" {
				return
			}
			n++
			chain := paramFieldChain(st.Val)
			r.Ob("edit-base-is-request-base", fmt.Sprintf("node.editor.%s/Base#%d", name, n), ctx.Pos(st.Pos()), strings.HasSuffix(chain, ".basePath"),
				"a request built by the editor takes "+chain+" as its base instead of the base path of the edit: fc.range (and depth, fields) then measure from the current list, so every list of the tree matches the selector and is windowed")
		})
	}
	r.Floor("edit-base-is-request-base", n, 3)
}

// c07AlternativesFlushed: in the path-expression parser every `;` hands the
// alternative built so far to the expression before the next one is started (as
// `)` and the end of input do): without it only the first and the last alternative
// of a group survive (fields=a;b;c selects a and c).
func c07AlternativesFlushed(ctx *core.Ctx, r *core.Report) {
	f := ctx.Method("node", "PathMatchExpression", "parsex")
	ap := ctx.Method("node", "PathMatchExpression", "appendPaths")
	if f == nil || ap == nil {
		r.Fatalf("anchors node.PathMatchExpression.parsex / appendPaths not found")
		return
	}
	caseOf := map[string]*ssa.BasicBlock{}
	core.Instrs(f, func(b *ssa.BasicBlock, in ssa.Instruction) {
		if ifi, ok := in.(*ssa.If); ok {
			if bo, ok := ifi.Cond.(*ssa.BinOp); ok && bo.Op == token.EQL {
				if s, isC := core.ConstString(bo.Y); isC {
					caseOf[s] = b.Succs[0]
				}
			}
		}
	})
	for _, tok := range []string{";", ")"} {
		cb, has := caseOf[tok]
		ok := false
		if has {
			for _, c := range callsStatic(f, ap, false) {
				if c.Block() == cb || cb.Dominates(c.Block()) {
					ok = true
				}
			}
		}
		r.Ob("alternatives-flushed", "node.PathMatchExpression.parsex/case:"+tok, ctx.Pos(f.Pos()), ok,
			"the path-expression parser does not hand the alternative built so far to the expression when it meets `"+tok+"`: of three or more alternatives only the first and the last survive, so fields=a;b;c selects a and c")
	}
}

// c08KeyOrderFollowsKeyStatement: List.KeyMeta() lists the key leaves in the order
// of the key statement: compiler.list fills keyMeta[i] from key[i]. Any other order
// (declaration order of the leaves) swaps the values of a compound key in a path.
func c08KeyOrderFollowsKeyStatement(ctx *core.Ctx, r *core.Report) {
	f := ctx.Method("meta", "compiler", "list")
	if f == nil {
		r.Fatalf("anchor meta.compiler.list not found")
		return
	}
	ok := false
	core.Instrs(f, func(_ *ssa.BasicBlock, in ssa.Instruction) {
		st, isSt := in.(*ssa.Store)
		if !isSt {
			return
		}
		ia, isIa := st.Addr.(*ssa.IndexAddr)
		if !isIa || !strings.HasSuffix(paramFieldChain(ia.X), ".keyMeta") {
			return
		}
		// the index is the induction variable of a loop bounded by len(y.key)
		ph, isPhi := ia.Index.(*ssa.Phi)
		if !isPhi {
			if bo, isBo := ia.Index.(*ssa.BinOp); isBo {
				ph, isPhi = bo.X.(*ssa.Phi)
			}
		}
		if !isPhi {
			return
		}
		for _, ref := range *ph.Referrers() {
			if bo, isBo := ref.(*ssa.BinOp); isBo && bo.Op == token.LSS {
				if lc, isCall := bo.Y.(*ssa.Call); isCall && len(lc.Common().Args) == 1 && strings.HasSuffix(paramFieldChain(lc.Common().Args[0]), ".key") {
					ok = true
				}
			}
		}
		// `for i, keyIdent := range y.key` increments i in a BinOp ADD whose result feeds the phi
		for _, e := range ph.Edges {
			if bo, isBo := e.(*ssa.BinOp); isBo && bo.Op == token.ADD {
				for _, ref := range *bo.Referrers() {
					if cmp, isCmp := ref.(*ssa.BinOp); isCmp && cmp.Op == token.LSS {
						if lc, isCall := cmp.Y.(*ssa.Call); isCall && len(lc.Common().Args) == 1 && strings.HasSuffix(paramFieldChain(lc.Common().Args[0]), ".key") {
							ok = true
						}
					}
				}
			}
		}
	})
	r.Ob("key-order-follows-key-statement", "meta.compiler.list/keyMeta", ctx.Pos(f.Pos()), ok,
		"KeyMeta is not filled position by position from the key statement: with the leaves in declaration order a compound key `key \"dst src\"` takes its path values in the wrong order — route=b,a selects another entry, or fails to convert")
}

// c08WhereNeedsBase: Where applies its expression only to a request that has a
// base (a read that started at the filtered list): the navigation request of Find
// carries a Target and no Base, and must pass — the call of XPredicate is out of
// reach on the side where r.Base is nil.
func c08WhereNeedsBase(ctx *core.Ctx, r *core.Report) {
	f := ctx.Method("node", "Where", "CheckListPostConstraints")
	xp := ctx.Method("node", "Selection", "XPredicate")
	if f == nil || xp == nil {
		r.Fatalf("anchors node.Where.CheckListPostConstraints / Selection.XPredicate not found")
		return
	}
	for _, c := range callsStatic(f, xp, false) {
		tested, reach := false, false
		core.Instrs(f, func(b *ssa.BasicBlock, in ssa.Instruction) {
			ifi, ok := in.(*ssa.If)
			if !ok {
				return
			}
			bo, ok := ifi.Cond.(*ssa.BinOp)
			if !ok || !core.IsNilConst(bo.Y) || paramFieldChain(bo.X) != "r.Base" {
				return
			}
			tested = true
			nilSide := b.Succs[0]
			if bo.Op == token.NEQ {
				nilSide = b.Succs[1]
			}
			// the phi `target` may merge: follow only while the merged value says "not target"
			if reachesWithBaseNil(nilSide, c.Block(), b) {
				reach = true
			}
		})
		r.Ob("where-scope", "node.Where.CheckListPostConstraints/needs-base", ctx.Pos(c.Pos()), tested && !reach,
			"the where expression can be evaluated for a request that has no base — the navigation request of Find: an entry on the way to the target that fails the predicate makes Find return nothing")
	}
}

// reachesWithBaseNil: from block `from` (reached when r.Base is nil) can control reach
// `to` on a path consistent with that fact? Conservative for the shape
// `target := base != nil && …; if target && … { … }`: the phi takes the constant false
// from the nil side, so an If on that phi goes to its false successor.
func reachesWithBaseNil(from, to, test *ssa.BasicBlock) bool {
	seen := map[*ssa.BasicBlock]bool{}
	var walk func(b, pred *ssa.BasicBlock) bool
	walk = func(b, pred *ssa.BasicBlock) bool {
		if b == to {
			return true
		}
		if seen[b] {
			return false
		}
		seen[b] = true
		if len(b.Instrs) > 0 {
			if ifi, ok := b.Instrs[len(b.Instrs)-1].(*ssa.If); ok {
				if ph, isPhi := ifi.Cond.(*ssa.Phi); isPhi && ph.Block() == b {
					for i, p := range b.Preds {
						if p == pred {
							if k, isC := ph.Edges[i].(*ssa.Const); isC && k.Value != nil {
								if k.Value.String() == "false" {
									return walk(b.Succs[1], b)
								}
								return walk(b.Succs[0], b)
							}
						}
					}
				}
			}
		}
		for _, s := range b.Succs {
			if walk(s, b) {
				return true
			}
		}
		return false
	}
	return walk(from, test)
}

// c04ChooseThroughQualifiedLookup: the JSON reader finds a member under its plain
// or its module-qualified name through one helper (fqkGet); the Choose callback
// probes the members of each case with it as well — a direct map lookup by plain
// name misses every member that carries a module prefix and the whole case is
// dropped from the export.
func c04ChooseThroughQualifiedLookup(ctx *core.Ctx, r *core.Report) {
	jr := ctx.Fn("nodeutil", "JsonContainerReader")
	get := ctx.Fn("nodeutil", "fqkGet")
	if jr == nil || get == nil || len(jr.Params) == 0 {
		r.Fatalf("anchors nodeutil.JsonContainerReader / fqkGet not found")
		return
	}
	n := 0
	for _, clo := range jr.AnonFuncs {
		core.Instrs(clo, func(_ *ssa.BasicBlock, in ssa.Instruction) {
			lk, ok := in.(*ssa.Lookup)
			if !ok {
				return
			}
			// a lookup in the captured document map
			src := core.Strip(lk.X)
			if u, isU := src.(*ssa.UnOp); isU {
				src = u.X
			}
			if fv, isFv := src.(*ssa.FreeVar); isFv && fv.Name() == jr.Params[0].Name() {
				n++
				r.Ob("choose-through-qualified-lookup", core.FnName(clo)+"/direct-lookup", ctx.Pos(lk.Pos()), false,
					"a callback of the JSON reader looks a member up in the document by its plain name instead of through fqkGet: members written with their module prefix (RFC 7951) are not found — for Choose the whole case is silently dropped")
			}
		})
	}
	uses := 0
	for _, clo := range jr.AnonFuncs {
		uses += len(callsStatic(clo, get, false))
	}
	r.Ob("choose-through-qualified-lookup", "nodeutil.JsonContainerReader/lookups-through-fqkGet", ctx.Pos(jr.Pos()), uses >= 3,
		fmt.Sprintf("%d callbacks of the JSON reader use fqkGet (Choose, Child and Field are expected to)", uses))
}

// c20FieldWritesReplace: the reflection field handlers write a value by replacing
// the Go field (reflect.Value.Set). Copying into the array the field already
// holds (SetLen + reflect.Copy) writes through whatever else shares that array —
// a new entry's leaf-list default shares it with the schema's own default
// values, so an edit of one data tree rewrites the module (and every tree created
// after it).
func c20FieldWritesReplace(ctx *core.Ctx, r *core.Report) {
	n := 0
	for _, f := range scopeFuncs(ctx, "nodeutil", "node_struct.go", "node_map.go", "node_slice.go", "node.go") {
		for _, c := range core.CallSites(f) {
			cal := core.StaticCallee(c)
			if cal == nil {
				continue
			}
			switch core.FnName(cal) {
			case "reflect.Copy", "reflect.Value.SetLen":
				n++
				r.Ob("field-writes-replace", core.FnName(f)+"/"+cal.Name(), ctx.Pos(c.Pos()), false,
					"a field handler writes into the array a Go field already holds instead of replacing the field: the array may be shared — the leaf-list default of a freshly created entry is the schema's own default slice — so editing one tree changes the compiled module and every tree created afterwards")
			}
		}
	}
	r.Ob("field-writes-replace", "nodeutil(field handlers)/scanned", "nodeutil/node_struct.go", ctx.Method("nodeutil", "reflectByField", "set") != nil, "anchor nodeutil.reflectByField.set not found")
	r.Count("instances:field-writes-replace(in-place writes found)", n)
}

// c19ListFormAgreesWithScalar: the list form of a value constructor converts each
// element with the scalar constructor of the same kind (toIdentRefList → toIdentRef,
// which strips and checks the module prefix the writers emit): a list form that
// re-implements the lookup reads `types:udp` in a leaf but not in a leaf-list.
func c19ListFormAgreesWithScalar(ctx *core.Ctx, r *core.Report) {
	pairs := [][2]string{{"toIdentRefList", "toIdentRef"}, {"toEnumList", "toEnum"}}
	for _, p := range pairs {
		lf, sf := ctx.Fn("node", p[0]), ctx.Fn("node", p[1])
		if lf == nil || sf == nil {
			r.Fatalf("anchors node.%s / node.%s not found", p[0], p[1])
			continue
		}
		// every loop of the list form that builds elements calls the scalar form
		loops, withScalar := 0, 0
		for _, g := range withClosures(lf) {
			for _, h := range g.Blocks {
				body, hdr := innerLoopOf(h)
				if hdr != h || body == nil {
					continue
				}
				loops++
				found := false
				for _, c := range core.CallSites(g) {
					if body[c.Block()] {
						if cal := core.StaticCallee(c); cal != nil && (cal == sf || cal.Origin() == sf || strings.HasPrefix(cal.Name(), p[1])) {
							found = true
						}
					}
				}
				if found {
					withScalar++
				}
			}
		}
		r.Ob("list-form-agrees-with-scalar", "node."+p[0], ctx.Pos(lf.Pos()), loops > 0 && loops == withScalar,
			fmt.Sprintf("%d of %d element loops of %s convert through %s: the others re-implement the conversion, so a value the scalar form accepts (an identity written with its module prefix) is refused or read differently in a list", withScalar, loops, p[0], p[1]))
	}
}

// c10BitsByPosition: a number given for a bits leaf is taken apart by the declared
// position of each bit (x & (1 << Position)): testing the lowest bit and shifting
// once per definition pairs bit N of the number with the N-th definition instead,
// which differs as soon as positions are not 0..n-1 in order.
func c10BitsByPosition(ctx *core.Ctx, r *core.Report) {
	n, ok := 0, 0
	for _, f := range scopeFuncs(ctx, "node", "value.go") {
		if !strings.HasPrefix(f.Name(), "toBits") {
			continue
		}
		core.Instrs(f, func(_ *ssa.BasicBlock, in ssa.Instruction) {
			bo, isBo := in.(*ssa.BinOp)
			if !isBo || bo.Op != token.AND {
				return
			}
			if loopBlocks(bo.Block()) == nil {
				return
			}
			// the test `x & mask != 0`
			isTest := false
			for _, ref := range *bo.Referrers() {
				if cmp, isCmp := ref.(*ssa.BinOp); isCmp && (cmp.Op == token.NEQ || cmp.Op == token.EQL) {
					isTest = true
				}
			}
			if !isTest {
				return
			}
			n++
			// the mask is 1 << (…Position…)
			for _, op := range []ssa.Value{bo.X, bo.Y} {
				if sh, isSh := core.Strip(op).(*ssa.BinOp); isSh && sh.Op == token.SHL && strings.Contains(paramFieldChain(core.Strip(sh.Y)), "Position") {
					ok++
				} else if sh, isSh := core.Strip(op).(*ssa.BinOp); isSh && sh.Op == token.SHL {
					if cv, isCv := core.Strip(sh.Y).(*ssa.Convert); isCv && strings.Contains(paramFieldChain(cv.X), "Position") {
						ok++
					}
				}
			}
		})
	}
	r.Ob("bits-by-position", "node.toBits*/mask", "node/value.go", n > 0 && ok == n,
		fmt.Sprintf("%d of %d bit tests of a numeric bits value use the mask 1<<Position of the bit definition: the others pair the N-th bit of the number with the N-th definition, so with positions {0,4,9} the number 16 converts to an empty value and 2 to the bit at position 4", ok, n))
}

// c15RequestPathsAgree: while copying a container the editor gives the request
// it sends to the destination the same path as the request it sent to the source.
// The JSON writer decides module qualification from that path's length and
// parent, and a selection made for the other side of an edit has no parent chain
// of its own: a path rebuilt from the destination makes nested members look
// top-level and prefixes them.
func c15RequestPathsAgree(ctx *core.Ctx, r *core.Report) {
	f := ctx.Method("node", "editor", "node")
	if f == nil {
		r.Fatalf("anchor node.editor.node not found")
		return
	}
	var paths []ssa.Value
	core.Instrs(f, func(_ *ssa.BasicBlock, in ssa.Instruction) {
		st, ok := in.(*ssa.Store)
		if !ok {
			return
		}
		fa, ok := st.Addr.(*ssa.FieldAddr)
		if !ok {
			return
		}
		sts, ok := core.Deref(fa.X.Type()).Underlying().(*types.Struct)
		if !ok || sts.Field(fa.Field).Name() != "Path" {
			return
		}
		if nn := core.NamedOf(fa.X.Type()); nn == nil || nn.Obj().Name() != "Request" {
			return
		}
		paths = append(paths, st.Val)
	})
	ok := len(paths) >= 2
	if ok {
		// all but the first are that first path again (loaded back from the source request)
		first := paths[0]
		for _, p := range paths[1:] {
			if p == first {
				continue
			}
			if !strings.HasSuffix(paramFieldChain(p), ".Path") || strings.HasPrefix(paramFieldChain(p), "to.") {
				ok = false
			}
			if _, isAlloc := core.Strip(p).(*ssa.Alloc); isAlloc {
				ok = false
			}
		}
	}
	r.Ob("request-paths-agree", "node.editor.node/destination-request-path", ctx.Pos(f.Pos()), ok,
		"the request the editor sends to the destination node carries a path built from the destination selection instead of the path of the source request: writers that derive names from the path (the JSON writer's module qualification looks at its length and parent) see nested members as top-level and prefix them")
}

// c16OperandReadUnfiltered: Selection.Get — how the operand of a when/where/filter
// expression is read — asks for the leaf with a bare request (selection and leaf,
// no path, no base). The field filters (fields=, fc.xfields) match a request's path
// against their selector relative to its base: a path without a base is matched
// as an absolute one, the operand is hidden and every comparison comes out false.
func c16OperandReadUnfiltered(ctx *core.Ctx, r *core.Report) {
	f := ctx.Method("node", "Selection", "Get")
	if f == nil {
		r.Fatalf("anchor node.Selection.Get not found")
		return
	}
	var set []string
	core.Instrs(f, func(_ *ssa.BasicBlock, in ssa.Instruction) {
		st, ok := in.(*ssa.Store)
		if !ok {
			return
		}
		fa, ok := st.Addr.(*ssa.FieldAddr)
		if !ok {
			return
		}
		if nn := core.NamedOf(fa.X.Type()); nn == nil || nn.Obj().Name() != "Request" {
			return
		}
		name := core.Deref(fa.X.Type()).Underlying().(*types.Struct).Field(fa.Field).Name()
		if name == "Path" || name == "Base" {
			set = append(set, name)
		}
	})
	hasPath, hasBase := false, false
	for _, s := range set {
		if s == "Path" {
			hasPath = true
		}
		if s == "Base" {
			hasBase = true
		}
	}
	r.Ob("operand-read-unfiltered", "node.Selection.Get/request", ctx.Pos(f.Pos()), hasPath == hasBase,
		"Selection.Get builds its field request with a path but no base (or the reverse): a fields= filter on the same request then matches the operand's absolute path against its selector, hides the operand, and every when/where comparison is false")
}

// c13RowNumbersNonNegative: the list readers index their rows with the row number
// of the request and test its upper bound only; fc.range must therefore never
// yield a negative row. NewListRange parses each number from a piece of the text
// that cannot hold a '-' (an element of strings.Split(rows, "-")), or tests the
// parsed number for < 0.
func c13RowNumbersNonNegative(ctx *core.Ctx, r *core.Report) {
	f := ctx.Fn("node", "NewListRange")
	if f == nil {
		r.Fatalf("anchor node.NewListRange not found")
		return
	}
	n := 0
	for _, c := range core.CallSites(f) {
		cal := core.StaticCallee(c)
		if cal == nil || core.FnName(cal) != "strconv.ParseInt" {
			continue
		}
		n++
		ok := false
		// the text is an element of a split on "-"
		if u, isU := core.Strip(c.Common().Args[0]).(*ssa.UnOp); isU {
			if ia, isIa := u.X.(*ssa.IndexAddr); isIa {
				if sp, isCall := core.Strip(ia.X).(*ssa.Call); isCall {
					if sc := core.StaticCallee(sp); sc != nil && core.FnName(sc) == "strings.Split" {
						if sep, isC := core.ConstString(sp.Common().Args[1]); isC && sep == "-" {
							ok = true
						}
					}
				}
			}
		}
		// or the number is compared with 0 afterwards
		if !ok && c.Value() != nil {
			for _, ref := range *c.Value().Referrers() {
				if ex, isEx := ref.(*ssa.Extract); isEx && ex.Index == 0 && ex.Referrers() != nil {
					for _, r2 := range *ex.Referrers() {
						if bo, isBo := r2.(*ssa.BinOp); isBo && (bo.Op == token.LSS || bo.Op == token.GEQ) {
							if k, isC := core.ConstInt(bo.Y); isC && k == 0 {
								ok = true
							}
						}
					}
				}
			}
		}
		r.Ob("row-numbers-non-negative", fmt.Sprintf("node.NewListRange/ParseInt#%d", n), ctx.Pos(c.Pos()), ok,
			"a row number of fc.range is parsed from text that may begin with '-' and is not tested for < 0: `list!-1-` yields start row -1, and the list readers (which test the upper bound only) index out of range")
	}
	r.Floor("row-numbers-non-negative", n, 2)
}

// c13SourceChooseCannotFail: the iterator over a container's members
// (containerMetaList.lookAhead) has no error channel and panics when a node's
// Choose fails — a recorded known finding. What keeps request content from reaching
// that panic is that the Choose of the library's own edit sources (XML reader, JSON
// reader, reflection nodes) never returns an error: every return has a nil error.
func c13SourceChooseCannotFail(ctx *core.Ctx, r *core.Report) {
	var fns []*ssa.Function
	if f := ctx.Method("nodeutil", "XmlNode", "Choose"); f != nil {
		fns = append(fns, f)
	}
	for _, outer := range []*ssa.Function{ctx.Fn("nodeutil", "JsonContainerReader"), ctx.Method("nodeutil", "Reflect", "childMap")} {
		if outer == nil {
			continue
		}
		for _, clo := range outer.AnonFuncs {
			ps := clo.Signature.Params()
			if ps.Len() == 2 && strings.HasSuffix(core.TypeName(ps.At(1).Type()), "meta.Choice") {
				fns = append(fns, clo)
			}
		}
	}
	n := 0
	for _, f := range fns {
		for _, ret := range core.Returns(f) {
			n++
			ops := core.RetOperands(ret)
			r.Ob("source-choose-cannot-fail", fmt.Sprintf("%s/return#%d", core.FnName(f), n), ctx.Pos(ret.Pos()), core.IsNilConst(ops[len(ops)-1]),
				"the Choose of an edit source returns an error: containerMetaList.lookAhead (which has no error channel — known finding) turns it into a panic, so a document holding nodes of two cases crashes the request instead of failing it")
		}
	}
	r.Floor("source-choose-cannot-fail", n, 4)
}
