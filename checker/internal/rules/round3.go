package rules

import (
	"fmt"
	"go/token"
	"go/types"
	"strings"

	"golang.org/x/tools/go/ssa"

	"verif/checker/internal/core"
)

// c01AugmentUsesExpandedFirst (phase order inside resolver.module): for every
// module-level augment the uses written in its body are expanded
// (addDefinitions(a, a.popDataDefinitions())) before the augment is applied to
// its target — for a choice target each node then becomes a case of its own;
// an unexpanded uses would be wrapped whole into one case named after the grouping.
func c01AugmentUsesExpandedFirst(ctx *core.Ctx, r *core.Report) {
	f := ctx.Method("meta", "resolver", "module")
	ea := ctx.Method("meta", "resolver", "expandAugment")
	ad := ctx.Method("meta", "resolver", "addDefinitions")
	if f == nil || ea == nil || ad == nil {
		r.Fatalf("anchors meta.resolver.module / expandAugment / addDefinitions not found")
		return
	}
	n := 0
	for _, c := range callsStatic(f, ea, false) {
		n++
		ok := false
		lb := loopBlocks(c.Block())
		for _, a := range callsStatic(f, ad, false) {
			// in the same loop, before it, on the same augment
			if lb != nil && lb[a.Block()] && instrDominates(a.(ssa.Instruction), c.(ssa.Instruction)) {
				if originOf(a.Common().Args[1], 0) == originOf(c.Common().Args[1], 0) || paramFieldChain(a.Common().Args[1]) == paramFieldChain(c.Common().Args[1]) {
					ok = true
				}
			}
		}
		r.Ob("phase-order", "meta.resolver.module/augment-body-uses-before-expandAugment", ctx.Pos(c.Pos()), ok,
			"a module-level augment is applied without the uses in its own body having been expanded first: augmenting a choice with `uses g` then yields one implied case named g holding all of g's nodes instead of one case per node — the same tree written inline compiles differently")
	}
	r.Floor("phase-order(augment loop)", n, 1)
}

// c02AbsolutePathFromRoot: an absolute schema path (leafref path, augment or
// deviation target) starts at the module whose tree the node is in — meta.Find
// takes RootModule of the context node, not the module the node was written in:
// a leaf that came in through an imported grouping lives in the using module.
func c02AbsolutePathFromRoot(ctx *core.Ctx, r *core.Report) {
	f := ctx.Fn("meta", "Find")
	if f == nil {
		r.Fatalf("anchor meta.Find not found")
		return
	}
	cn := calleeNames(f)
	r.Ob("absolute-path-from-root", "meta.Find", ctx.Pos(f.Pos()), cn["meta.RootModule"] >= 1 && cn["meta.OriginalModule"] == 0,
		fmt.Sprintf("meta.Find resolves an absolute path from something other than RootModule of the context node (RootModule calls: %d, OriginalModule calls: %d): for a leaf written in an imported grouping `/x/id` is looked up in the imported module's own, never compiled tree", cn["meta.RootModule"], cn["meta.OriginalModule"]))
}

// c06DecoderExact: the canonical decoder of string tokens (parser.tokenString)
// returns the text between the quotes as it is — no trimming, no case mapping:
// a blank at the end of a double-quoted part belongs to the string ("a. " + "b").
func c06DecoderExact(ctx *core.Ctx, r *core.Report) {
	for _, name := range []string{"tokenString", "trimQuotes"} {
		f := ctx.Fn("parser", name)
		if f == nil {
			r.Fatalf("anchor parser.%s not found", name)
			continue
		}
		bad := ""
		for _, c := range core.CallSites(f) {
			cal := core.StaticCallee(c)
			if cal == nil || cal.Pkg == nil || cal.Pkg.Pkg.Path() != "strings" {
				continue
			}
			switch cal.Name() {
			case "TrimSpace", "Trim", "TrimRight", "TrimLeft", "TrimFunc", "TrimRightFunc", "TrimLeftFunc", "ToLower", "ToUpper", "Fields":
				// blanks around the token (outside the quotes) may go; what is cut out from
				// between the quotes (a re-slice) may not be touched again
				if _, isSlice := core.Strip(c.Common().Args[0]).(*ssa.Slice); isSlice {
					bad = cal.Name()
				}
			}
		}
		r.Ob("decode-once", "parser."+name+"/exact", ctx.Pos(f.Pos()), bad == "",
			"the decoder of quoted strings applies strings."+bad+" to the text: blanks at the edge of a quoted part belong to the string, so concatenated parts (\"a. \" + \"b\") and free text are silently altered")
	}
}

// c10DecodedLengthHonoured: a call that decodes into a buffer and reports how many
// bytes it wrote ((*base64.Encoding).Decode, hex.Decode, io.ReadFull …) has that
// count used: returning the whole buffer of DecodedLen bytes appends zero bytes to
// every value whose encoded form is padded.
func c10DecodedLengthHonoured(ctx *core.Ctx, r *core.Report) {
	n := 0
	for _, f := range append(scopeFuncs(ctx, "val"), scopeFuncs(ctx, "node", "value.go")...) {
		for _, c := range core.CallSites(f) {
			cal := core.StaticCallee(c)
			if cal == nil || cal.Pkg == nil {
				continue
			}
			p := cal.Pkg.Pkg.Path()
			if !(strings.HasPrefix(p, "encoding/") && cal.Name() == "Decode" && cal.Signature.Results().Len() == 2) {
				continue
			}
			n++
			used := false
			if v := c.Value(); v != nil && v.Referrers() != nil {
				for _, ref := range *v.Referrers() {
					if ex, ok := ref.(*ssa.Extract); ok && ex.Index == 0 && ex.Referrers() != nil {
						for _, r2 := range *ex.Referrers() {
							if _, dbg := r2.(*ssa.DebugRef); !dbg {
								used = true
							}
						}
					}
				}
			}
			r.Ob("decoded-length-honoured", core.FnName(f)+"/"+core.CalleeName(c), ctx.Pos(c.Pos()), used,
				"the number of bytes the decoder wrote is ignored: the buffer sized for the maximum decoded length is handed on whole, so values whose text form is padded (binary data of a length that is not a multiple of three) read back with zero bytes appended")
		}
	}
	r.Count("instances:decoded-length-honoured", n)
}

// c17LessComparesWholeKey: the comparator that orders the key index of slice-backed
// lists hands the whole key tuples of the two entries to val.CompareVals — the
// binary search uses the whole key, so an index ordered by a part of the key
// (the first leaf) is not ordered the way the search assumes.
func c17LessComparesWholeKey(ctx *core.Ctx, r *core.Report) {
	less := ctx.Method("nodeutil", "sliceSorter", "Less")
	cv := ctx.Fn("val", "CompareVals")
	if less == nil || cv == nil {
		r.Fatalf("anchors nodeutil.sliceSorter.Less / val.CompareVals not found")
		return
	}
	for _, c := range callsStatic(less, cv, false) {
		ok := true
		for _, a := range c.Common().Args {
			if !strings.HasSuffix(paramFieldChain(a), ".key") {
				ok = false
			}
			if _, isSlice := core.Strip(a).(*ssa.Slice); isSlice {
				ok = false
			}
		}
		r.Ob("sort-search-one-comparator", "nodeutil.sliceSorter.Less/whole-key", ctx.Pos(c.Pos()), ok,
			"Less orders the key index by a part of the key (a re-sliced tuple) while the search compares whole keys: entries that share the leading key leaf are not found, cannot be deleted, and an upsert of an existing key appends a twin")
	}
}

// c14TokenizerSetsAgree: the if-feature tokeniser ends a token at certain
// characters (ifFeatureEval.next) and skips blanks between tokens (eatws). Every
// character that ends a token is either a bracket — a token of its own — or is
// skipped by eatws; a character that ends a token and is not skipped (tab, CR, LF)
// yields an empty token without moving on, and the evaluation never ends.
func c14TokenizerSetsAgree(ctx *core.Ctx, r *core.Report) {
	next := ctx.Method("meta", "ifFeatureEval", "next")
	eat := ctx.Method("meta", "ifFeatureEval", "eatws")
	if next == nil || eat == nil {
		r.Fatalf("anchors meta.ifFeatureEval.next / eatws not found")
		return
	}
	consts := func(f *ssa.Function) map[int64]bool {
		out := map[int64]bool{}
		core.Instrs(f, func(_ *ssa.BasicBlock, in ssa.Instruction) {
			if bo, ok := in.(*ssa.BinOp); ok && (bo.Op == token.EQL || bo.Op == token.NEQ) {
				if k, isC := core.ConstInt(bo.Y); isC {
					out[k] = true
				}
			}
		})
		return out
	}
	ends, skipped := consts(next), consts(eat)
	var bad []string
	for k := range ends {
		if k == '(' || k == ')' || skipped[k] {
			continue
		}
		bad = append(bad, fmt.Sprintf("%q", rune(k)))
	}
	r.Ob("lexer-cycle-advances", "meta.ifFeatureEval.next/token-ends-are-skipped", ctx.Pos(next.Pos()), len(bad) == 0 && len(ends) > 0,
		"the if-feature tokeniser ends a token at "+strings.Join(bad, ", ")+", which eatws does not skip: next() then returns an empty token without advancing and the evaluator loops for ever (an if-feature expression wrapped over two lines never finishes loading)")
}

// c13LiteralScanStopsAtEnd: every loop of the xpath lexer that reads characters
// has a way out on end of input (a comparison of the character read with eof on a
// path that leaves the loop).
func c13LiteralScanStopsAtEnd(ctx *core.Ctx, r *core.Report) {
	next := ctx.Method("xpath", "lexer", "next")
	if next == nil {
		r.Fatalf("anchor xpath.lexer.next not found")
		return
	}
	eofV, hasEof := constIntOf(ctx, "xpath", "eof")
	n := 0
	for _, f := range scopeFuncs(ctx, "xpath", "lexer.go") {
		for _, c := range callsStatic(f, next, false) {
			body, _ := innerLoopOf(c.Block())
			if body == nil {
				continue
			}
			n++
			// some comparison of this character with eof (or a class test that eof fails) leaves the loop
			exits := false
			var follow func(v ssa.Value, d int)
			follow = func(v ssa.Value, d int) {
				if v == nil || v.Referrers() == nil || d > 3 {
					return
				}
				for _, ref := range *v.Referrers() {
					switch x := ref.(type) {
					case *ssa.BinOp:
						if k, isC := core.ConstInt(x.Y); isC && hasEof && k == eofV {
							exits = true
						}
					case *ssa.Call:
						// unicode.IsDigit(r), strings.IndexRune(valid, r): eof is not in any class
						if cal := x.Common().StaticCallee(); cal != nil && cal.Pkg != nil && (cal.Pkg.Pkg.Path() == "unicode" || cal.Pkg.Pkg.Path() == "strings") {
							exits = true
						}
					case *ssa.Phi:
						follow(x, d+1)
					case *ssa.Convert:
						follow(x, d+1)
					}
				}
			}
			follow(c.Value(), 0)
			r.Ob("lexer-cycle-advances", fmt.Sprintf("%s/reads-until-eof#%d", core.FnName(f), n), ctx.Pos(c.Pos()), exits,
				"a loop of the xpath lexer reads characters without ever comparing what it read with end of input: an unterminated literal (where=name='robin) is scanned for ever")
		}
	}
	r.Floor("lexer-cycle-advances(xpath read loops)", n, 2)
	_ = types.Typ
}
