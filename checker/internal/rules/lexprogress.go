package rules

import (
	"go/constant"
	"go/token"
	"strconv"
	"strings"

	"golang.org/x/tools/go/ssa"

	"verif/checker/internal/core"
)

// lexerCycleAdvances: every cycle of every loop in the hand-written lexers
// contains a step that moves the input position forward: a call of the
// lexer's next(), an increment of the position by a positive constant, or the
// true-branch of an accept…() call (which only returns true after consuming).
// Counting and range loops are bounded by construction. A cycle without such a
// step re-examines the same input for ever.
func lexerCycleAdvances(ctx *core.Ctx, r *core.Report, pkg string, reach *core.Reach, triage map[string]string, floor int) {
	n := 0
	for _, f := range scopeFuncs(ctx, pkg, "lexer.go") {
		if len(f.Blocks) == 0 || (reach != nil && !reach.Set[f]) {
			continue
		}
		// loop headers
		ord := 0
		for _, h := range f.Blocks {
			body := map[*ssa.BasicBlock]bool{}
			for _, p := range h.Preds {
				if h.Dominates(p) {
					body[h] = true
					var up func(x *ssa.BasicBlock)
					up = func(x *ssa.BasicBlock) {
						if body[x] {
							return
						}
						body[x] = true
						for _, q := range x.Preds {
							up(q)
						}
					}
					up(p)
				}
			}
			if len(body) == 0 {
				continue
			}
			n++
			ord++
			key := core.FnName(f) + "/loop" + strconv.Itoa(ord)
			if boundedLoop(h, body) {
				r.Ob("lexer-cycle-advances", key, ctx.Pos(firstPos(h)), true, "counting or range loop")
				continue
			}
			// walk every path header → header keeping one bit: has the position
			// moved forward since the last backup()? backup() undoes the one
			// next() before it, so what was gained before it does not count.
			type st struct {
				b    *ssa.BasicBlock
				adv  bool
				from *ssa.BasicBlock
			}
			acceptTrue := func(b *ssa.BasicBlock) bool {
				for _, pc := range core.PathConds(b) {
					if pc.If.Block() != b.Idom() || !body[pc.If.Block()] {
						continue
					}
					if c, ok := pc.V.(*ssa.Call); ok && pc.True {
						if cal := core.StaticCallee(c); cal != nil && strings.HasPrefix(cal.Name(), "accept") {
							return true
						}
					}
				}
				return false
			}
			apply := func(b *ssa.BasicBlock, adv bool) bool {
				if acceptTrue(b) {
					adv = true
				}
				for _, in := range b.Instrs {
					switch blockStep(in) {
					case +1:
						adv = true
					case -1:
						adv = false
					}
				}
				return adv
			}
			stuck := false
			seen := map[st]bool{}
			var walk func(b *ssa.BasicBlock, adv bool, from *ssa.BasicBlock)
			walk = func(b *ssa.BasicBlock, adv bool, from *ssa.BasicBlock) {
				adv = apply(b, adv)
				only := -1
				// `if flag` on a flag that is a constant along the edge we came by
				if ifi, ok := b.Instrs[len(b.Instrs)-1].(*ssa.If); ok && from != nil {
					if ph, ok := ifi.Cond.(*ssa.Phi); ok && ph.Block() == b {
						for pi, p := range b.Preds {
							if p == from {
								if c, ok := ph.Edges[pi].(*ssa.Const); ok && c.Value != nil {
									if constant.BoolVal(c.Value) {
										only = 0
									} else {
										only = 1
									}
								}
							}
						}
					}
				}
				for i, s := range b.Succs {
					if !body[s] || (only >= 0 && i != only) {
						continue
					}
					a := adv
					// the true edge of `if l.accept…()` is itself a step forward
					if ifi, ok := b.Instrs[len(b.Instrs)-1].(*ssa.If); ok && i == 0 {
						if c, ok := ifi.Cond.(*ssa.Call); ok {
							if cal := core.StaticCallee(c); cal != nil && strings.HasPrefix(cal.Name(), "accept") {
								a = true
							}
						}
					}
					if s == h {
						if !a {
							stuck = true
						}
						continue
					}
					if k := (st{s, a, b}); !seen[k] {
						seen[k] = true
						walk(s, a, b)
					}
				}
			}
			walk(h, false, nil)
			if stuck {
				if reason, ok := triage[key]; ok {
					r.Ob("lexer-cycle-advances", key, ctx.Pos(firstPos(h)), true, "triaged: "+reason)
					continue
				}
			}
			r.Ob("lexer-cycle-advances", key, ctx.Pos(firstPos(h)), !stuck,
				"the loop has a cycle on which the input position is not moved by a step that is certain to advance (next(), a positive constant, a successful accept): on some input it looks at the same text for ever")
		}
	}
	r.Floor("lexer-cycle-advances", n, floor)
}

func firstPos(b *ssa.BasicBlock) token.Pos {
	for _, in := range b.Instrs {
		if in.Pos().IsValid() {
			return in.Pos()
		}
	}
	for _, s := range b.Succs {
		for _, in := range s.Instrs {
			if in.Pos().IsValid() {
				return in.Pos()
			}
		}
	}
	return b.Parent().Pos()
}

// blockStep: +1 when the instruction moves the position forward for certain
// (a call of next(), pos += positive constant), -1 for backup(), 0 otherwise.
func blockStep(in ssa.Instruction) int {
	switch x := in.(type) {
	case *ssa.Call:
		if cal := core.StaticCallee(x); cal != nil && cal.Signature.Recv() != nil {
			switch cal.Name() {
			case "next":
				return +1
			case "backup":
				return -1
			}
		}
	case *ssa.Store:
		fa, ok := x.Addr.(*ssa.FieldAddr)
		if !ok {
			return 0
		}
		bo, ok := x.Val.(*ssa.BinOp)
		if !ok || bo.Op != token.ADD {
			return 0
		}
		u, ok := bo.X.(*ssa.UnOp)
		if !ok {
			return 0
		}
		fa2, ok := u.X.(*ssa.FieldAddr)
		if !ok || fa2.Field != fa.Field || fa2.X != fa.X {
			return 0
		}
		if k, ok := core.ConstInt(bo.Y); ok && k > 0 {
			return +1
		}
	}
	return 0
}

// boundedLoop: a range loop, or a loop whose exit test compares an induction
// variable (phi at the header stepped by a constant) with a bound.
func boundedLoop(h *ssa.BasicBlock, body map[*ssa.BasicBlock]bool) bool {
	for b := range body {
		for _, in := range b.Instrs {
			if _, ok := in.(*ssa.Next); ok {
				return true
			}
		}
	}
	if strings.HasPrefix(h.Comment, "rangeindex") {
		return true
	}
	for _, in := range h.Instrs {
		ph, ok := in.(*ssa.Phi)
		if !ok {
			continue
		}
		stepped := false
		for i, p := range h.Preds {
			if !h.Dominates(p) {
				continue
			}
			if bo, ok := ph.Edges[i].(*ssa.BinOp); ok && (bo.Op == token.ADD || bo.Op == token.SUB) && bo.X == ssa.Value(ph) {
				if _, isC := bo.Y.(*ssa.Const); isC {
					stepped = true
				}
			}
			// a ring index: (i + c) % n
			if bo, ok := ph.Edges[i].(*ssa.BinOp); ok && bo.Op == token.REM {
				if in, ok := bo.X.(*ssa.BinOp); ok && in.Op == token.ADD && in.X == ssa.Value(ph) {
					if _, isC := in.Y.(*ssa.Const); isC {
						stepped = true
					}
				}
			}
		}
		if !stepped {
			continue
		}
		// the phi (or phi±c) is compared in a loop block whose If leaves the loop
		for b := range body {
			ifi, ok := b.Instrs[len(b.Instrs)-1].(*ssa.If)
			if !ok {
				continue
			}
			leaves := !body[b.Succs[0]] || !body[b.Succs[1]]
			if !leaves {
				continue
			}
			if c, ok := ifi.Cond.(*ssa.BinOp); ok && (core.RelOp(c.Op) || c.Op == token.NEQ || c.Op == token.EQL) {
				for _, side := range []ssa.Value{c.X, c.Y} {
					if side == ssa.Value(ph) {
						return true
					}
					if bo, ok := side.(*ssa.BinOp); ok && bo.X == ssa.Value(ph) {
						return true
					}
				}
			}
		}
	}
	return false
}
