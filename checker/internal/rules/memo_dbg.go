package rules

import (
	"os"

	"verif/checker/internal/core"
)

func memoDebug(ctx *core.Ctx, r *core.Report) {
	if os.Getenv("VERIF_DEBUG_MEMO") == "" {
		return
	}
	for _, s := range findMemoSites(ctx.RepoFuncs()) {
		r.Infof("memo site %s %s.%s at %s", core.FnName(s.fn), s.owner.Obj().Name(), s.field, ctx.Pos(s.lookup.Pos()))
	}
}

func textCmpDebug(ctx *core.Ctx, r *core.Report) {
	if os.Getenv("VERIF_DEBUG_MEMO") == "" {
		return
	}
	for _, bo := range valueTextComparisons(ctx, ctx.RepoFuncs()) {
		r.Infof("value-text comparison in %s at %s: %s", core.FnName(bo.Parent()), ctx.Pos(bo.Pos()), bo.String())
	}
}
