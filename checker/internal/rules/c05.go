package rules

import (
	"fmt"
	"go/token"
	"go/types"
	"strings"

	"golang.org/x/tools/go/ssa"

	"verif/checker/internal/core"
)

// ---------------------------------------------------------------------------
// C05 — no write stores a value outside the leaf's effective type.
// ---------------------------------------------------------------------------

func C05(ctx *core.Ctx, r *core.Report) {
	r.Explanation = "Where and how restrictions are enforced, decided on all paths: in Selection.set (and get) the field pre-constraints are evaluated before Node.Field and their veto/error edge cannot reach it; Node.Field is invoked in package node only from those two functions; the field constraint is installed on every path of Browser.baseConstraints unless constraints are disabled, on the split side of an edit, and every Selection built in package node inherits its Constraints; loops over restriction levels (ranges, lengths of the typedef chain) never accept inside the loop; the checker's dispatch covers string, string-list and numeric formats; no crash site is reachable from the restriction checker. Range bounds are compared on exact numbers (the integer-width rule of C10 over meta.RangeNumber, five conversions triaged), and an error raised for one element of a list value is not overwritten by a later element (iteration callbacks and loops). Not decided: that a given value is accepted or rejected correctly; enum/bits/identityref membership (inside NewValue)."
	nodeI := ctx.Named("node", "Node")
	set := ctx.Method("node", "Selection", "set")
	get := ctx.Method("node", "Selection", "get")
	pre := ctx.Method("node", "Constraints", "CheckFieldPreConstraints")
	if nodeI == nil || set == nil || get == nil || pre == nil {
		r.Fatalf("anchors node.Node / Selection.set / Selection.get / Constraints.CheckFieldPreConstraints not found")
		return
	}
	// 1. checks run before the write, on every write path
	for _, f := range []*ssa.Function{set, get} {
		name := core.FnName(f)
		pcs := callsStatic(f, pre, false)
		fcs := invokesOf(f, false, nodeI, "Field")
		if len(pcs) != 1 || len(fcs) != 1 {
			r.Ob("checks-before-write", name, ctx.Pos(f.Pos()), false, fmt.Sprintf("expected one CheckFieldPreConstraints and one Node.Field call, found %d/%d", len(pcs), len(fcs)))
			continue
		}
		pc, fc := pcs[0], fcs[0]
		ok, msg := true, ""
		if !instrDominates(pc, fc) {
			ok, msg = false, "Node.Field is reachable without the field pre-constraints having run"
		} else {
			// the branch on (proceed, err) right after the check: its veto side must not reach Field
			var ifi *ssa.If
			for b := pc.Block(); b != nil && ifi == nil; {
				if x, isIf := b.Instrs[len(b.Instrs)-1].(*ssa.If); isIf {
					ifi = x
				} else if len(b.Succs) == 1 {
					b = b.Succs[0]
				} else {
					b = nil
				}
			}
			if ifi == nil || !dependsOn(ifi.Cond, pc.Value(), 0) {
				ok, msg = false, "the result of the pre-constraints is not tested before Node.Field"
			} else {
				// collect the blocks of the short-circuit `!proceed || err != nil` test
				veto := 0
				var walk func(b *ssa.BasicBlock, depth int)
				seen := map[*ssa.BasicBlock]bool{}
				walk = func(b *ssa.BasicBlock, depth int) {
					if seen[b] || depth > 3 {
						return
					}
					seen[b] = true
					x, isIf := b.Instrs[len(b.Instrs)-1].(*ssa.If)
					if !isIf || !dependsOn(x.Cond, pc.Value(), 0) {
						return
					}
					for _, s := range b.Succs {
						if !reachableAvoiding(s, fc.Block(), nil) {
							veto++
						} else {
							walk(s, depth+1)
						}
					}
				}
				walk(ifi.Block(), 0)
				if veto == 0 {
					ok, msg = false, "no outcome of the pre-constraints keeps Node.Field from being called: a vetoed or failed check still writes"
				}
				if veto < 2 {
					ok, msg = false, fmt.Sprintf("only %d of the two veto outcomes (!proceed, err != nil) bypass Node.Field", veto)
				}
			}
		}
		r.Ob("checks-before-write", name, ctx.Pos(fc.Pos()), ok, msg)
	}
	// who may call Node.Field in package node
	n := 0
	for _, f := range ctx.RepoFuncs() {
		if core.FnPkgPath(f) != core.Full("node") {
			continue
		}
		for _, c := range invokesOf(f, false, nodeI, "Field") {
			n++
			ok := f == set || f == get || (f.Signature.Recv() != nil && f.Name() == "Field")
			r.Ob("who-may-write-field", core.FnName(f), ctx.Pos(c.Pos()), ok, "Node.Field is invoked outside Selection.set/get: a leaf can be read or written without its constraints")
		}
	}
	r.Floor("who-may-write-field", n, 2)

	c05Installed(ctx, r)
	c05Levels(ctx, r)
	c05FormatCoverage(ctx, r)
	c05NoCrash(ctx, r)
	c05MinMax(ctx, r)
	c05BoundsExact(ctx, r)
	c05ListElementsIndividually(ctx, r)
	c05NumericClassNormalised(ctx, r)
	readerErrorsSurface(ctx, r)
	{
		// a value reaches the checker only after conversion: a conversion that wraps puts a number inside the range that was outside it (C10's rule)
		sub := core.NewReport("C10", r.Tier, r.Root, r.Seed)
		C10(ctx, sub)
		r.Borrow(sub, "lossy-convert")
	}
	c05PatternsNotWidened(ctx, r)
	postConstraintsAlwaysRun(ctx, r)
	// the type check of written values is one of the registered constraints: it must survive
	// every later registration and be inherited by every child set
	c07Accumulate(ctx, r)
	// the comparison of a value with a range bound is made on exact numbers
	var rn []*ssa.Function
	for _, f := range ctx.RepoFuncs() {
		if core.FnPkgPath(f) == core.Full("meta") && f.Signature.Recv() != nil && core.TypeName(core.Deref(f.Signature.Recv().Type())) == "meta.RangeNumber" {
			rn = append(rn, f)
		}
		if f.Parent() != nil && f.Parent().Signature.Recv() != nil && core.TypeName(core.Deref(f.Parent().Signature.Recv().Type())) == "meta.RangeNumber" {
			rn = append(rn, f)
		}
	}
	nc, _ := lossyConversions(ctx, r, rn, c05ConvTriage)
	r.Floor("lossy-convert(RangeNumber)", nc, 4)
	fcs := scopeFuncs(ctx, "node", "field_constraints.go")
	capturedErrorKept(ctx, r, append(fcs, rn...), 1)
	loopErrorTested(ctx, r, fcs, 2)
}

// c05Installed: the field constraint is installed.
func c05Installed(ctx *core.Ctx, r *core.Report) {
	add := ctx.Method("node", "Constraints", "AddConstraint")
	fcT := ctx.Named("node", "fieldConstraints")
	whenT := ctx.Named("node", "CheckWhen")
	if add == nil || fcT == nil || whenT == nil {
		r.Fatalf("anchors Constraints.AddConstraint / fieldConstraints / CheckWhen not found")
		return
	}
	installs := func(f *ssa.Function, t *types.Named) []ssa.CallInstruction {
		var out []ssa.CallInstruction
		for _, c := range callsStatic(f, add, false) {
			a := c.Common().Args
			if mi, ok := a[len(a)-1].(*ssa.MakeInterface); ok && core.NamedOf(mi.X.Type()) == t {
				out = append(out, c)
			}
		}
		return out
	}
	disableOnly := func(b *ssa.BasicBlock) (bool, string) {
		// the only branch conditions on the way are tests of Browser.DisableConstraints (or sel.Browser == nil)
		for _, pc := range core.PathConds(b) {
			if bo, ok := pc.V.(*ssa.BinOp); ok {
				if _, isParam := bo.X.(*ssa.Parameter); isParam && core.IsNilConst(bo.Y) {
					continue // receiver nil guard
				}
			}
			txt := condFieldName(pc.V)
			if txt != "DisableConstraints" && txt != "Browser" {
				return false, "the installation depends on a condition other than DisableConstraints"
			}
			if txt == "DisableConstraints" && pc.True && !isNegation(pc.V) {
				return false, "the field constraint is installed only when constraints are DISABLED"
			}
		}
		return true, ""
	}
	for _, spec := range []string{"node.Browser.baseConstraints", "node.Selection.Split"} {
		f := ctx.Lookup(spec)
		if f == nil {
			r.Fatalf("anchor %s not found", spec)
			continue
		}
		ins := installs(f, fcT)
		ok, msg := len(ins) == 1, ""
		if !ok {
			msg = fmt.Sprintf("%d installations of fieldConstraints{} found, expected one: values written through this side are not checked against the leaf type", len(ins))
		} else {
			ok, msg = disableOnly(ins[0].Block())
		}
		r.Ob("field-constraint-installed", spec, ctx.Pos(f.Pos()), ok, msg)
	}
	if f := ctx.Lookup("node.Browser.baseConstraints"); f != nil {
		ins := installs(f, whenT)
		ok := len(ins) == 1 && len(core.PathConds(ins[0].Block())) == 0
		r.Ob("field-constraint-installed", "node.Browser.baseConstraints/when", ctx.Pos(f.Pos()), ok, "CheckWhen must be installed unconditionally")
	}
	// every Selection literal built in package node gets its Constraints from a parent or from baseConstraints
	selT := ctx.Named("node", "Selection")
	base := ctx.Method("node", "Browser", "baseConstraints")
	n := 0
	for _, f := range ctx.RepoFuncs() {
		if core.FnPkgPath(f) != core.Full("node") {
			continue
		}
		core.Instrs(f, func(_ *ssa.BasicBlock, in ssa.Instruction) {
			al, ok := in.(*ssa.Alloc)
			if !ok || core.NamedOf(al.Type()) != selT || al.Comment != "complit" {
				return
			}
			n++
			fs := fieldStores(al, selT.Underlying().(*types.Struct))
			v, has := fs["Constraints"]
			okc := false
			if has {
				v = core.Strip(v)
				if u, isLoad := v.(*ssa.UnOp); isLoad && u.Op == token.MUL {
					if fa, isFa := u.X.(*ssa.FieldAddr); isFa && core.NamedOf(fa.X.Type()) == selT {
						okc = true // inherited from another selection
					}
				}
				if c, isCall := v.(*ssa.Call); isCall && core.IsCallTo(c, base) {
					okc = true
				}
			}
			r.Ob("selection-inherits-constraints", core.FnName(f), ctx.Pos(al.Pos()), okc,
				"a Selection is built without Constraints taken from its parent or from Browser.baseConstraints: writes through it skip the type checks")
		})
	}
	r.Floor("selection-inherits-constraints", n, 5)
}

// condFieldName: the struct field a condition tests (through !x, x == nil, loads).
func condFieldName(v ssa.Value) string {
	for depth := 0; depth < 6; depth++ {
		switch x := v.(type) {
		case *ssa.UnOp:
			v = x.X
		case *ssa.BinOp:
			if _, isC := x.Y.(*ssa.Const); isC {
				v = x.X
			} else if _, isC := x.X.(*ssa.Const); isC {
				v = x.Y
			} else {
				return ""
			}
		case *ssa.Convert:
			v = x.X
		case *ssa.ChangeType:
			v = x.X
		case *ssa.FieldAddr:
			if st, ok := core.Deref(x.X.Type()).Underlying().(*types.Struct); ok {
				return st.Field(x.Field).Name()
			}
			return ""
		case *ssa.Phi:
			if len(x.Edges) > 0 {
				v = x.Edges[len(x.Edges)-1]
			} else {
				return ""
			}
		default:
			return ""
		}
	}
	return ""
}

func isNegation(v ssa.Value) bool {
	u, ok := v.(*ssa.UnOp)
	return ok && u.Op == token.NOT
}

// c05Levels: loops over restriction levels never accept inside the loop.
func c05Levels(ctx *core.Ctx, r *core.Report) {
	rangeCheck := ctx.Method("meta", "Range", "CheckValue")
	patCheck := ctx.Method("meta", "Pattern", "CheckValue")
	if rangeCheck == nil || patCheck == nil {
		r.Fatalf("anchors meta.Range.CheckValue / meta.Pattern.CheckValue not found")
		return
	}
	n := 0
	for _, f := range ctx.RepoFuncs() {
		if core.FnPkgPath(f) != core.Full("node") {
			continue
		}
		for _, callee := range []*ssa.Function{rangeCheck, patCheck} {
			for _, c := range callsStatic(f, callee, false) {
				loop := loopBlocks(c.Block())
				if loop == nil {
					continue
				}
				n++
				// an accepting return directly from the loop: a Return whose error operand is nil
				// and whose block is entered only from loop blocks on an edge that depends on the check
				accepts := false
				for _, ret := range core.Returns(f) {
					ops := core.RetOperands(ret)
					if len(ops) == 0 || !core.IsNilConst(ops[len(ops)-1]) {
						continue
					}
					for _, p := range ret.Block().Preds {
						if !loop[p] {
							continue
						}
						if ifi, ok := p.Instrs[len(p.Instrs)-1].(*ssa.If); ok && dependsOn(ifi.Cond, c.Value(), 0) {
							accepts = true
						}
					}
				}
				kind := "range/length"
				if callee == patCheck {
					kind = "pattern"
				}
				r.Ob("levels-conjunctive", core.FnName(f)+"/"+kind, ctx.Pos(c.Pos()), !accepts,
					"the loop over the restriction levels of the typedef chain accepts the value as soon as one level accepts it: a derived type's narrower "+kind+" is not enforced")
			}
		}
	}
	r.Floor("levels-conjunctive", n, 3)
}

// c05FormatCoverage: the checker dispatches on string, string list and numeric formats.
func c05FormatCoverage(ctx *core.Ctx, r *core.Report) {
	f := ctx.Method("node", "fieldConstraints", "CheckFieldPreConstraints")
	if f == nil {
		r.Fatalf("anchor fieldConstraints.CheckFieldPreConstraints not found")
		return
	}
	want := map[string]bool{}
	for _, n := range []string{"FmtString", "FmtStringList"} {
		if v, ok := constIntOf(ctx, "val", n); ok {
			_ = v
			want[n] = false
		}
	}
	core.Instrs(f, func(_ *ssa.BasicBlock, in ssa.Instruction) {
		bo, ok := in.(*ssa.BinOp)
		if !ok || bo.Op != token.EQL {
			return
		}
		for n := range want {
			if v, ok := constIntOf(ctx, "val", n); ok {
				if c, isC := core.ConstInt(bo.Y); isC && c == v {
					want[n] = true
				}
			}
		}
	})
	for n, seen := range want {
		r.Ob("format-coverage", "fieldConstraints/"+n, ctx.Pos(f.Pos()), seen, "no case for "+n+": length and pattern restrictions of such leaves are not checked")
	}
	numeric := false
	checkRange := ctx.Method("node", "fieldConstraints", "checkRange")
	for _, c := range callsStatic(f, checkRange, false) {
		for _, pc := range core.PathConds(c.Block()) {
			if cc, ok := pc.V.(*ssa.Call); ok && pc.True {
				if cal := core.StaticCallee(cc); cal != nil && cal.Name() == "IsNumeric" {
					numeric = true
				}
			}
		}
	}
	r.Ob("format-coverage", "fieldConstraints/numeric", ctx.Pos(f.Pos()), numeric, "checkRange must run for every numeric format (Format.IsNumeric)")
	// the type examined is the leaf's own type: leafref targets and union members are not resolved
	resolves := false
	core.Instrs(f, func(_ *ssa.BasicBlock, in ssa.Instruction) {
		if c, ok := in.(ssa.CallInstruction); ok {
			if cal := core.StaticCallee(c); cal != nil && (core.FnName(cal) == "meta.Type.Resolve" || core.FnName(cal) == "meta.Type.Union") {
				resolves = true
			}
		}
	})
	r.Ob("format-coverage", "fieldConstraints/leafref-union-resolved", ctx.Pos(f.Pos()), resolves,
		"the restrictions examined are those of the leaf's own type statement: for a leafref the target leaf's range/length/pattern, and for a union its members' restrictions, are never applied")
}

// c05NoCrash: no crash site reachable from the restriction checker.
func c05NoCrash(ctx *core.Ctx, r *core.Report) {
	roots := resolveRoots(ctx, r, []string{"node.fieldConstraints.CheckFieldPreConstraints", "meta.Range.CheckValue", "meta.Pattern.CheckValue"})
	// scope: the restriction-checking code itself (package meta, package val, node/field_constraints.go);
	// VTA resolves val.Value/Reducer calls to every implementation in the program, which is not the checker
	e := newCrashEngine(ctx, r, roots, func(f *ssa.Function) bool {
		p := core.FnPkgPath(f)
		switch {
		case p == core.Full("meta"), p == core.Full("val"):
			return false
		case p == core.Full("node") && strings.HasSuffix(ctx.File(f.Pos()), "node/field_constraints.go"):
			return false
		}
		return true
	})
	e.subset = true
	sites := e.sites("K1 K2 K4")
	e.record("restriction-check-cannot-crash", sites, c13Triage)
	if len(sites) < 3 {
		r.Fatalf("restriction-check-cannot-crash examined %d sites; the reachable set collapsed", len(sites))
	}
}

// c05MinMax: the typestate behind the triage of the RangeNumber getters: every
// call of getInt64/getUnit64/getFloat64 in RangeNumber.Compare is dominated by
// the tests that return for the 'min' and 'max' keywords.
func c05MinMax(ctx *core.Ctx, r *core.Report) {
	cmp := ctx.Method("meta", "RangeNumber", "Compare")
	if cmp == nil {
		r.Fatalf("anchor meta.RangeNumber.Compare not found")
		return
	}
	n := 0
	for _, g := range []string{"getInt64", "getUnit64", "getFloat64"} {
		callee := ctx.Method("meta", "RangeNumber", g)
		if callee == nil {
			r.Fatalf("anchor meta.RangeNumber.%s not found", g)
			continue
		}
		for _, c := range callsStatic(cmp, callee, true) {
			n++
			seen := map[string]bool{}
			for _, pc := range core.PathConds(c.Block()) {
				f := condFieldName(pc.V)
				if (f == "isMin" || f == "isMax") && !pc.True {
					seen[f] = true
				}
			}
			r.Ob("minmax-handled", "meta.RangeNumber.Compare→"+g, ctx.Pos(c.Pos()), seen["isMin"] && seen["isMax"],
				"a numeric getter of a range bound is reachable for the 'min'/'max' keywords, for which it panics (\"invalid number range comparison\")")
		}
	}
	r.Floor("minmax-handled", n, 3)
}

var c05ConvTriage = map[string]string{
	"meta.RangeNumber.getFloat64/int64→float64":  "used only to compare an integer-written bound with a decimal64 value, which the library itself carries as float64 (the C10 known finding on decimal64): the comparison is as exact as the value's own representation",
	"meta.RangeNumber.getFloat64/uint64→float64": "as above; an unsigned bound is kept only for numbers beyond int64, which no decimal64 reaches",
	"meta.RangeNumber.getInt64/float64→int64":    "reached only when a range bound is written with a fraction on an integer type, which RFC 7950 9.2.4 does not allow (bounds are of the restricted type)",
	"meta.RangeNumber.getUnit64/float64→uint64":  "as above for uint64; the operand is tested >= 0 on the line before",
	"meta.RangeNumber.getUnit64/int64→uint64":    "the operand *n.integer is tested >= 0 in the same condition (a second load of the same immutable field, which the interval reasoning does not identify with the first)",
}

// c05BoundsExact: a range or length bound is kept as the exact number that was
// written. (a) every field of meta.RangeNumber that the comparison code reads is
// also written by the parser of bounds — a representation that is read but
// never filled means some class of bounds silently takes another, lossy one;
// (b) in newRangeNumber the float parse is tried only where both integer parses
// (signed and unsigned, 64 bits) have failed: a whole number above MaxInt64 kept
// as float64 is rounded to a neighbouring number.
func c05BoundsExact(ctx *core.Ctx, r *core.Report) {
	rn := ctx.Named("meta", "RangeNumber")
	nrn := ctx.Fn("meta", "newRangeNumber")
	if rn == nil || nrn == nil {
		r.Fatalf("anchors meta.RangeNumber / meta.newRangeNumber not found")
		return
	}
	st := rn.Underlying().(*types.Struct)
	read, written := map[string]bool{}, map[string]bool{}
	for _, f := range ctx.RepoFuncs() {
		core.Instrs(f, func(_ *ssa.BasicBlock, in ssa.Instruction) {
			switch x := in.(type) {
			case *ssa.FieldAddr:
				if core.NamedOf(x.X.Type()) != rn {
					return
				}
				name := st.Field(x.Field).Name()
				for _, ref := range *x.Referrers() {
					switch y := ref.(type) {
					case *ssa.Store:
						if y.Addr == ssa.Value(x) {
							written[name] = true
						}
					case *ssa.UnOp:
						read[name] = true
					}
				}
			case *ssa.Field:
				if core.NamedOf(x.X.Type()) == rn {
					read[st.Field(x.Field).Name()] = true
				}
			}
		})
	}
	n := 0
	for i := 0; i < st.NumFields(); i++ {
		name := st.Field(i).Name()
		if !read[name] {
			continue
		}
		n++
		r.Ob("bounds-exact", "meta.RangeNumber."+name+"/filled", ctx.Pos(st.Field(i).Pos()), written[name],
			"the comparison of a value with a range bound reads RangeNumber."+name+", but nothing ever fills it: the bounds that need this representation (e.g. whole numbers above MaxInt64 for `unsigned`) are silently kept in another, lossy one and values next to the bound are accepted or rejected wrongly")
	}
	r.Floor("bounds-exact", n, 5)
	// (b)
	var pf []ssa.CallInstruction
	fails := map[string]ssa.CallInstruction{}
	for _, c := range core.CallSites(nrn) {
		if cal := core.StaticCallee(c); cal != nil {
			switch core.FnName(cal) {
			case "strconv.ParseFloat":
				pf = append(pf, c)
			case "strconv.ParseInt", "strconv.ParseUint":
				if bits, ok := core.ConstInt(c.Common().Args[2]); ok && bits == 64 {
					fails[core.FnName(cal)] = c
				}
			}
		}
	}
	for _, c := range pf {
		missing := []string{}
		for _, want := range []string{"strconv.ParseInt", "strconv.ParseUint"} {
			ic, ok := fails[want]
			okDom := false
			if ok {
				ev := errResult(ic)
				for _, pc := range core.PathConds(c.Block()) {
					if bo, isBin := pc.V.(*ssa.BinOp); isBin && ev != nil && dependsOn(bo, ev, 0) {
						// on the side where err != nil
						if (bo.Op == token.EQL && !pc.True) || (bo.Op == token.NEQ && pc.True) {
							okDom = true
						}
					}
				}
			}
			if !okDom {
				missing = append(missing, want)
			}
		}
		r.Ob("bounds-exact", "meta.newRangeNumber/float-only-after-integers-failed", ctx.Pos(c.Pos()), len(missing) == 0,
			"a bound is parsed as float64 without "+strings.Join(missing, " and ")+" (64 bits) having been tried and failed on that text first: a whole-number bound that float64 cannot represent (above 2^53, e.g. the uint64 limits) is rounded")
	}
	if len(pf) == 0 {
		r.Infof("meta.newRangeNumber no longer parses floats")
	}
}
