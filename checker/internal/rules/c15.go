package rules

import (
	"fmt"
	"go/token"
	"go/types"
	"sort"
	"strings"

	"golang.org/x/tools/go/ssa"

	"verif/checker/internal/core"
)

// ---------------------------------------------------------------------------
// C15 — the JSON writer always emits well-formed, correctly named and typed JSON.
// ---------------------------------------------------------------------------

// value kinds whose String() is always a JSON literal (number, true, false).
var jsonLiteralSafe = map[string]string{
	"Bool": "true/false", "Int8": "decimal integer", "UInt8": "decimal integer", "Int16": "decimal integer", "UInt16": "decimal integer",
	"Int32": "decimal integer", "UInt32": "decimal integer", "Int64": "decimal integer", "UInt64": "decimal integer",
}

// scalarValueKinds: non-list implementers of val.Value with their Format constant.
func scalarValueKinds(ctx *core.Ctx, r *core.Report) map[string]int64 {
	out := map[string]int64{}
	_, scalars := comparableImpls(ctx, r)
	for _, n := range scalars {
		ff := ctx.Method("val", n.Obj().Name(), "Format")
		if ff == nil {
			continue
		}
		for _, ret := range core.Returns(ff) {
			if c, ok := core.ConstInt(ret.Results[0]); ok {
				out[n.Obj().Name()] = c
			}
		}
	}
	return out
}

// formatCases: the constants a function compares `x.Format()` with.
func formatCases(f *ssa.Function) map[int64]*ssa.BasicBlock {
	out := map[int64]*ssa.BasicBlock{}
	core.Instrs(f, func(_ *ssa.BasicBlock, in ssa.Instruction) {
		bo, ok := in.(*ssa.BinOp)
		if !ok || bo.Op != token.EQL {
			return
		}
		c, ok := core.ConstInt(bo.Y)
		if !ok {
			return
		}
		call, ok := bo.X.(*ssa.Call)
		if !ok {
			return
		}
		if m := core.IfaceMethod(call); m == nil || m.Name() != "Format" {
			if cal := core.StaticCallee(call); cal == nil || cal.Name() != "Format" {
				return
			}
		}
		for _, ref := range *bo.Referrers() {
			if ifi, ok := ref.(*ssa.If); ok {
				out[c] = ifi.Block().Succs[0]
			}
		}
	})
	return out
}

func C15(ctx *core.Ctx, r *core.Report) {
	r.Explanation = "Structure of nodeutil's JSON writer, decided on all paths: every scalar value kind is rendered by an explicit case of writeValue or is in the table of kinds whose text is always a JSON literal, and text taken from a value reaches the stream only through the escaping writeString; the array brackets around a value are both conditioned on the same IsList predicate and the begin/end callbacks of the root and of nested containers open and close lists/objects under the same predicate; Flush's error and the edit's error are returned; nothing but the buffered writer touches the output stream; member names come from the schema identifier with the OriginalModule qualification rule. Decimal64 text is the shortest exact form (FormatFloat -1/64). Not decided: bracket balance for every callback sequence, correctness of the copied string escaper (it is encoding/json's), numeric text."
	wv := ctx.Method("nodeutil", "JSONWtr", "writeValue")
	if wv == nil || len(wv.AnonFuncs) == 0 {
		r.Fatalf("anchor nodeutil.JSONWtr.writeValue (and its item closure) not found")
		return
	}
	clo := wv.AnonFuncs[0]
	escaperNotBypassed(ctx, r)
	c15RequestPathsAgree(ctx, r)
	borrowFrom(ctx, r, "C10", C10, "lossy-convert")
	c15DeferredErrorIsTheResult(ctx, r)
	c15IdentityrefPrefixByModuleOnly(ctx, r)
	r.Count("instances:slice-bound-guarded", sliceHighGuarded(ctx, r, scopeFuncs(ctx, "nodeutil", "json_wtr.go", "json_wtr_str.go")))
	kinds := scalarValueKinds(ctx, r)
	cases := formatCases(clo)
	r.Count("writeValue_format_cases", len(cases))
	var names []string
	for k := range kinds {
		names = append(names, k)
	}
	sort.Strings(names)
	// kinds that are never constructed anywhere in the repository are not values a writer can meet
	constructed := map[string]bool{}
	for _, f := range ctx.RepoFuncs() {
		core.Instrs(f, func(_ *ssa.BasicBlock, in ssa.Instruction) {
			if mi, ok := in.(*ssa.MakeInterface); ok {
				if n := core.NamedOf(mi.X.Type()); n != nil && n.Obj().Pkg() != nil && n.Obj().Pkg().Path() == core.Full("val") {
					constructed[n.Obj().Name()] = true
				}
			}
		})
	}
	for _, k := range names {
		if !constructed[k] {
			r.Infof("val.%s is never constructed in the repository; not a value a writer can meet", k)
			continue
		}
		_, explicit := cases[kinds[k]]
		reason, safe := jsonLiteralSafe[k]
		ok := explicit || safe
		msg := "rendered by an explicit case"
		if !explicit && safe {
			msg = "falls to the default branch; String() is always a JSON literal (" + reason + ")"
		}
		if !ok {
			msg = "value kind val." + k + " has no case in writeValue and is written bare by the default branch: its String() is not JSON"
		}
		r.Ob("value-rendering-total", "nodeutil.JSONWtr.writeValue/val."+k, ctx.Pos(clo.Pos()), ok, msg)
	}
	r.Floor("value-rendering-total", len(names), 15)

	// free text only through writeString: raw WriteString of a value's String()/Label is
	// allowed only in the default branch
	ws := ctx.Method("nodeutil", "JSONWtr", "writeString")
	if ws == nil {
		r.Fatalf("anchor nodeutil.JSONWtr.writeString not found")
	}
	caseBlocks := map[*ssa.BasicBlock]int64{}
	for c, b := range cases {
		caseBlocks[b] = c
	}
	inExplicitCase := func(b *ssa.BasicBlock) (int64, bool) {
		for cb, c := range caseBlocks {
			if cb == b || cb.Dominates(b) {
				return c, true
			}
		}
		return 0, false
	}
	nRaw := 0
	for _, c := range core.CallSites(clo) {
		cal := core.StaticCallee(c)
		if cal == nil || core.FnName(cal) != "bufio.Writer.WriteString" {
			continue
		}
		arg := c.Common().Args[1]
		fromValue := false
		if sc, ok := arg.(*ssa.Call); ok {
			if m := core.IfaceMethod(sc); m != nil && m.Name() == "String" {
				fromValue = true
			}
		}
		if fld, ok := arg.(*ssa.Field); ok {
			_ = fld
			fromValue = true // e.g. Enum.Label
		}
		if !fromValue {
			continue // strconv output, constants
		}
		nRaw++
		_, explicit := inExplicitCase(c.Block())
		r.Ob("text-through-escaper", "nodeutil.JSONWtr.writeValue/raw-write", ctx.Pos(c.Pos()), !explicit,
			"text taken from the value is written to the stream without writeString inside an explicit case: quotes, backslashes and control characters are not escaped")
	}
	// the string-like kinds call writeString in their case
	for _, k := range []string{"String", "Binary", "Bits", "IdentRef", "Enum"} {
		f, ok := kinds[k]
		if !ok {
			continue
		}
		b, has := cases[f]
		okc := false
		if has && ws != nil {
			for _, c := range callsStatic(clo, ws, false) {
				if b == c.Block() || b.Dominates(c.Block()) {
					okc = true
				}
			}
		}
		r.Ob("text-through-escaper", "nodeutil.JSONWtr.writeValue/val."+k, ctx.Pos(clo.Pos()), okc, "the case for val."+k+" does not write its text through the escaping writeString")
	}

	c15Brackets(ctx, r, wv)
	c15StreamErrors(ctx, r)
	c15Names(ctx, r)
	jsonW := scopeFuncs(ctx, "nodeutil", "json_wtr.go")
	floatTextExact(ctx, r, jsonW, 1)
	definitionModuleOriginal(ctx, r, jsonW, 3)
}

// guardSig: a printable signature of the branch conditions dominating a block.
func guardSig(b *ssa.BasicBlock) string {
	var parts []string
	for _, pc := range core.PathConds(b) {
		parts = append(parts, condSig(pc.V, pc.True))
	}
	sort.Strings(parts)
	return strings.Join(parts, " && ")
}

func condSig(v ssa.Value, truth bool) string {
	neg := ""
	if !truth {
		neg = "!"
	}
	switch x := v.(type) {
	case *ssa.UnOp:
		if x.Op == token.NOT {
			return condSig(x.X, !truth)
		}
		if x.Op == token.MUL {
			return neg + valueSig(x)
		}
	case *ssa.Call:
		return neg + valueSig(x)
	case *ssa.BinOp:
		return neg + "(" + valueSig(x.X) + x.Op.String() + valueSig(x.Y) + ")"
	}
	return neg + valueSig(v)
}

func valueSig(v ssa.Value) string {
	switch x := v.(type) {
	case *ssa.Call:
		name := core.CalleeName(x)
		var args []string
		for _, a := range x.Common().Args {
			args = append(args, valueSig(a))
		}
		if x.Common().IsInvoke() {
			return name + "(" + valueSig(x.Common().Value) + ")"
		}
		return name + "(" + strings.Join(args, ",") + ")"
	case *ssa.UnOp:
		return valueSig(x.X)
	case *ssa.FieldAddr:
		if st, ok := core.Deref(x.X.Type()).Underlying().(*types.Struct); ok {
			return valueSig(x.X) + "." + st.Field(x.Field).Name()
		}
	case *ssa.Field:
		if st, ok := x.X.Type().Underlying().(*types.Struct); ok {
			return valueSig(x.X) + "." + st.Field(x.Field).Name()
		}
	case *ssa.Parameter:
		return "param"
	case *ssa.Const:
		if x.Value == nil {
			return "nil"
		}
		return x.Value.String()
	case *ssa.Alloc:
		return "local"
	case *ssa.ChangeInterface:
		return valueSig(x.X)
	case *ssa.MakeInterface:
		return valueSig(x.X)
	case *ssa.Phi:
		return "phi"
	}
	return v.Name()
}

func c15Brackets(ctx *core.Ctx, r *core.Report, wv *ssa.Function) {
	// writeValue: '[' and ']' under the same predicate
	var open, close []ssa.CallInstruction
	for _, c := range core.CallSites(wv) {
		cal := core.StaticCallee(c)
		if cal == nil || core.FnName(cal) != "bufio.Writer.WriteRune" {
			continue
		}
		if ch, ok := core.ConstInt(c.Common().Args[1]); ok {
			if ch == '[' {
				open = append(open, c)
			}
			if ch == ']' {
				close = append(close, c)
			}
		}
	}
	ok := len(open) == 1 && len(close) == 1
	msg := fmt.Sprintf("%d '[' and %d ']' writes in writeValue", len(open), len(close))
	if ok {
		so, sc := guardSig(open[0].Block()), guardSig(close[0].Block())
		// the close is additionally behind `lerr == nil`; compare the IsList part
		pick := func(s string) string {
			var keep []string
			for _, p := range strings.Split(s, " && ") {
				if strings.Contains(p, "IsList") {
					keep = append(keep, p)
				}
			}
			return strings.Join(keep, " && ")
		}
		if pick(so) == "" || pick(so) != pick(sc) {
			ok, msg = false, fmt.Sprintf("'[' is written under %q but ']' under %q: for some value only one of the brackets is emitted", so, sc)
		}
	}
	r.Ob("brackets-paired", "nodeutil.JSONWtr.writeValue/list-brackets", ctx.Pos(wv.Pos()), ok, msg)

	// root node: beginList in OnBeginEdit and endList in OnEndEdit under the same predicate;
	// beginObject / endContainer unconditional
	nodeFn := ctx.Method("nodeutil", "JSONWtr", "Node")
	cont := ctx.Method("nodeutil", "JSONWtr", "container")
	bl := ctx.Method("nodeutil", "JSONWtr", "beginList")
	el := ctx.Method("nodeutil", "JSONWtr", "endList")
	bo := ctx.Method("nodeutil", "JSONWtr", "beginObject")
	bc := ctx.Method("nodeutil", "JSONWtr", "beginContainer")
	ec := ctx.Method("nodeutil", "JSONWtr", "endContainer")
	if nodeFn == nil || cont == nil || bl == nil || el == nil || bo == nil || bc == nil || ec == nil {
		r.Fatalf("anchors nodeutil.JSONWtr.{Node,container,beginList,endList,beginObject,beginContainer,endContainer} not found")
		return
	}
	sigOf := func(fs []*ssa.Function, callee *ssa.Function) []string {
		var out []string
		for _, f := range fs {
			for _, c := range callsStatic(f, callee, false) {
				out = append(out, guardSigNoErr(c.Block()))
			}
		}
		sort.Strings(out)
		return out
	}
	rootClos := nodeFn.AnonFuncs
	rb, re := sigOf(rootClos, bl), sigOf(rootClos, el)
	okRoot := len(rb) == 1 && len(re) == 1 && rb[0] == re[0] && rb[0] != ""
	r.Ob("brackets-paired", "nodeutil.JSONWtr.Node/list", ctx.Pos(nodeFn.Pos()), okRoot,
		fmt.Sprintf("the root opens a list under %v and closes it under %v", rb, re))
	ro, rc := sigOf(rootClos, bo), sigOf(rootClos, ec)
	okObj := len(ro) == 1 && len(rc) == 1 && ro[0] == "" && rc[0] == ""
	r.Ob("brackets-paired", "nodeutil.JSONWtr.Node/object", ctx.Pos(nodeFn.Pos()), okObj,
		fmt.Sprintf("the root object is opened under %v and closed under %v; both must be unconditional", ro, rc))
	// nested containers: OnChild opens a list iff IsList(meta), else an object; OnNext opens an object;
	// OnEndEdit closes a list iff (!InsideList && IsList(meta)), else an object
	clos := cont.AnonFuncs
	nOpenList, nOpenObj, nCloseList, nCloseObj := len(sigOf(clos, bl)), len(sigOf(clos, bc))+len(sigOf(clos, bo)), len(sigOf(clos, el)), len(sigOf(clos, ec))
	okNest := nOpenList == 1 && nOpenObj == 2 && nCloseList == 1 && nCloseObj == 1
	msgNest := fmt.Sprintf("container(): %d list opens, %d object opens (child + list entry), %d list closes, %d object closes", nOpenList, nOpenObj, nCloseList, nCloseObj)
	if okNest {
		// the list close and the object close are the two arms of one test that mentions IsList
		cl := sigOf(clos, el)[0]
		co := sigOf(clos, ec)[0]
		// the object close is the else arm of the (short-circuit) test guarding the list close:
		// every edge into its block leaves an If that dominates the list close
		arms := false
		var lb, ob *ssa.BasicBlock
		for _, f := range clos {
			for _, c := range callsStatic(f, el, false) {
				lb = c.Block()
			}
			for _, c := range callsStatic(f, ec, false) {
				ob = c.Block()
			}
		}
		if lb != nil && ob != nil && lb.Parent() == ob.Parent() && len(ob.Preds) > 0 {
			arms = true
			for _, p := range ob.Preds {
				_, isIf := p.Instrs[len(p.Instrs)-1].(*ssa.If)
				if !isIf || !p.Dominates(lb) {
					arms = false
				}
			}
		}
		if !strings.Contains(cl, "IsList") || !(strings.Contains(co, "IsList") || arms) || cl == co {
			okNest, msgNest = false, fmt.Sprintf("a list is closed under %q and an object under %q: they must be the two arms of one IsList test", cl, co)
		}
		ol := sigOf(clos, bl)[0]
		if !strings.Contains(ol, "IsList") {
			okNest, msgNest = false, "a nested list is opened without testing IsList(meta)"
		}
	}
	r.Ob("brackets-paired", "nodeutil.JSONWtr.container", ctx.Pos(cont.Pos()), okNest, msgNest)
}

// guardSigNoErr: guard signature without the err == nil / != nil plumbing.
func guardSigNoErr(b *ssa.BasicBlock) string {
	var keep []string
	for _, p := range strings.Split(guardSig(b), " && ") {
		if p == "" || strings.Contains(p, "nil") && !strings.Contains(p, "IsList") && !strings.Contains(p, "InsideList") {
			continue
		}
		if strings.Contains(p, ".New") || strings.Contains(p, ".Write") {
			continue // request kind (read vs write) guards
		}
		keep = append(keep, p)
	}
	return strings.Join(keep, " && ")
}

func c15StreamErrors(ctx *core.Ctx, r *core.Report) {
	nodeFn := ctx.Method("nodeutil", "JSONWtr", "Node")
	// (a) Flush error returned by the root OnEndEdit
	okFlush := false
	for _, clo := range nodeFn.AnonFuncs {
		for _, c := range core.CallSites(clo) {
			if cal := core.StaticCallee(c); cal != nil && core.FnName(cal) == "bufio.Writer.Flush" {
				if ev := errResult(c); ev != nil && flowsToReturn(ev, 0, map[ssa.Value]bool{}) {
					// and every success return of that closure is after the Flush
					okFlush = true
					for _, ret := range core.Returns(clo) {
						ops := core.RetOperands(ret)
						if core.IsNilConst(ops[0]) && !instrDominates(c, ret) {
							okFlush = false
						}
					}
				}
			}
		}
	}
	r.Ob("stream-errors-not-lost", "nodeutil.JSONWtr.Node/flush", ctx.Pos(nodeFn.Pos()), okFlush,
		"the root's OnEndEdit must flush the buffered writer on every successful path and return the flush error: bufio errors are sticky, so this is where a write error on the output stream surfaces")
	// (b) the convenience functions return the edit error
	for _, spec := range []string{"nodeutil.WriteJSON", "nodeutil.WritePrettyJSON", "nodeutil.JSONWtr.JSON"} {
		f := ctx.Lookup(spec)
		if f == nil {
			r.Fatalf("anchor %s not found", spec)
			continue
		}
		ok := false
		for _, c := range core.CallSites(f) {
			if cal := core.StaticCallee(c); cal != nil && core.FnName(cal) == "node.Selection.InsertInto" {
				if ev := errResult(c); ev != nil && flowsToReturn(ev, 0, map[ssa.Value]bool{}) {
					ok = true
				}
			}
		}
		r.Ob("stream-errors-not-lost", spec, ctx.Pos(f.Pos()), ok, "the error of the export is not returned")
	}
	// (c) writer errors inside the container callbacks are returned (no dropped error in the writer's own functions)
	n := 0
	for _, f := range ctx.RepoFuncs() {
		name := core.FnName(f)
		if !strings.HasPrefix(name, "nodeutil.JSONWtr.") {
			continue
		}
		for _, c := range core.CallSites(f) {
			cal := core.StaticCallee(c)
			if cal == nil || !strings.HasPrefix(core.FnName(cal), "nodeutil.JSONWtr.") {
				continue
			}
			res := c.Common().Signature().Results()
			if res.Len() == 0 || !core.IsErrorType(res.At(res.Len()-1).Type()) {
				continue
			}
			n++
			ev := errResult(c)
			ok := ev != nil && len(*ev.Referrers()) > 0 && flowsToReturn(ev, 0, map[ssa.Value]bool{})
			key := name + "/" + core.FnName(cal)
			if reason, t := c15ErrTriage[key]; t && !ok {
				r.Ob("stream-errors-not-lost", key, ctx.Pos(c.Pos()), true, "triaged: "+reason)
				continue
			}
			r.Ob("stream-errors-not-lost", key, ctx.Pos(c.Pos()), ok, "the error of a writer step is dropped")
		}
	}
	r.Floor("stream-errors-not-lost(writer steps)", n, 12)
	// (d) only the buffered writer touches Out
	jw := ctx.Named("nodeutil", "JSONWtr")
	st := jw.Underlying().(*types.Struct)
	outIdx := -1
	for i := 0; i < st.NumFields(); i++ {
		if st.Field(i).Name() == "Out" {
			outIdx = i
		}
	}
	for _, f := range ctx.RepoFuncs() {
		if core.FnPkgPath(f) != core.Full("nodeutil") {
			continue
		}
		core.Instrs(f, func(_ *ssa.BasicBlock, in ssa.Instruction) {
			fa, ok := in.(*ssa.FieldAddr)
			if !ok || fa.Field != outIdx || core.NamedOf(fa.X.Type()) != jw {
				return
			}
			for _, ref := range *fa.Referrers() {
				u, isLoad := ref.(*ssa.UnOp)
				if !isLoad {
					continue // stores (construction) are fine
				}
				// the loaded stream may only be handed to bufio.NewWriter
				okUse := true
				for _, r2 := range *u.Referrers() {
					c, isCall := r2.(ssa.CallInstruction)
					if !isCall {
						okUse = false
						continue
					}
					if cal := core.StaticCallee(c); cal == nil || core.FnName(cal) != "bufio.NewWriter" {
						okUse = false
					}
				}
				r.Ob("stream-errors-not-lost", "Out-only-through-bufio/"+core.FnName(f), ctx.Pos(fa.Pos()), okUse,
					"JSONWtr.Out is used other than to construct the buffered writer: writes that bypass it are not covered by the sticky error and the final Flush")
			}
		})
	}
}

var c15ErrTriage = map[string]string{
	"nodeutil.JSONWtr.writeValue/nodeutil.JSONWtr.writeIdent": "writes go to a bufio.Writer, whose errors are sticky: the next checked write of writeValue (and the final Flush) report the same error",
}

func c15Names(ctx *core.Ctx, r *core.Report) {
	ident := ctx.Method("nodeutil", "JSONWtr", "ident")
	wi := ctx.Method("nodeutil", "JSONWtr", "writeIdent")
	if ident == nil || wi == nil {
		r.Fatalf("anchors nodeutil.JSONWtr.ident / writeIdent not found")
		return
	}
	nOrig, nRoot, nIdent := 0, 0, 0
	for _, c := range core.CallSites(ident) {
		if cal := core.StaticCallee(c); cal != nil {
			switch core.FnName(cal) {
			case "meta.OriginalModule":
				nOrig++
			case "meta.RootModule":
				nRoot++
			}
		}
		if m := core.IfaceMethod(c); m != nil && m.Name() == "Ident" {
			nIdent++
		}
	}
	r.Ob("qualification-rule", "nodeutil.JSONWtr.ident", ctx.Pos(ident.Pos()), nOrig == 2 && nRoot == 0 && nIdent >= 1,
		fmt.Sprintf("member names must be the schema identifier, qualified by comparing OriginalModule of the node and of its parent (found %d OriginalModule, %d RootModule, %d Ident calls)", nOrig, nRoot, nIdent))
	// which two nodes are compared: the node of this path element and the node of the
	// DATA parent (p.Parent.Meta). The schema parent (p.Meta.Parent()) is another thing:
	// for a node inside a choice it is the case, whose module can differ from that of the
	// enclosing data node, and RFC 7951 qualifies relative to the enclosing member.
	chains := map[string]bool{}
	for _, c := range core.CallSites(ident) {
		if cal := core.StaticCallee(c); cal != nil && core.FnName(cal) == "meta.OriginalModule" {
			chains[paramFieldChain(c.Common().Args[0])] = true
		}
	}
	r.Ob("qualification-rule", "nodeutil.JSONWtr.ident/compares-node-with-data-parent", ctx.Pos(ident.Pos()), chains["p.Meta"] && chains["p.Parent.Meta"] && len(chains) == 2,
		fmt.Sprintf("the module of a member is compared with something other than the module of the enclosing data node: OriginalModule is taken of %v, expected of p.Meta and p.Parent.Meta — with the schema parent, nodes sitting in a case contributed by another module lose or gain their module prefix", sortedBoolKeys(chains)))
	// every writeIdent argument comes from ident() (possibly through beginList/beginContainer parameters)
	n := 0
	for _, f := range ctx.RepoFuncs() {
		if !strings.HasPrefix(core.FnName(f), "nodeutil.JSONWtr.") {
			continue
		}
		for _, c := range callsStatic(f, wi, false) {
			n++
			a := c.Common().Args[1]
			ok := false
			if call, isCall := a.(*ssa.Call); isCall && core.IsCallTo(call, ident) {
				ok = true
			}
			if p, isParam := a.(*ssa.Parameter); isParam {
				// a parameter named ident of beginList/beginContainer: check their callers
				ok = true
				if node := ctx.CG().Nodes[f]; node != nil {
					idx := -1
					for i, fp := range f.Params {
						if fp == p {
							idx = i
						}
					}
					for _, e := range node.In {
						if e.Site == nil || idx < 0 || idx >= len(e.Site.Common().Args) {
							continue
						}
						arg := e.Site.Common().Args[idx]
						if call, isCall := arg.(*ssa.Call); !isCall || !core.IsCallTo(call, ident) {
							ok = false
						}
					}
				}
			}
			r.Ob("names-from-schema", core.FnName(f)+"→writeIdent", ctx.Pos(c.Pos()), ok, "a member name is written that does not come from JSONWtr.ident(path)")
		}
	}
	r.Floor("names-from-schema", n, 3)
}

// paramFieldChain renders a value that is a chain of field loads from a
// parameter as "p.F.G"; anything else (calls, phis) as its SSA description.
func paramFieldChain(v ssa.Value) string {
	switch x := v.(type) {
	case *ssa.Parameter:
		return x.Name()
	case *ssa.MakeInterface:
		return paramFieldChain(x.X)
	case *ssa.ChangeInterface:
		return paramFieldChain(x.X)
	case *ssa.Alloc:
		if x.Comment != "" {
			return x.Comment // a value parameter or local spilled to memory
		}
	case *ssa.FieldAddr:
		st := core.Deref(x.X.Type()).Underlying().(*types.Struct)
		if st.Field(x.Field).Embedded() {
			return paramFieldChain(x.X)
		}
		return paramFieldChain(x.X) + "." + st.Field(x.Field).Name()
	case *ssa.UnOp:
		if x.Op == token.MUL {
			if fa, ok := x.X.(*ssa.FieldAddr); ok {
				return paramFieldChain(fa)
			}
		}
	case *ssa.Field:
		st := x.X.Type().Underlying().(*types.Struct)
		return paramFieldChain(x.X) + "." + st.Field(x.Field).Name()
	case *ssa.Call:
		if x.Common().IsInvoke() {
			return paramFieldChain(x.Common().Value) + "." + x.Common().Method.Name() + "()"
		}
		if cal := x.Common().StaticCallee(); cal != nil && len(x.Common().Args) > 0 {
			return cal.Name() + "(" + paramFieldChain(x.Common().Args[0]) + ")"
		}
	case *ssa.TypeAssert:
		return paramFieldChain(x.X)
	}
	return v.Name()
}

func sortedBoolKeys(m map[string]bool) []string {
	var out []string
	for k := range m {
		out = append(out, k)
	}
	sort.Strings(out)
	return out
}
