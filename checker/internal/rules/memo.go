package rules

import (
	"fmt"
	"go/token"
	"go/types"
	"sort"
	"strings"

	"golang.org/x/tools/go/ssa"

	"verif/checker/internal/core"
)

// ---------------------------------------------------------------------------
// memo-key-complete (shared by C01, C02, C09, C11, C16)
//
// A function that answers from a table kept in a struct field (`if v, ok :=
// x.tbl[key]; ok { return v }  …  x.tbl[key] = v`) is a memoised function. Its
// answer for later calls is whatever the first call with an equal key
// computed, so the key has to carry everything the computation reads from the
// arguments. For each parameter p the stored value depends on:
//
//   - p is in the key as it is (pointer identity), or
//   - the key is built from fields of p read through pure getters, and every
//     other use of p in the function reads those fields only (a callee with p
//     as receiver or argument is looked into, three levels deep).
//
// Anything else (p handed to a scope walk, an interface method called on it,
// a value derived from p by a lossy function such as "the module it was
// written in") means two arguments with equal keys can have different
// answers, and the second one gets the first one's.
// ---------------------------------------------------------------------------

type memoSite struct {
	fn      *ssa.Function
	lookup  *ssa.Lookup
	update  *ssa.MapUpdate
	owner   *types.Named
	field   string
	holder  ssa.Value // the value whose field holds the table
	hitOnly bool
}

// mapFieldOf: v is a map loaded from a struct field; returns the struct, field name and base.
func mapFieldOf(v ssa.Value) (*types.Named, string, ssa.Value, bool) {
	u, ok := core.Strip(v).(*ssa.UnOp)
	if !ok || u.Op != token.MUL {
		return nil, "", nil, false
	}
	fa, ok := u.X.(*ssa.FieldAddr)
	if !ok {
		return nil, "", nil, false
	}
	n := core.NamedOf(fa.X.Type())
	st, ok2 := core.Deref(fa.X.Type()).Underlying().(*types.Struct)
	if n == nil || !ok2 {
		return nil, "", nil, false
	}
	return n, st.Field(fa.Field).Name(), fa.X, true
}

// forwardValues: values v flows into through extracts, phis and interface/type changes.
func forwardValues(v ssa.Value) map[ssa.Value]bool {
	out := map[ssa.Value]bool{}
	var walk func(x ssa.Value)
	walk = func(x ssa.Value) {
		if x == nil || out[x] {
			return
		}
		out[x] = true
		refs := x.Referrers()
		if refs == nil {
			return
		}
		for _, r := range *refs {
			switch y := r.(type) {
			case *ssa.Extract:
				if y.Index == 0 {
					walk(y)
				}
			case *ssa.Phi, *ssa.TypeAssert, *ssa.ChangeInterface, *ssa.MakeInterface, *ssa.ChangeType:
				walk(y.(ssa.Value))
			}
		}
	}
	walk(v)
	return out
}

func findMemoSites(fns []*ssa.Function) []memoSite {
	var out []memoSite
	for _, f := range fns {
		var lookups []*ssa.Lookup
		var updates []*ssa.MapUpdate
		core.Instrs(f, func(_ *ssa.BasicBlock, in ssa.Instruction) {
			switch x := in.(type) {
			case *ssa.Lookup:
				if _, isMap := x.X.Type().Underlying().(*types.Map); isMap {
					lookups = append(lookups, x)
				}
			case *ssa.MapUpdate:
				updates = append(updates, x)
			}
		})
		for _, l := range lookups {
			ln, lf, lbase, ok := mapFieldOf(l.X)
			if !ok {
				continue
			}
			for _, u := range updates {
				un, uf, _, ok := mapFieldOf(u.Map)
				if !ok || un != ln || uf != lf {
					continue
				}
				// memo shape: the looked-up value and the stored value are the same
				// variable (merge in a phi) or are returned in the same result position
				lv := forwardValues(l)
				uv := forwardValues(u.Value)
				same := false
				for v := range lv {
					if uv[v] {
						same = true
					}
				}
				if !same {
					for _, ret := range core.Returns(f) {
						_ = ret
					}
					retIdx := func(set map[ssa.Value]bool) map[int]bool {
						idx := map[int]bool{}
						for _, ret := range core.Returns(f) {
							for i, op := range core.RetOperands(ret) {
								if set[op] || set[core.Strip(op)] {
									idx[i] = true
								}
							}
						}
						return idx
					}
					li, ui := retIdx(lv), retIdx(uv)
					for i := range li {
						if ui[i] {
							same = true
						}
					}
				}
				if same {
					out = append(out, memoSite{fn: f, lookup: l, update: u, owner: ln, field: lf, holder: lbase})
				}
			}
		}
	}
	return out
}

// valueDependsOn: backward slice of v inside its function reaches target.
func valueDependsOn(v, target ssa.Value, seen map[ssa.Value]bool) bool {
	if v == nil || seen[v] {
		return false
	}
	seen[v] = true
	if v == target {
		return true
	}
	in, ok := v.(ssa.Instruction)
	if !ok {
		return false
	}
	for _, op := range in.Operands(nil) {
		if op != nil && *op != nil && valueDependsOn(*op, target, seen) {
			return true
		}
	}
	// a load of a local: what was stored there
	if u, ok := v.(*ssa.UnOp); ok && u.Op == token.MUL {
		if al, ok := u.X.(*ssa.Alloc); ok {
			for _, r := range *al.Referrers() {
				if st, ok := r.(*ssa.Store); ok && st.Addr == ssa.Value(al) && valueDependsOn(st.Val, target, seen) {
					return true
				}
			}
		}
	}
	return false
}

// keyShape: how parameter p takes part in the key value k.
//
//	direct  — p itself (identity) is in the key
//	fields  — fields of p read through pure getters that are in the key
//	lossy   — descriptions of calls that derive part of the key from p in another way
func keyShape(k ssa.Value, p ssa.Value) (direct bool, fields map[string]bool, lossy []string, keyCalls map[ssa.Instruction]bool) {
	fields = map[string]bool{}
	keyCalls = map[ssa.Instruction]bool{}
	seen := map[ssa.Value]bool{}
	var walk func(v ssa.Value)
	walk = func(v ssa.Value) {
		if v == nil || seen[v] {
			return
		}
		seen[v] = true
		if v == p {
			direct = true
			return
		}
		switch x := v.(type) {
		case *ssa.MakeInterface:
			walk(x.X)
		case *ssa.ChangeInterface:
			walk(x.X)
		case *ssa.ChangeType:
			walk(x.X)
		case *ssa.Convert:
			walk(x.X)
		case *ssa.BinOp:
			walk(x.X)
			walk(x.Y)
		case *ssa.Phi:
			for _, e := range x.Edges {
				walk(e)
			}
		case *ssa.Extract:
			walk(x.Tuple)
		case *ssa.UnOp:
			if al, ok := x.X.(*ssa.Alloc); ok && x.Op == token.MUL {
				// struct key built in a local: every field store
				for _, r := range *al.Referrers() {
					switch y := r.(type) {
					case *ssa.Store:
						if y.Addr == ssa.Value(al) {
							walk(y.Val)
						}
					case *ssa.FieldAddr:
						for _, r2 := range *y.Referrers() {
							if st, ok := r2.(*ssa.Store); ok && st.Addr == ssa.Value(y) {
								walk(st.Val)
							}
						}
					}
				}
				return
			}
			walk(x.X)
		case *ssa.FieldAddr:
			if x.X == p {
				st := core.Deref(p.Type()).Underlying().(*types.Struct)
				fields[st.Field(x.Field).Name()] = true
				return
			}
			walk(x.X)
		case *ssa.Call:
			keyCalls[x] = true
			c := x.Common()
			usesP := false
			for _, a := range c.Args {
				if core.Strip(a) == p || a == p {
					usesP = true
				}
			}
			if c.IsInvoke() && (c.Value == p || core.Strip(c.Value) == p) {
				usesP = true
			}
			if usesP {
				if cal := c.StaticCallee(); cal != nil && pureGetter(cal) {
					for fn := range getterFields(cal) {
						fields[fn] = true
					}
				} else {
					lossy = append(lossy, core.CalleeName(x))
				}
				return
			}
			for _, a := range c.Args {
				walk(a)
			}
			if c.IsInvoke() {
				walk(c.Value)
			}
		}
	}
	walk(k)
	return
}

// getterFields: the receiver fields a pure getter loads.
func getterFields(f *ssa.Function) map[string]bool {
	out := map[string]bool{}
	if len(f.Params) == 0 {
		return out
	}
	st, ok := core.Deref(f.Params[0].Type()).Underlying().(*types.Struct)
	if !ok {
		return out
	}
	core.Instrs(f, func(_ *ssa.BasicBlock, in ssa.Instruction) {
		switch x := in.(type) {
		case *ssa.FieldAddr:
			out[st.Field(x.Field).Name()] = true
		case *ssa.Field:
			out[st.Field(x.Field).Name()] = true
		}
	})
	return out
}

// paramFieldsRead: which fields of parameter p (index pi of f) f reads; top=true when p
// is used in any way that is not a field load (escapes, interface call, compare excluded).
func paramFieldsRead(f *ssa.Function, pi int, depth int, skip map[ssa.Instruction]bool) (fields map[string]bool, top bool, why string) {
	fields = map[string]bool{}
	if len(f.Blocks) == 0 || pi >= len(f.Params) {
		return fields, true, "body of " + core.FnName(f) + " not available"
	}
	p := f.Params[pi]
	st, isStruct := core.Deref(p.Type()).Underlying().(*types.Struct)
	aliases := map[ssa.Value]bool{p: true}
	// value receivers/params spilled to a local
	work := []ssa.Value{p}
	for len(work) > 0 {
		v := work[0]
		work = work[1:]
		refs := v.Referrers()
		if refs == nil {
			continue
		}
		for _, r := range *refs {
			if skip[r] {
				continue
			}
			switch x := r.(type) {
			case *ssa.DebugRef:
			case *ssa.FieldAddr:
				if isStruct && x.X == v {
					fields[st.Field(x.Field).Name()] = true
				} else {
					return fields, true, "address arithmetic on it"
				}
			case *ssa.Field:
				if isStruct {
					fields[st.Field(x.Field).Name()] = true
				}
			case *ssa.BinOp:
				// comparison with nil or another pointer: reads nothing
				if x.Op != token.EQL && x.Op != token.NEQ {
					return fields, true, "used in arithmetic"
				}
			case *ssa.If:
			case *ssa.Store:
				if al, ok := x.Addr.(*ssa.Alloc); ok && x.Val == v {
					// spilled: loads of the local are aliases
					for _, r2 := range *al.Referrers() {
						if u, ok := r2.(*ssa.UnOp); ok && u.Op == token.MUL && !aliases[u] {
							aliases[u] = true
							work = append(work, u)
						}
					}
					continue
				}
				return fields, true, "stored at " + x.Addr.Name()
			case *ssa.UnOp:
				if x.Op == token.MUL && !aliases[x] { // *p for a pointer to struct: value copy
					aliases[x] = true
					work = append(work, x)
				}
			case ssa.CallInstruction:
				c := x.Common()
				cal := c.StaticCallee()
				if cal == nil {
					return fields, true, "handed to " + core.CalleeName(x) + " (dynamic call)"
				}
				if depth <= 0 {
					return fields, true, "handed to " + core.FnName(cal)
				}
				for ai, a := range c.Args {
					if a != v {
						continue
					}
					sub, t, w := paramFieldsRead(cal, ai, depth-1, nil)
					if t {
						return fields, true, core.FnName(cal) + ": " + w
					}
					for k := range sub {
						fields[k] = true
					}
				}
			default:
				return fields, true, fmt.Sprintf("used by %T", r)
			}
		}
	}
	return fields, false, ""
}

func memoKeyComplete(ctx *core.Ctx, r *core.Report, fns []*ssa.Function) int {
	sites := findMemoSites(fns)
	sort.Slice(sites, func(i, j int) bool {
		return core.FnName(sites[i].fn)+sites[i].field < core.FnName(sites[j].fn)+sites[j].field
	})
	done := map[string]bool{}
	for _, s := range sites {
		f := s.fn
		base := core.FnName(f) + "/" + s.owner.Obj().Name() + "." + s.field
		for pi, p := range f.Params {
			if ssa.Value(p) == s.holder || core.Strip(s.holder) == ssa.Value(p) {
				continue // the table lives in this argument
			}
			key := base + "/" + p.Name()
			if done[key] {
				continue
			}
			if !valueDependsOn(s.update.Value, p, map[ssa.Value]bool{}) {
				continue
			}
			done[key] = true
			direct, kf, lossy, keyCalls := keyShape(s.lookup.Index, p)
			if direct {
				r.Ob("memo-key-complete", key, ctx.Pos(s.lookup.Pos()), true, "")
				continue
			}
			// the second key expression (at the update) is derivation too
			_, kf2, _, keyCalls2 := keyShape(s.update.Key, p)
			for k := range kf2 {
				kf[k] = true
			}
			skip := map[ssa.Instruction]bool{}
			for c := range keyCalls {
				skip[c] = true
			}
			for c := range keyCalls2 {
				skip[c] = true
			}
			used, top, why := paramFieldsRead(f, pi, 3, skip)
			ok := !top
			var extra []string
			if ok {
				for k := range used {
					if !kf[k] {
						ok = false
						extra = append(extra, k)
					}
				}
			}
			sort.Strings(extra)
			msg := ""
			if !ok {
				how := "is not part of the key"
				if len(lossy) > 0 {
					how = "enters the key only through " + strings.Join(lossy, ", ")
				} else if len(kf) > 0 {
					var ks []string
					for k := range kf {
						ks = append(ks, k)
					}
					sort.Strings(ks)
					how = "enters the key only through its field(s) " + strings.Join(ks, ", ")
				}
				what := why
				if !top {
					what = "its field(s) " + strings.Join(extra, ", ") + " are read"
				}
				msg = fmt.Sprintf("the answers of %s are remembered in %s.%s, but argument `%s` %s while the computation also depends on it otherwise (%s): a later call with an equal key and a different `%s` gets the answer computed for the first one", core.FnName(f), s.owner.Obj().Name(), s.field, p.Name(), how, what, p.Name())
			}
			r.Ob("memo-key-complete", key, ctx.Pos(s.lookup.Pos()), ok, msg)
		}
	}
	return len(sites)
}

// ---------------------------------------------------------------------------
// no-stale-verdicts (C09, C16, C04)
//
// A verdict about live data (which case holds data, whether a `when` is true,
// a value read from a node) that is remembered in a table must be forgotten
// when the data changes. Two necessary conditions are decided:
//
//	(1) the table is cleared somewhere (a nil/empty map stored to the field, or a
//	    delete on it) — with no invalidation at all the first answer is served
//	    for ever, whatever is edited afterwards;
//	(2) the struct holding the table is never copied by value — a copy shares
//	    the map while the invalidation (`x.tbl = nil`) resets one copy only.
//
// Tables that hold helper objects (reflection handlers etc.) rather than
// verdicts are not concerned: a verdict is a bool, number, string, val.Value or
// a schema node picked on the strength of the data.
// ---------------------------------------------------------------------------

func isVerdictType(t types.Type) bool {
	switch u := t.Underlying().(type) {
	case *types.Basic:
		return true
	case *types.Pointer:
		if n := core.NamedOf(u); n != nil && n.Obj().Pkg() != nil && n.Obj().Pkg().Path() == core.Full("meta") {
			return true
		}
	case *types.Interface:
		if n, ok := t.(*types.Named); ok && n.Obj().Pkg() != nil && (n.Obj().Pkg().Path() == core.Full("val") || n.Obj().Pkg().Path() == core.Full("meta")) {
			return true
		}
	}
	return false
}

// liveDataFuncs: functions from which a node.Node callback, a Selection
// method or package reflect is reachable.
func liveDataFuncs(ctx *core.Ctx) map[*ssa.Function]bool {
	g := ctx.CG()
	live := map[*ssa.Function]bool{}
	nodeIface := ctx.Named("node", "Node")
	var seeds []*ssa.Function
	for f := range g.Nodes {
		if f == nil {
			continue
		}
		p := core.FnPkgPath(f)
		if p == "reflect" {
			seeds = append(seeds, f)
			continue
		}
		if rv := f.Signature.Recv(); rv != nil && nodeIface != nil {
			if types.Implements(rv.Type(), nodeIface.Underlying().(*types.Interface)) {
				seeds = append(seeds, f)
			}
		}
	}
	// reverse reachability
	work := append([]*ssa.Function{}, seeds...)
	for _, s := range seeds {
		live[s] = true
	}
	for len(work) > 0 {
		f := work[0]
		work = work[1:]
		n := g.Nodes[f]
		if n == nil {
			continue
		}
		for _, e := range n.In {
			c := e.Caller.Func
			if c != nil && !live[c] {
				live[c] = true
				work = append(work, c)
			}
		}
	}
	return live
}

func noStaleVerdicts(ctx *core.Ctx, r *core.Report, fns []*ssa.Function, pkgs ...string) int {
	sites := findMemoSites(fns)
	if len(sites) == 0 {
		return 0
	}
	live := liveDataFuncs(ctx)
	callLive := func(c ssa.CallInstruction) bool {
		if cal := c.Common().StaticCallee(); cal != nil {
			return live[cal]
		}
		if c.Common().IsInvoke() {
			return true // a dynamic call: may be a node callback
		}
		return false
	}
	n := 0
	done := map[string]bool{}
	for _, s := range sites {
		mt, ok := s.update.Map.Type().Underlying().(*types.Map)
		if !ok || !isVerdictType(mt.Elem()) {
			continue
		}
		// does the stored value, or the condition under which it is stored, depend on live data?
		dep := false
		var depCall string
		seen := map[ssa.Value]bool{}
		var walk func(v ssa.Value)
		walk = func(v ssa.Value) {
			if v == nil || seen[v] || dep {
				return
			}
			seen[v] = true
			if c, ok := v.(*ssa.Call); ok && callLive(c) {
				dep, depCall = true, core.CalleeName(c)
				return
			}
			if in, ok := v.(ssa.Instruction); ok {
				for _, op := range in.Operands(nil) {
					if op != nil && *op != nil {
						walk(*op)
					}
				}
			}
		}
		walk(s.update.Value)
		for _, pc := range core.PathConds(s.update.Block()) {
			walk(pc.V)
		}
		if !dep {
			continue
		}
		key := core.FnName(s.fn) + "/" + s.owner.Obj().Name() + "." + s.field
		if done[key] {
			continue
		}
		done[key] = true
		n++
		// (1) invalidation anywhere in the given packages
		invalidated := false
		copied := ""
		for _, f := range ctx.RepoFuncs() {
			in := false
			for _, p := range pkgs {
				if core.FnPkgPath(f) == core.Full(p) {
					in = true
				}
			}
			if !in {
				continue
			}
			core.Instrs(f, func(_ *ssa.BasicBlock, ins ssa.Instruction) {
				switch x := ins.(type) {
				case *ssa.Store:
					if fa, ok := x.Addr.(*ssa.FieldAddr); ok && core.NamedOf(fa.X.Type()) == s.owner {
						st := core.Deref(fa.X.Type()).Underlying().(*types.Struct)
						if st.Field(fa.Field).Name() == s.field {
							if core.IsNilConst(x.Val) {
								invalidated = true
							}
							if _, isMake := core.Strip(x.Val).(*ssa.MakeMap); isMake && f != s.fn {
								invalidated = true
							}
						}
					}
					// struct copy: a whole value of the owner type stored into another location
					if u, ok := core.Strip(x.Val).(*ssa.UnOp); ok && u.Op == token.MUL && types.Identical(u.Type(), s.owner) {
						if _, isPtr := u.X.Type().Underlying().(*types.Pointer); isPtr {
							copied = ctx.Pos(x.Pos())
						}
					}
				case *ssa.Call:
					if b, ok := x.Common().Value.(*ssa.Builtin); ok && b.Name() == "delete" {
						if on, fld, _, ok := mapFieldOf(x.Common().Args[0]); ok && on == s.owner && fld == s.field {
							invalidated = true
						}
					}
				}
			})
		}
		r.Ob("no-stale-verdicts", key+"/invalidated", ctx.Pos(s.update.Pos()), invalidated,
			fmt.Sprintf("%s remembers in %s.%s an answer that depends on live data (%s) and nothing ever clears that table: after the data is edited the first answer is still served", core.FnName(s.fn), s.owner.Obj().Name(), s.field, depCall))
		if invalidated {
			r.Ob("no-stale-verdicts", key+"/holder-not-copied", ctx.Pos(s.update.Pos()), copied == "",
				fmt.Sprintf("%s.%s remembers answers about live data (%s), and %s values are copied by value (%s): the copies share one table while clearing it resets one copy only, so another node keeps serving the old answer", s.owner.Obj().Name(), s.field, depCall, s.owner.Obj().Name(), copied))
		}
	}
	return n
}

// ---------------------------------------------------------------------------
// visited-guard-only (C02, C14)
//
// `if _, done := x.visited[k]; done { return nil }` ends the work for k because
// it was done before. That early success may depend on nothing else: joined
// with another condition (`done || nothing-to-do-here`) the function also
// returns for items it never handled, skipping everything below — for
// compileImport the walk into the module's own imports.
// ---------------------------------------------------------------------------

func visitedGuardOnly(ctx *core.Ctx, r *core.Report, fns []*ssa.Function) int {
	n := 0
	for _, f := range fns {
		core.Instrs(f, func(b *ssa.BasicBlock, in ssa.Instruction) {
			ifi, ok := in.(*ssa.If)
			if !ok {
				return
			}
			ex, ok := ifi.Cond.(*ssa.Extract)
			if !ok || ex.Index != 1 {
				return
			}
			lk, ok := ex.Tuple.(*ssa.Lookup)
			if !ok || !lk.CommaOk {
				return
			}
			owner, fld, _, isField := mapFieldOf(lk.X)
			if !isField {
				return
			}
			// the same table is filled in this function (a visited set, not a lookup of input)
			filled := false
			core.Instrs(f, func(_ *ssa.BasicBlock, in2 ssa.Instruction) {
				if mu, ok := in2.(*ssa.MapUpdate); ok {
					if o2, f2, _, ok := mapFieldOf(mu.Map); ok && o2 == owner && f2 == fld {
						filled = true
					}
				}
			})
			if !filled {
				return
			}
			hit := b.Succs[0]
			// the hit side returns success at once
			var ret *ssa.Return
			if len(hit.Instrs) > 0 {
				ret, _ = hit.Instrs[len(hit.Instrs)-1].(*ssa.Return)
			}
			if ret == nil {
				return
			}
			ops := core.RetOperands(ret)
			if len(ops) == 0 || !core.IsNilConst(ops[len(ops)-1]) {
				return
			}
			n++
			r.Ob("visited-guard-only", core.FnName(f)+"/"+owner.Obj().Name()+"."+fld, ctx.Pos(ifi.Pos()), len(hit.Preds) == 1,
				"the early `already done` return of "+core.FnName(f)+" is also taken on another condition than the lookup in "+owner.Obj().Name()+"."+fld+": items that were never handled leave the function before the work below is done (for an imported module without identities of its own: its imports are never walked, so identities derived further down never reach their base)")
		})
	}
	return n
}
