package rules

import (
	"fmt"
	"go/token"
	"go/types"
	"strings"

	"golang.org/x/tools/go/ssa"

	"verif/checker/internal/core"
)

// Rules that back the repairs of defects found on the unchanged tree while
// triaging the round 3 side reports.

// c14StringNeedsInput: lexer.acceptString emits a token only on a path where the
// first character it read was tested against end of input. A space-delimited
// string accepted at end of input is an empty token that consumes nothing, and the
// unknown-statement loop of lexBegin (`a:b foo` cut off before its ';') accepts
// such tokens for ever.
func c14StringNeedsInput(ctx *core.Ctx, r *core.Report) {
	f := ctx.Method("parser", "lexer", "acceptString")
	next := ctx.Method("parser", "lexer", "next")
	emit := ctx.Method("parser", "lexer", "emit")
	if f == nil || next == nil || emit == nil {
		r.Fatalf("anchors parser.lexer.acceptString/next/emit not found")
		return
	}
	eofV, hasEof := constIntOf(ctx, "parser", "eof")
	if !hasEof {
		r.Fatalf("anchor parser.eof not found")
		return
	}
	var first ssa.Value
	for _, c := range callsStatic(f, next, false) {
		if body, _ := innerLoopOf(c.Block()); body == nil && c.Value() != nil {
			if first == nil || c.Block().Dominates(first.(*ssa.Call).Block()) {
				first = c.Value()
			}
		}
	}
	if first == nil {
		r.Fatalf("parser.lexer.acceptString: the read of the opening character was not recognised")
		return
	}
	n := 0
	for _, c := range callsStatic(f, emit, false) {
		n++
		ok := false
		for _, pc := range core.PathConds(c.Block()) {
			bo, isBo := pc.V.(*ssa.BinOp)
			if !isBo || core.Strip(bo.X) != first {
				continue
			}
			if k, isC := core.ConstInt(bo.Y); !isC || k != eofV {
				continue
			}
			if (bo.Op == token.EQL && !pc.True) || (bo.Op == token.NEQ && pc.True) {
				ok = true
			}
		}
		r.Ob("string-token-needs-input", fmt.Sprintf("parser.lexer.acceptString/emit#%d", n), ctx.Pos(c.Pos()), ok,
			"acceptString can emit a string token when the character it started on was end of input: the token is empty and nothing is consumed, so a loop that accepts strings until ';' or '{' (an extension statement cut off at the end of the text) never ends")
	}
	r.Floor("string-token-needs-input", n, 1)
}

// c14BelongsToNeedsParent: Builder.BelongsTo records the statement only on a module
// that has a parent (a submodule being included). The compiler follows belongs-to to
// `m.parent.(*Module)` / `m.Parent().(Definition)` without a test, so the statement
// on a plain module is a nil interface conversion during compile.
func c14BelongsToNeedsParent(ctx *core.Ctx, r *core.Report) {
	f := ctx.Method("meta", "Builder", "BelongsTo")
	if f == nil {
		r.Fatalf("anchor meta.Builder.BelongsTo not found")
		return
	}
	n := 0
	var stores []*ssa.Store
	core.Instrs(f, func(b *ssa.BasicBlock, in ssa.Instruction) {
		if st, isSt := in.(*ssa.Store); isSt {
			if fa, isFa := st.Addr.(*ssa.FieldAddr); isFa && faName(fa) == "belongsTo" {
				stores = append(stores, st)
			}
		}
	})
	for _, st := range stores {
		n++
		ok := false
		for _, pc := range core.PathConds(st.Block()) {
			bo, isBo := pc.V.(*ssa.BinOp)
			if !isBo || !core.IsNilConst(bo.Y) {
				continue
			}
			u, isU := core.Strip(bo.X).(*ssa.UnOp)
			if !isU {
				continue
			}
			fa, isFa := u.X.(*ssa.FieldAddr)
			if !isFa || faName(fa) != "parent" {
				continue
			}
			if (bo.Op == token.NEQ && pc.True) || (bo.Op == token.EQL && !pc.True) {
				ok = true
			}
		}
		r.Ob("belongs-to-needs-parent", fmt.Sprintf("meta.Builder.BelongsTo/store#%d", n), ctx.Pos(st.Pos()), ok,
			"belongs-to is recorded on a module without a parent: compile follows it to the parent module (findTypedef, findGrouping, findModuleAndIsExternal) and panics on the nil interface")
	}
	r.Floor("belongs-to-needs-parent", n, 1)
}

// keyByItsOwnLeaf: inside a loop, the key leaves of a list are indexed by the loop's
// own variable, never by a constant: `KeyMeta()[0]` in a loop over the key values
// types every key of a compound key like the first one (a row read of a list keyed
// "id name" with int32 id fails on the name, or returns the id as text).
func keyByItsOwnLeaf(ctx *core.Ctx, r *core.Report) {
	n := 0
	for _, f := range ctx.RepoFuncs() {
		if f.Pkg == nil {
			continue
		}
		pn := f.Pkg.Pkg.Name()
		if pn != "node" && pn != "nodeutil" {
			continue
		}
		k := 0
		core.Instrs(f, func(b *ssa.BasicBlock, in ssa.Instruction) {
			var x, idx ssa.Value
			switch v := in.(type) {
			case *ssa.IndexAddr:
				x, idx = v.X, v.Index
			case *ssa.Index:
				x, idx = v.X, v.Index
			default:
				return
			}
			c, isCall := core.Strip(x).(*ssa.Call)
			if !isCall {
				return
			}
			cal := core.StaticCallee(c)
			if cal == nil || cal.Name() != "KeyMeta" {
				return
			}
			if body, _ := innerLoopOf(b); body == nil {
				return
			}
			n++
			k++
			_, isConst := idx.(*ssa.Const)
			r.Ob("key-by-its-own-leaf", fmt.Sprintf("%s/KeyMeta-in-loop#%d", core.FnName(f), k), ctx.Pos(in.Pos()), !isConst,
				"inside a loop over the keys of a list entry the key leaf is picked with a constant index: every key of a compound key is converted with the type of that one leaf")
		})
	}
	r.Floor("key-by-its-own-leaf", n, 2)
}

// hookTestedIsHookCalled: nodeutil.Node, Basic and Extend dispatch to optional
// callback fields (OnChild, OnGetByKey, OnDeleteByKey, …). Every call through such a
// field is on a path where THAT field was tested non-nil — testing a sibling
// (`if n.OnGetByKey != nil { n.OnDeleteByKey(…) }`) calls a nil func for a node
// that sets only one of them, and skips the hook of a node that sets only the other.
func hookTestedIsHookCalled(ctx *core.Ctx, r *core.Report) {
	n := 0
	for _, f := range scopeFuncs(ctx, "nodeutil") {
		k := map[string]int{}
		for _, c := range core.CallSites(f) {
			if c.Common().IsInvoke() || core.StaticCallee(c) != nil {
				continue
			}
			u, isU := core.Strip(c.Common().Value).(*ssa.UnOp)
			if !isU {
				continue
			}
			fa, isFa := u.X.(*ssa.FieldAddr)
			if !isFa {
				continue
			}
			name := faName(fa)
			if !strings.HasPrefix(name, "On") {
				continue
			}
			if _, isSig := fa.Type().(*types.Pointer).Elem().Underlying().(*types.Signature); !isSig {
				continue
			}
			n++
			k[name]++
			ok := fieldTestedNonNil(c.Block(), fa.Field, core.Strip(fa.X))
			if !ok && !token.IsExported(f.Name()) && len(f.Params) > 0 && core.Strip(fa.X) == ssa.Value(f.Params[0]) {
				// an unexported helper: the test is its callers' (Basic.Next tests OnNextItem, then nextItem calls it)
				callers, all := 0, true
				for _, g := range scopeFuncs(ctx, "nodeutil") {
					for _, cc := range callsStatic(g, f, false) {
						callers++
						if !fieldTestedNonNil(cc.Block(), fa.Field, core.Strip(cc.Common().Args[0])) {
							all = false
						}
					}
				}
				ok = callers > 0 && all
			}
			r.Ob("hook-tested-is-hook-called", fmt.Sprintf("%s/%s#%d", core.FnName(f), name, k[name]), ctx.Pos(c.Pos()), ok,
				"an optional callback field is called on a path where it was not itself tested non-nil (a sibling field was, or none): a node that leaves it unset panics on the request, and a node that sets only this one is bypassed")
		}
	}
	r.Floor("hook-tested-is-hook-called", n, 30)
}

func faName(fa *ssa.FieldAddr) string {
	st, ok := core.Deref(fa.X.Type()).Underlying().(*types.Struct)
	if !ok || fa.Field >= st.NumFields() {
		return ""
	}
	return st.Field(fa.Field).Name()
}

// fieldTestedNonNil: block b is only reached when field #field of base was found non-nil.
func fieldTestedNonNil(b *ssa.BasicBlock, field int, base ssa.Value) bool {
	for _, pc := range core.PathConds(b) {
		bo, isBo := pc.V.(*ssa.BinOp)
		if !isBo || !core.IsNilConst(bo.Y) {
			continue
		}
		u2, isU2 := core.Strip(bo.X).(*ssa.UnOp)
		if !isU2 {
			continue
		}
		fa2, isFa2 := u2.X.(*ssa.FieldAddr)
		if !isFa2 || fa2.Field != field || core.Strip(fa2.X) != base {
			continue
		}
		if (bo.Op == token.NEQ && pc.True) || (bo.Op == token.EQL && !pc.True) {
			return true
		}
	}
	return false
}

// c02ExplicitNumberByFlag: whether an enum's value / a bit's position was written is
// decided from a flag the Builder sets with the statement, never from the number
// itself: `item.val > 0` treats `value 0` as not given, so the enum is renumbered
// after its predecessor (RFC 7950 9.6.4.2, 9.7.4.2).
func c02ExplicitNumberByFlag(ctx *core.Ctx, r *core.Report) {
	f := ctx.Method("meta", "compiler", "compileType")
	if f == nil {
		r.Fatalf("anchor meta.compiler.compileType not found")
		return
	}
	for _, fld := range []struct{ typ, field string }{{"Enum", "val"}, {"Bit", "Position"}} {
		loads, bad := 0, 0
		var at token.Pos
		core.Instrs(f, func(b *ssa.BasicBlock, in ssa.Instruction) {
			u, isU := in.(*ssa.UnOp)
			if !isU {
				return
			}
			fa, isFa := u.X.(*ssa.FieldAddr)
			if !isFa || faName(fa) != fld.field || !strings.HasSuffix(core.TypeName(core.Deref(fa.X.Type())), "meta."+fld.typ) {
				return
			}
			loads++
			if u.Referrers() == nil {
				return
			}
			for _, ref := range *u.Referrers() {
				if bo, isBo := ref.(*ssa.BinOp); isBo {
					if k, isC := core.ConstInt(bo.Y); isC && k == 0 && isCompare(bo.Op) {
						bad++
						at = bo.Pos()
					}
				}
			}
		})
		if at == token.NoPos {
			at = f.Pos()
		}
		r.Ob("explicit-number-by-flag", "meta.compiler.compileType/"+fld.typ+"."+fld.field, ctx.Pos(at), bad == 0,
			"the automatic numbering decides whether "+fld.typ+"."+fld.field+" was written by comparing the number with 0: an explicit 0 is taken as absent and replaced by the next free number")
	}
}

func isCompare(op token.Token) bool {
	switch op {
	case token.EQL, token.NEQ, token.LSS, token.LEQ, token.GTR, token.GEQ:
		return true
	}
	return false
}

// c06CommentEndBehindOpener: in lexer.acceptWS the search for "*/" starts at least two
// characters behind the position where "/*" was found. Testing after one character
// finds the end marker overlapping the opener: "/*/" is taken as a whole comment and
// the text it was meant to comment out is read as statements.
func c06CommentEndBehindOpener(ctx *core.Ctx, r *core.Report) {
	f := ctx.Method("parser", "lexer", "acceptWS")
	next := ctx.Method("parser", "lexer", "next")
	if f == nil || next == nil {
		r.Fatalf("anchors parser.lexer.acceptWS/next not found")
		return
	}
	hasPrefixOf := func(text string) *ssa.Call {
		var out *ssa.Call
		for _, c := range core.CallSites(f) {
			cal := core.StaticCallee(c)
			if cal == nil || core.FnName(cal) != "strings.HasPrefix" {
				continue
			}
			if s, ok := core.ConstString(c.Common().Args[1]); ok && s == text {
				if cc, isCall := c.(*ssa.Call); isCall && out == nil {
					out = cc
				}
			}
		}
		return out
	}
	start, end := hasPrefixOf("/*"), hasPrefixOf("*/")
	if start == nil || end == nil {
		r.Fatalf("parser.lexer.acceptWS: the tests for the comment markers were not recognised")
		return
	}
	var entry *ssa.BasicBlock
	for _, ref := range *start.Referrers() {
		if ifi, ok := ref.(*ssa.If); ok {
			entry = ifi.Block().Succs[0]
		}
	}
	if entry == nil || !(entry == end.Block() || entry.Dominates(end.Block())) {
		r.Fatalf("parser.lexer.acceptWS: the comment branch was not recognised")
		return
	}
	// characters consumed on the way from the branch to the first end test: the blocks
	// that lie on the dominator chain of the test, below the branch
	adv := int64(0)
	for _, b := range f.Blocks {
		if !(b == entry || entry.Dominates(b)) || !(b == end.Block() || b.Dominates(end.Block())) {
			continue
		}
		for _, in := range b.Instrs {
			if in == ssa.Instruction(end) {
				break
			}
			if c, ok := in.(*ssa.Call); ok && core.StaticCallee(c) == next {
				adv++
			}
			if st, ok := in.(*ssa.Store); ok {
				if fa, isFa := st.Addr.(*ssa.FieldAddr); isFa && faName(fa) == "pos" {
					if bo, isBo := st.Val.(*ssa.BinOp); isBo && bo.Op == token.ADD {
						if k, isC := core.ConstInt(bo.Y); isC && k > 0 {
							adv += k
						}
					}
				}
			}
		}
	}
	r.Ob("comment-end-behind-opener", "parser.lexer.acceptWS/block-comment", ctx.Pos(end.Pos()), adv >= 2,
		fmt.Sprintf("the first test for \"*/\" is made %d character(s) behind the start of \"/*\": the end marker can overlap the opener, \"/*/\" counts as a whole comment and the commented-out text is read as statements", adv))
}

// c01CaseMembersIndexedInHolder: the node that holds a choice finds the members of
// the choice's cases through its own name index, which is filled when the choice is
// added. resolver.addDataDefinition is the one place the resolver adds a node to a
// parent; when that parent is a case, it must also enter the node into the index of
// the choice's holder — otherwise nodes that reach a case later (uses in a case,
// nested choice, augment of a choice or case) cannot be found by name.
func c01CaseMembersIndexedInHolder(ctx *core.Ctx, r *core.Report) {
	f := ctx.Method("meta", "resolver", "addDataDefinition")
	if f == nil {
		r.Fatalf("anchor meta.resolver.addDataDefinition not found")
		return
	}
	var parent *ssa.Parameter
	for _, p := range f.Params {
		if p.Name() == "parent" {
			parent = p
		}
	}
	if parent == nil {
		r.Fatalf("meta.resolver.addDataDefinition: parameter parent not found")
		return
	}
	// a call that receives `parent.(*ChoiceCase)` and reaches an indexDataDefinition
	ok := false
	reachesIndex := func(g *ssa.Function) bool {
		found := false
		core.Instrs(g, func(b *ssa.BasicBlock, in ssa.Instruction) {
			if c, isCall := in.(ssa.CallInstruction); isCall {
				if c.Common().IsInvoke() && c.Common().Method.Name() == "indexDataDefinition" {
					found = true
				}
				if cal := core.StaticCallee(c); cal != nil && cal.Name() == "indexDataDefinition" {
					found = true
				}
			}
		})
		return found
	}
	for _, c := range core.CallSites(f) {
		cal := core.StaticCallee(c)
		if cal == nil || cal.Pkg == nil || cal.Pkg.Pkg.Name() != "meta" || !reachesIndex(cal) {
			continue
		}
		for _, a := range c.Common().Args {
			v := core.Strip(a)
			if ex, isEx := v.(*ssa.Extract); isEx {
				v = ex.Tuple
			}
			if ta, isTa := v.(*ssa.TypeAssert); isTa && core.Strip(ta.X) == ssa.Value(parent) && strings.HasSuffix(core.TypeName(ta.AssertedType), "meta.ChoiceCase") {
				ok = true
			}
		}
	}
	r.Ob("case-members-indexed-in-holder", "meta.resolver.addDataDefinition/case-parent", ctx.Pos(f.Pos()), ok,
		"a node added to a case is not entered into the name index of the node that holds the choice: a node that reaches the case after the choice was added (uses inside a case, nested choice, augment of a choice or case) cannot be addressed by name, and switching away from its case fails")
}

// c07ConstraintsKeepNoTally: a constraint object lives as long as the constrained
// selection and is consulted by every read made through it. A Check…Constraints
// method that writes a field of its own receiver carries state from one read into the
// next: the second read of `sel.Constrain("fc.max-node-count=3")` starts counting
// where the first one stopped.
func c07ConstraintsKeepNoTally(ctx *core.Ctx, r *core.Report) {
	n := 0
	for _, f := range scopeFuncs(ctx, "node") {
		if f.Signature.Recv() == nil || !strings.HasPrefix(f.Name(), "Check") || !strings.HasSuffix(f.Name(), "Constraints") {
			continue
		}
		if strings.HasSuffix(core.TypeName(core.Deref(f.Signature.Recv().Type())), "node.Constraints") {
			continue // the dispatcher over the registered constraints
		}
		n++
		if len(f.Params) == 0 {
			continue
		}
		recv := f.Params[0]
		written := map[string]token.Pos{}
		core.Instrs(f, func(b *ssa.BasicBlock, in ssa.Instruction) {
			if st, isSt := in.(*ssa.Store); isSt {
				if fa, isFa := st.Addr.(*ssa.FieldAddr); isFa && core.Strip(fa.X) == ssa.Value(recv) {
					written[faName(fa)] = st.Pos()
				}
			}
		})
		if len(written) == 0 {
			r.Ob("constraints-keep-no-tally", core.FnName(f), ctx.Pos(f.Pos()), true, "")
			continue
		}
		for name, pos := range written {
			r.Ob("constraints-keep-no-tally", core.FnName(f)+"/"+name, ctx.Pos(pos), false,
				"a constraint writes its own field "+name+" while it is consulted: the constraint outlives the read (it belongs to the constrained selection), so the next read through the same selection starts from the state the previous one left")
		}
	}
	r.Floor("constraints-keep-no-tally", n, 8)
}

// c02CloneUnionMembers: the fresh Type a clone() gives its copy does not share the
// member types of a union with the template: the field unionTypes of the new Type is
// stored with a value that is not the template's slice (compileType compiles a member
// once — `format != 0` — so a shared member keeps the leafref target of the first use).
func c02CloneUnionMembers(ctx *core.Ctx, r *core.Report) {
	n := 0
	for _, f := range cloneFuncs(ctx) {
		named := core.NamedOf(f.Signature.Recv().Type())
		if named == nil {
			continue
		}
		st, ok := named.Underlying().(*types.Struct)
		if !ok {
			continue
		}
		idx := -1
		for i := 0; i < st.NumFields(); i++ {
			if st.Field(i).Name() == "dtype" {
				idx = i
			}
		}
		if idx < 0 {
			continue
		}
		var fresh *ssa.Alloc
		core.Instrs(f, func(_ *ssa.BasicBlock, in ssa.Instruction) {
			if s, ok := in.(*ssa.Store); ok {
				if fa, ok := s.Addr.(*ssa.FieldAddr); ok && fa.Field == idx && core.NamedOf(fa.X.Type()) == named {
					if a, isAlloc := s.Val.(*ssa.Alloc); isAlloc {
						fresh = a
					}
				}
			}
		})
		if fresh == nil {
			continue // reported by clone-type-unconditional
		}
		n++
		ok = false
		if fresh.Referrers() != nil {
			for _, ref := range *fresh.Referrers() {
				fa, isFa := ref.(*ssa.FieldAddr)
				if !isFa || faName(fa) != "unionTypes" || fa.Referrers() == nil {
					continue
				}
				for _, r2 := range *fa.Referrers() {
					if s, isSt := r2.(*ssa.Store); isSt && s.Addr == ssa.Value(fa) {
						// anything but the template's own slice read back
						if u, isLoad := core.Strip(s.Val).(*ssa.UnOp); isLoad {
							if fa2, isFa2 := u.X.(*ssa.FieldAddr); isFa2 && faName(fa2) == "unionTypes" {
								continue
							}
						}
						ok = true
					}
				}
			}
		}
		r.Ob("clone-union-members", "meta."+named.Obj().Name()+".clone/dtype.unionTypes", ctx.Pos(fresh.Pos()), ok,
			"the copy's own Type still shares the union member types with the template: a member is compiled once, so a relative leafref among the members of a union in a grouping resolves from the first use for every use")
	}
	r.Floor("clone-union-members", n, 2)
}

// c01FeaturesAfterIncludes: resolver.module initialises the feature set from the
// module's features after the submodules were merged into it (their features are
// features of the module) and before the module's own definitions are entered (where
// if-feature is evaluated).
func c01FeaturesAfterIncludes(ctx *core.Ctx, r *core.Report) {
	mod := ctx.Method("meta", "resolver", "module")
	if mod == nil {
		r.Fatalf("anchor meta.resolver.module not found")
		return
	}
	inc := firstCall(mod, namedCall("meta.resolver.copyOverIncludes"))
	ent := firstCall(mod, namedCall("meta.resolver.enter"))
	ini := firstCall(mod, func(c ssa.CallInstruction) bool {
		return c.Common().IsInvoke() && c.Common().Method.Name() == "Initialize"
	})
	if inc == nil || ent == nil || ini == nil {
		r.Fatalf("meta.resolver.module: copyOverIncludes / FeatureSet.Initialize / enter not all found")
		return
	}
	before := func(a, b ssa.CallInstruction) bool {
		if a.Block() == b.Block() {
			return instrIndex(a) < instrIndex(b)
		}
		return !reachableAvoiding(b.Block(), a.Block(), nil)
	}
	r.Ob("phase-order", "meta.resolver.module/includes ≺ feature set", ctx.Pos(ini.Pos()), before(inc, ini),
		"the feature set is initialised before the submodules are merged: a feature defined in a submodule is never enabled and every node depending on it is dropped")
	r.Ob("phase-order", "meta.resolver.module/feature set ≺ own uses", ctx.Pos(ini.Pos()), before(ini, ent),
		"the module's definitions are entered (if-feature evaluated) before the feature set knows the module's features")
}
