package rules

import (
	"fmt"
	"go/token"
	"go/types"
	"sort"

	"golang.org/x/tools/go/ssa"

	"verif/checker/internal/core"
)

// ---------------------------------------------------------------------------
// lost-update (C01, shared)
//
// x.f = g(x.f …) is a read-modify-write of field f. If, between the read and
// the write, the function calls something that itself writes field f of an
// object of the same type (directly or through its callees), the write puts
// back a value computed from the stale read and whatever the call stored is
// lost. (copyOverSubmoduleData appends the submodule's augments to the module's
// and then merges the nested includes, which append theirs: computing the
// appended list first and storing it after the nested merge drops the nested
// submodules' augments.)
// ---------------------------------------------------------------------------

type fieldKey struct {
	owner *types.Named
	field int
}

// fieldWriteSummaries: for every repo function, the (type, field) pairs it may
// store to, transitively through the call graph.
func fieldWriteSummaries(ctx *core.Ctx) map[*ssa.Function]map[fieldKey]bool {
	direct := map[*ssa.Function]map[fieldKey]bool{}
	fns := ctx.RepoFuncs()
	for _, f := range fns {
		set := map[fieldKey]bool{}
		core.Instrs(f, func(_ *ssa.BasicBlock, in ssa.Instruction) {
			st, ok := in.(*ssa.Store)
			if !ok {
				return
			}
			if fa, ok := st.Addr.(*ssa.FieldAddr); ok {
				if n := core.NamedOf(fa.X.Type()); n != nil {
					set[fieldKey{n, fa.Field}] = true
				}
			}
		})
		direct[f] = set
	}
	// propagate callee → caller with a worklist
	g := ctx.CG()
	work := append([]*ssa.Function{}, fns...)
	inWork := map[*ssa.Function]bool{}
	for _, f := range fns {
		inWork[f] = true
	}
	for len(work) > 0 {
		f := work[len(work)-1]
		work = work[:len(work)-1]
		inWork[f] = false
		n := g.Nodes[f]
		if n == nil || len(direct[f]) == 0 {
			continue
		}
		for _, e := range n.In {
			c := e.Caller.Func
			cs, isRepo := direct[c]
			if !isRepo {
				continue
			}
			grew := false
			for k := range direct[f] {
				if !cs[k] {
					cs[k] = true
					grew = true
				}
			}
			if grew && !inWork[c] {
				inWork[c] = true
				work = append(work, c)
			}
		}
	}
	return direct
}

func lostUpdate(ctx *core.Ctx, r *core.Report, fns []*ssa.Function) int {
	sums := fieldWriteSummaries(ctx)
	g := ctx.CG()
	n := 0
	for _, f := range fns {
		core.Instrs(f, func(_ *ssa.BasicBlock, in ssa.Instruction) {
			st, ok := in.(*ssa.Store)
			if !ok {
				return
			}
			fa, ok := st.Addr.(*ssa.FieldAddr)
			if !ok {
				return
			}
			owner := core.NamedOf(fa.X.Type())
			if owner == nil {
				return
			}
			// loads of the same field of the same base that the stored value derives from
			var loads []*ssa.UnOp
			seen := map[ssa.Value]bool{}
			var walk func(v ssa.Value, d int)
			walk = func(v ssa.Value, d int) {
				if v == nil || seen[v] || d > 6 {
					return
				}
				seen[v] = true
				switch x := v.(type) {
				case *ssa.UnOp:
					if x.Op == token.MUL {
						if fa2, ok := x.X.(*ssa.FieldAddr); ok && fa2.Field == fa.Field && fa2.X == fa.X {
							loads = append(loads, x)
							return
						}
					}
					walk(x.X, d+1)
				case *ssa.Call:
					if b, ok := x.Common().Value.(*ssa.Builtin); ok && b.Name() == "append" {
						for _, a := range x.Common().Args {
							walk(a, d+1)
						}
					}
				case *ssa.Phi:
					for _, e := range x.Edges {
						walk(e, d+1)
					}
				case *ssa.Slice:
					walk(x.X, d+1)
				case *ssa.BinOp:
					walk(x.X, d+1)
					walk(x.Y, d+1)
				}
			}
			walk(st.Val, 0)
			if len(loads) == 0 {
				return
			}
			n++
			key := fieldKey{owner, fa.Field}
			fname := core.Deref(fa.X.Type()).Underlying().(*types.Struct).Field(fa.Field).Name()
			// calls between a load and the store
			var culprits []string
			for _, ld := range loads {
				for _, c := range core.CallSites(f) {
					ci := c.(ssa.Instruction)
					if !instrDominates(ld, ci) || !instrDominates(ci, st) {
						continue
					}
					if _, isB := c.Common().Value.(*ssa.Builtin); isB {
						continue
					}
					writes := false
					if cal := c.Common().StaticCallee(); cal != nil {
						writes = sums[cal][key]
					} else if node := g.Nodes[f]; node != nil {
						for _, e := range node.Out {
							if e.Site == c && sums[e.Callee.Func][key] {
								writes = true
							}
						}
					}
					if writes {
						culprits = append(culprits, core.CalleeName(c))
					}
				}
			}
			sort.Strings(culprits)
			r.Ob("lost-update", fmt.Sprintf("%s/%s.%s", core.FnName(f), owner.Obj().Name(), fname), ctx.Pos(st.Pos()), len(culprits) == 0,
				fmt.Sprintf("%s.%s is written back from a value computed before the call of %v, which itself writes %s.%s: what that call stored there is overwritten by the stale value (for the merge of a submodule: the augments, deviations or extensions of the submodules it includes in turn are lost)", owner.Obj().Name(), fname, culprits, owner.Obj().Name(), fname))
		})
	}
	return n
}

// ---------------------------------------------------------------------------
// textual-order-kept (C01, C06)
//
// Collections the schema keeps in a slice (augments, data definitions, musts,
// revisions, …) are in the order the statements were written, and the property
// says that order is what the compiled tree shows. Sorting such a slice — in
// place, the accessor hands out the field's own backing array — re-orders the
// schema itself; sort.Slice is not even stable. Sorting a slice of names built
// for the purpose (sortedIdentityNames, CaseIdents) is something else and is
// recognised by the slice being allocated in the sorting function.
// ---------------------------------------------------------------------------

func textualOrderKept(ctx *core.Ctx, r *core.Report, fns []*ssa.Function) int {
	isSort := func(c ssa.CallInstruction) bool {
		cal := c.Common().StaticCallee()
		if cal == nil || cal.Pkg == nil {
			return false
		}
		p := cal.Pkg.Pkg.Path()
		return p == "sort" || (p == "slices" && len(cal.Name()) >= 4 && cal.Name()[:4] == "Sort")
	}
	getters := map[*ssa.Function]bool{}
	for _, f := range ctx.RepoFuncs() {
		if pureGetter(f) {
			getters[f] = true
		}
	}
	// does v come from a slice field of a schema (package meta) object?
	var fromSchemaSlice func(v ssa.Value, d int) string
	fromSchemaSlice = func(v ssa.Value, d int) string {
		if v == nil || d > 5 {
			return ""
		}
		switch x := v.(type) {
		case *ssa.MakeInterface:
			return fromSchemaSlice(x.X, d+1)
		case *ssa.ChangeType:
			return fromSchemaSlice(x.X, d+1)
		case *ssa.Convert:
			return fromSchemaSlice(x.X, d+1)
		case *ssa.Slice:
			return fromSchemaSlice(x.X, d+1)
		case *ssa.Phi:
			for _, e := range x.Edges {
				if s := fromSchemaSlice(e, d+1); s != "" {
					return s
				}
			}
		case *ssa.UnOp:
			if x.Op == token.MUL {
				if fa, ok := x.X.(*ssa.FieldAddr); ok {
					if n := core.NamedOf(fa.X.Type()); n != nil && n.Obj().Pkg() != nil && n.Obj().Pkg().Path() == core.Full("meta") {
						st := core.Deref(fa.X.Type()).Underlying().(*types.Struct)
						if _, isSl := st.Field(fa.Field).Type().Underlying().(*types.Slice); isSl {
							return n.Obj().Name() + "." + st.Field(fa.Field).Name()
						}
					}
				}
				if al, ok := x.X.(*ssa.Alloc); ok {
					for _, ref := range *al.Referrers() {
						if st, ok := ref.(*ssa.Store); ok && st.Addr == ssa.Value(al) {
							if s := fromSchemaSlice(st.Val, d+1); s != "" {
								return s
							}
						}
					}
				}
			}
		case *ssa.Call:
			cal := x.Common().StaticCallee()
			if cal != nil && getters[cal] && len(cal.Params) == 1 {
				if n := core.NamedOf(cal.Params[0].Type()); n != nil && n.Obj().Pkg() != nil && n.Obj().Pkg().Path() == core.Full("meta") {
					if _, isSl := cal.Signature.Results().At(0).Type().Underlying().(*types.Slice); isSl {
						return n.Obj().Name() + "." + cal.Name() + "()"
					}
				}
			}
			if x.Common().IsInvoke() {
				if _, isSl := x.Type().Underlying().(*types.Slice); isSl {
					if n := core.NamedOf(x.Common().Value.Type()); n != nil && n.Obj().Pkg() != nil && n.Obj().Pkg().Path() == core.Full("meta") {
						return n.Obj().Name() + "." + x.Common().Method.Name() + "()"
					}
				}
			}
		case *ssa.FreeVar:
			// the slice captured by a sort.Slice less-closure: look at the binding
			return ""
		}
		return ""
	}
	n := 0
	for _, f := range fns {
		for _, c := range core.CallSites(f) {
			if !isSort(c) || len(c.Common().Args) == 0 {
				continue
			}
			n++
			src := fromSchemaSlice(c.Common().Args[0], 0)
			r.Ob("textual-order-kept", core.FnName(f)+"/"+core.CalleeName(c), ctx.Pos(c.Pos()), src == "",
				"a collection of the schema that is kept in the order its statements were written ("+src+") is sorted in place: the accessor hands out the schema's own slice, so the compiled tree no longer shows augments / definitions in textual order (and sort.Slice is not stable: equal elements are permuted)")
		}
	}
	return n
}

// ---------------------------------------------------------------------------
// append-aliasing (C07, C02, shared)
//
// `y[k] = append(x, more...)` inside a loop in which x stays the same appends
// to one and the same x several times. When x has spare capacity every append
// writes into x's own backing array and all results share it: the last one
// wins (fields=a/b/c/(d;e) became a/b/c/e twice). An append whose result goes
// back to where x came from (x = append(x, …), the ordinary growing of a slice)
// is not concerned, nor is one whose base was made for the purpose in the same
// iteration.
// ---------------------------------------------------------------------------

func appendAliasing(ctx *core.Ctx, r *core.Report, fns []*ssa.Function) int {
	n := 0
	for _, f := range fns {
		core.Instrs(f, func(b *ssa.BasicBlock, in ssa.Instruction) {
			c, ok := in.(*ssa.Call)
			if !ok {
				return
			}
			if bi, ok := c.Common().Value.(*ssa.Builtin); !ok || bi.Name() != "append" {
				return
			}
			body, _ := innerLoopOf(b)
			if body == nil {
				return
			}
			base := c.Common().Args[0]
			// a base made in this iteration (make, literal, another append of a fresh slice) is its own array
			switch x := core.Strip(base).(type) {
			case *ssa.MakeSlice, *ssa.Const:
				return
			case *ssa.Slice:
				if _, isAlloc := x.X.(*ssa.Alloc); isAlloc {
					return
				}
			case *ssa.Call:
				if bi, ok := x.Common().Value.(*ssa.Builtin); ok && bi.Name() == "append" {
					return
				}
			}
			bi, isInstr := base.(ssa.Instruction)
			definedInLoop := isInstr && body[bi.Block()]
			if _, isPhi := base.(*ssa.Phi); isPhi && definedInLoop {
				return // the growing slice itself, carried round the loop
			}
			if definedInLoop {
				// defined in this innermost loop: a fresh load per iteration — fine unless it is
				// the element of an outer range (dest of the outer loop, constant for this loop): handled by outer check
				// a load of the same location the result is stored to is ordinary growth
			}
			// where does the result go?
			var sameLoc, otherLoc bool
			if c.Referrers() != nil {
				for _, ref := range *c.Referrers() {
					st, isSt := ref.(*ssa.Store)
					if !isSt {
						if ph, isPhi := ref.(*ssa.Phi); isPhi && ssa.Value(ph) == base {
							sameLoc = true
						}
						continue
					}
					// the location base was loaded from
					if u, isU := core.Strip(base).(*ssa.UnOp); isU && sameAddr(u.X, st.Addr) {
						sameLoc = true
					} else {
						otherLoc = true
					}
				}
			}
			if sameLoc || !otherLoc {
				return
			}
			if definedInLoop {
				return
			}
			n++
			r.Ob("append-aliasing", fmt.Sprintf("%s/append-in-loop#%d", core.FnName(f), n), ctx.Pos(c.Pos()), false,
				"inside a loop the same slice is used as the base of several appends whose results are kept separately: when that slice has spare capacity the results share its array and the last append overwrites the others")
		})
	}
	return n
}

func sameAddr(a, b ssa.Value) bool {
	if a == b {
		return true
	}
	switch x := a.(type) {
	case *ssa.FieldAddr:
		y, ok := b.(*ssa.FieldAddr)
		return ok && x.Field == y.Field && (x.X == y.X || sameAddr(x.X, y.X))
	case *ssa.IndexAddr:
		y, ok := b.(*ssa.IndexAddr)
		return ok && x.Index == y.Index && (x.X == y.X || sameAddr(x.X, y.X))
	case *ssa.UnOp:
		y, ok := b.(*ssa.UnOp)
		return ok && x.Op == y.Op && sameAddr(x.X, y.X)
	}
	return false
}
