package rules

import (
	"fmt"
	"go/types"
	"sort"
	"strings"

	"golang.org/x/tools/go/ssa"

	"verif/checker/internal/core"
	"verif/checker/internal/yacc"
)

// loadRoots: the LOAD entry set.
func loadRoots(ctx *core.Ctx, r *core.Report) []*ssa.Function {
	return resolveRoots(ctx, r, []string{
		"parser.LoadModule", "parser.LoadModuleWithOptions",
		"parser.LoadModuleFromString", "parser.LoadModuleFromStringWithOptions",
		"meta.Compile",
	})
}

// walkRoots: every exported method of every exported type of package meta.
func walkRoots(ctx *core.Ctx, r *core.Report) []*ssa.Function {
	tp := ctx.TPkg("meta")
	if tp == nil {
		r.Fatalf("package meta not found")
		return nil
	}
	var out []*ssa.Function
	names := tp.Scope().Names()
	sort.Strings(names)
	for _, n := range names {
		tn, ok := tp.Scope().Lookup(n).(*types.TypeName)
		if !ok || !tn.Exported() {
			continue
		}
		named, ok := tn.Type().(*types.Named)
		if !ok || types.IsInterface(named) {
			continue
		}
		// Builder is the construction API (LOAD side), not an accessor
		if n == "Builder" {
			continue
		}
		for i := 0; i < named.NumMethods(); i++ {
			m := named.Method(i)
			if m.Exported() {
				if f := ctx.Prog.FuncValue(m); f != nil {
					out = append(out, f)
				}
			}
		}
	}
	for _, fn := range []string{"Find", "RootModule", "OriginalModule", "SchemaPath", "SchemaPathNoModule", "FindIdentity"} {
		if f := ctx.Fn("meta", fn); f != nil {
			out = append(out, f)
		}
	}
	return out
}

func c14OutOfScope(f *ssa.Function) bool {
	p := core.FnPkgPath(f)
	switch {
	case p == core.Full("patch/xml"), p == core.Full("fc"), p == core.Full("testdata"):
		return true
	case strings.HasPrefix(p, core.Full("cmd")):
		return true
	case p == core.Full("node"), p == core.Full("nodeutil"), p == core.Full("val"), p == core.Full("xpath"):
		// not part of loading; covered by C13
		return true
	}
	return false
}

func C14(ctx *core.Ctx, r *core.Report) {
	r.Explanation = "Crash classes reachable while loading a module (LOAD entry set) or walking a compiled module through meta's exported accessors (WALK): explicit panics (K1), unchecked type assertions not discharged by guard, static type, sealed-interface closed world or dynamic type set (K2), constant/len-relative indexing without a length test (K4); plus the module-xor-error shape of the load entry points (K7), fixed-capacity lexer buffers (K3) and a frozen table of recursion cycles with their termination argument (K5). Also: parallel indexing (K4b), every cycle of the YANG lexer's loops moves the input position forward (next(), positive constant, successful accept; backup() cancels), and grammar actions stop the parse after a failed Builder call whose result they push. Not decided: nil dereferences outside these classes, stack depth of structural recursion on deeply nested input, termination of loops other than the recursion cycles."
	roots := append(loadRoots(ctx, r), walkRoots(ctx, r)...)
	e := newCrashEngine(ctx, r, roots, c14OutOfScope)
	sites := e.sites("K1 K2 K4")
	e.record("crash", sites, c14Triage)
	parallelIndex(ctx, r, e.reach, c14OutOfScope, c14ParallelTriage, 1)
	fixedBuffer(ctx, r, e.reach, c14OutOfScope, nil, 2)
	c14ModuleXorError(ctx, r)
	c14GuardBacking(ctx, r)
	c14WorklistGuard(ctx, r)
	c14EveryBaseCompiled(ctx, r)
	c14LexerPosInBounds(ctx, r)
	c14PoolCoversEveryHolder(ctx, r)
	c14TokenizerSetsAgree(ctx, r)
	c14StringNeedsInput(ctx, r)
	c14BelongsToNeedsParent(ctx, r)
	c14ImportRememberedAsAsked(ctx, r)
	c14SingleDefaultGuard(ctx, r)
	c14AnyRejectedByDeviationCheck(ctx, r)
	// an import of a submodule that is not merged is never resolved: its module stays nil
	c01SubmoduleMergeComplete(ctx, r)
	c14Recursion(ctx, r, roots)
	lexerCycleAdvances(ctx, r, "parser", e.reach, c14LexTriage, 8)
	// a failed builder call leaves nil on the parser's stack unless the action stops the parse
	if g := loadGrammar(ctx, r, "parser/parser.y"); g != nil {
		c06BuilderErrorChecked(ctx, r, g)
		c14GrammarContexts(ctx, r, g)
	}
}

// c14ModuleXorError (K7): in every function of the load path that returns
// (*meta.Module, error), a return whose error may be non-nil returns a nil
// module, and a return of a non-nil module returns a nil error.
func c14ModuleXorError(ctx *core.Ctx, r *core.Report) {
	specs := []string{
		"parser.LoadModule", "parser.LoadModuleWithOptions",
		"parser.LoadModuleFromString", "parser.LoadModuleFromStringWithOptions",
		"parser.parser.parseModule", "parser.parser.loadAndParseModule",
	}
	n := 0
	for _, spec := range specs {
		fn := ctx.Lookup(spec)
		if fn == nil {
			r.Fatalf("anchor %s not found", spec)
			continue
		}
		res := fn.Signature.Results()
		if res.Len() != 2 || !core.IsErrorType(res.At(1).Type()) {
			r.Fatalf("%s: unexpected result signature", spec)
			continue
		}
		for _, ret := range core.Returns(fn) {
			if fn.Recover != nil && ret.Block() == fn.Recover {
				continue // synthetic return of the recover block; the function has no recover()
			}
			n++
			ops := core.RetOperands(ret)
			mod, errv := ops[0], ops[1]
			ok, why := true, ""
			switch {
			case core.IsNilConst(errv):
				// success return
			case core.IsNilConst(mod):
				// failure return
			default:
				// both may be non-nil: accept only a forwarded (m, err) pair of one call
				em, ok1 := mod.(*ssa.Extract)
				ee, ok2 := errv.(*ssa.Extract)
				if ok1 && ok2 && em.Tuple == ee.Tuple && em.Index == 0 && ee.Index == 1 {
					if c, isCall := em.Tuple.(*ssa.Call); isCall {
						if cal := core.StaticCallee(c); cal != nil && cal.Signature.Results().Len() == 2 {
							break // the callee is checked by this same rule (listed) or is the Loader contract
						}
					}
				}
				// error proven nil on this path? (dominated by err != nil → returned earlier)
				if errNilHere(ret.Block(), errv) {
					break
				}
				ok, why = false, "returns a module together with an error that may be non-nil"
			}
			r.Ob("module-xor-error", core.FnName(fn)+"/return", ctx.Pos(ret.Pos()), ok, why)
		}
	}
	r.Floor("module-xor-error", n, 12)
}

// errNilHere: the block is dominated by the false edge of `v != nil` or the
// true edge of `v == nil`.
func errNilHere(b *ssa.BasicBlock, v ssa.Value) bool {
	for _, pc := range core.PathConds(b) {
		bo, ok := pc.V.(*ssa.BinOp)
		if !ok {
			continue
		}
		if (bo.X == v && core.IsNilConst(bo.Y)) || (bo.Y == v && core.IsNilConst(bo.X)) {
			if bo.Op.String() == "!=" && !pc.True {
				return true
			}
			if bo.Op.String() == "==" && pc.True {
				return true
			}
		}
	}
	return false
}

// c14GuardBacking re-checks, on every run, the guards that the triage table's
// reasons rely on (a triage reason that names a guard is only as good as the guard).
func c14GuardBacking(ctx *core.Ctx, r *core.Report) {
	// (a) applyDeviation validates the target kind before applying any deviate
	ad := ctx.Method("meta", "resolver", "applyDeviation")
	chk := ctx.Method("meta", "resolver", "checkDeviationTarget")
	if ad == nil || chk == nil {
		r.Ob("guard-backing", "meta.resolver.applyDeviation→checkDeviationTarget", "-", false, "applyDeviation no longer validates the deviation target's kind (checkDeviationTarget missing): the deviate branches dereference nil / assert unchecked")
	} else {
		cs := callsStatic(ad, chk, false)
		ok, msg := len(cs) == 1, "checkDeviationTarget is not called exactly once"
		if ok {
			c := cs[0]
			ev := errResult(c)
			if ev == nil || !flowsToReturn(ev, 0, map[ssa.Value]bool{}) {
				ok, msg = false, "the error of checkDeviationTarget is not returned"
			}
			// every unchecked assertion / discarded-ok use after the not-supported branch is dominated by the call
			core.Instrs(ad, func(b *ssa.BasicBlock, in ssa.Instruction) {
				ta, isTa := in.(*ssa.TypeAssert)
				if !isTa || ta.CommaOk {
					return
				}
				t := core.TypeName(ta.AssertedType)
				if strings.HasSuffix(t, "HasMusts") || strings.HasSuffix(t, "meta.List") || strings.HasSuffix(t, "HasDefaultValue") {
					if !instrDominates(c, ta) {
						ok, msg = false, "an unchecked assertion on the deviation target ("+t+") is not dominated by checkDeviationTarget"
					}
				}
			})
			// the hasDets/hasType/hasListDets flags handed to the check are derived from the comma-ok results
			if len(c.Common().Args) != 6 {
				ok, msg = false, "checkDeviationTarget's signature changed"
			}
		}
		r.Ob("guard-backing", "meta.resolver.applyDeviation→checkDeviationTarget", ctx.Pos(ad.Pos()), ok, msg)
		// the check itself must be able to fail for each property group: it returns ≥ 5 distinct errors
		nErr := 0
		for _, ret := range core.Returns(chk) {
			ops := core.RetOperands(ret)
			if !core.IsNilConst(ops[len(ops)-1]) {
				nErr++
			}
		}
		r.Ob("guard-backing", "meta.resolver.checkDeviationTarget/rejects", ctx.Pos(chk.Pos()), nErr >= 5,
			fmt.Sprintf("checkDeviationTarget has %d failing returns; it must reject config/mandatory, min/max-elements, units/default, must and unique on targets that cannot carry them", nErr))
	}
	// (b) Builder.Default tests HasDefault before addDefault on single-valued targets
	if bd := ctx.Method("meta", "Builder", "Default"); bd != nil {
		ok := false
		for _, c := range core.CallSites(bd) {
			if m := core.IfaceMethod(c); m == nil || m.Name() != "addDefault" {
				continue
			}
			for _, c2 := range core.CallSites(bd) {
				if m2 := core.IfaceMethod(c2); m2 == nil || m2.Name() != "HasDefault" {
					continue
				}
				// a branch on HasDefault()'s result whose true side cannot reach addDefault
				core.Instrs(bd, func(b *ssa.BasicBlock, in ssa.Instruction) {
					ifi, isIf := in.(*ssa.If)
					if !isIf || !dependsOn(ifi.Cond, c2.Value(), 0) {
						return
					}
					if !reachableAvoiding(b.Succs[0], c.Block(), nil) && reachableAvoiding(b.Succs[1], c.Block(), nil) {
						ok = true
					}
				})
			}
		}
		r.Ob("guard-backing", "meta.Builder.Default/HasDefault-before-addDefault", ctx.Pos(bd.Pos()), ok,
			"Builder.Default calls addDefault without testing HasDefault first: a second default statement panics (\"default already set\")")
	} else {
		r.Fatalf("anchor meta.Builder.Default not found")
	}
	// (d) visited guards of the other recursion cycles: a map test that returns before, and a map update that precedes, the recursive call
	for _, g := range []struct{ fn, callee, key, what string }{
		{"meta.compiler.compileImport", "meta.compiler.compileImport", "import-visited", "mutual or self imports recurse until the stack is exhausted"},
		{"meta.resolver.copyOverIncludes", "meta.resolver.copyOverSubmoduleData", "include-visited", "a submodule that includes itself is re-loaded for ever"},
		{"meta.compiler.identity", "meta.compiler.compile", "identity-cycle", "an identity derived from itself compiles, and FindIdentity later recurses for ever"},
		{"meta.resolver.module", "meta.resolver.module", "module-visited", "mutually importing modules are loaded again and again"},
	} {
		f := ctx.Lookup(g.fn)
		callee := ctx.Lookup(g.callee)
		if f == nil || callee == nil {
			r.Fatalf("anchors %s / %s not found", g.fn, g.callee)
			continue
		}
		ok := false
		for _, c := range callsStatic(f, callee, false) {
			marked, tested := false, false
			core.Instrs(f, func(_ *ssa.BasicBlock, in ssa.Instruction) {
				switch x := in.(type) {
				case *ssa.MapUpdate:
					if instrDominates(x, c) {
						// for resolver.module the mark that matters is the module's own: it is what a
						// module met again further down the import chain finds
						if g.key != "module-visited" || (len(f.Params) > 1 && core.Strip(x.Value) == ssa.Value(f.Params[1])) {
							marked = true
						}
					}
				case *ssa.Lookup:
					if x.CommaOk && (instrDominates(x, c) || x.Block().Dominates(c.Block())) {
						tested = true
					}
				}
			})
			if marked && tested {
				ok = true
			}
		}
		r.Ob("guard-backing", g.fn+"/"+g.key, ctx.Pos(f.Pos()), ok, "the recursion is not cut by a visited test and mark before the recursive call: "+g.what)
	}
	// (c) typedef recursion guard
	if ft := ctx.Method("meta", "compiler", "findTypedef"); ft != nil {
		comp := ctx.Method("meta", "compiler", "compile")
		ok := false
		for _, c := range callsStatic(ft, comp, false) {
			// dominated by a map lookup on a compiler field whose hit returns an error, and by a map update marking the typedef
			marked, tested := false, false
			core.Instrs(ft, func(_ *ssa.BasicBlock, in ssa.Instruction) {
				switch x := in.(type) {
				case *ssa.MapUpdate:
					if instrDominates(x, c) {
						marked = true
					}
				case *ssa.Lookup:
					if x.CommaOk && instrDominates(x, c) {
						tested = true
					}
				}
			})
			ok = marked && tested
		}
		r.Ob("guard-backing", "meta.compiler.findTypedef/visited-guard", ctx.Pos(ft.Pos()), ok,
			"findTypedef compiles the typedef it found without first testing and marking it as in progress: a typedef chain that refers back to itself recurses until the stack is exhausted")
	} else {
		r.Fatalf("anchor meta.compiler.findTypedef not found")
	}
}

// c14Recursion (K5): every recursion cycle of the load path is in a frozen
// table with its termination argument; a new cycle (or a changed one) must be
// triaged before the check passes again.
func c14Recursion(ctx *core.Ctx, r *core.Report, roots []*ssa.Function) {
	cycles := recursionCycles(ctx, roots, func(f *ssa.Function) bool {
		p := core.FnPkgPath(f)
		return (p == core.Full("meta") || p == core.Full("parser")) && len(f.Blocks) > 0
	})
	for _, c := range cycles {
		key := strings.Join(c, " ↔ ")
		reason, ok := c14Cycles[key]
		msg := "terminates: " + reason
		if !ok {
			msg = "a recursion cycle on the load path that is not in the table of cycles with a termination argument: self-referential input may recurse until the stack is exhausted"
		}
		r.Ob("recursion-terminates", key, "-", ok, msg)
	}
	r.Floor("recursion-terminates", len(cycles), 5)
}

var c14Cycles = map[string]string{
	"meta.Augment.clone ↔ meta.Choice.clone ↔ meta.ChoiceCase.clone ↔ meta.Container.clone ↔ meta.Extension.clone ↔ meta.Grouping.clone ↔ meta.List.clone ↔ meta.Module.clone ↔ meta.Notification.clone ↔ meta.Rpc.clone ↔ meta.RpcInput.clone ↔ meta.RpcOutput.clone": "structural descent on the parsed definition tree, which is finite: a `uses` is a leaf of that tree (it is copied, not expanded, by clone), so a grouping cannot contain itself structurally",
	"meta.cloneTypes":        "structural descent on the member types of a union as written: Builder.Type appends a freshly built *Type to the enclosing type's members and Type.mixin copies members by value, so the nesting is the finite tree the parser built",
	"meta.Find":              "consumes its path argument: each recursive call gets the remainder after the first '/'",
	"meta.FindIdentity":      "descends the derived lists of identities, which are acyclic: compiler.identity rejects an identity that is derived from itself (rule guard-backing/identity-cycle)",
	"meta.MetaPath.toBuffer": "walks the Parent chain of a schema path, which ends at the module",
	"meta.compiler.compile ↔ meta.compiler.compileType ↔ meta.compiler.findTypedef ↔ meta.compiler.identity": "typedef chains are guarded by compiler.typedefsInProgress (rule guard-backing/visited-guard), identity chains by identitiesInProgress and `base != nil`, data definitions by compiler.pool; otherwise structural descent",
	"meta.compiler.compileImport": "guarded by compiler.importsCompiled: a module is visited once however the imports refer to each other (rule guard-backing/import-visited)",
	"meta.compiler.inheritConfig": "walks the Parent chain to the nearest ancestor that states config, ends at the module",
	"meta.ifFeatureEval.eval":     "consumes the expression: every call reads at least one token before it recurses and returns at end of text",
	"meta.resolver.addDataDefinition ↔ meta.resolver.addDefinitions ↔ meta.resolver.enter ↔ meta.resolver.expandAugment ↔ meta.resolver.expandUses": "recursive groupings are cut by resolver.inProgressUses (C01 rule recursion-guard); otherwise structural descent on the definition tree",
	"meta.resolver.copyOverIncludes ↔ meta.resolver.copyOverSubmoduleData":                                                                          "guarded by resolver.includedSubmodules: a submodule is merged into a module once (rule guard-backing/include-visited)",
	"meta.resolver.module": "guarded by resolver.loadedModules: an import of a module that is already loaded reuses it instead of recursing",
	"parser.lexer.acceptString ↔ parser.lexer.acceptToken": "consumes input: each round accepts a non-empty string token or stops",
}

var c14ParallelTriage = map[string]string{}

var c14LexTriage = map[string]string{
	"parser.lexer.nextToken/loop1": "the driver loop: each turn runs one state function, which either emits a token (the next turn returns it), returns the error state (which emits the error token) or returns nil (the next turn returns EOF); the state functions' own loops are the obligations above",
}

// grammarContexts: the keywords of the statements inside whose braces the
// statement introduced by keyword token `kw` can occur, computed from the
// productions: from every alternative that mentions kw, climb through the
// body/list non-terminals to the alternative that pairs the body with a *_def
// non-terminal, and take the keywords that *_def begins with.
func grammarContexts(g *yacc.Grammar, kw string) map[string]bool {
	out := map[string]bool{}
	seen := map[string]bool{}
	defKeywords := func(def string) []string {
		var ks []string
		if ru := g.ByName[def]; ru != nil {
			for _, a := range ru.Alts {
				for _, s := range a.Syms {
					if strings.HasPrefix(s.Name, "kywd_") {
						ks = append(ks, strings.TrimPrefix(s.Name, "kywd_"))
						break
					}
				}
			}
		}
		return ks
	}
	var climb func(name string)
	climb = func(name string) {
		if seen[name] {
			return
		}
		seen[name] = true
		for _, ru := range g.Rules {
			for _, a := range ru.Alts {
				has := false
				for _, s := range a.Syms {
					if s.Name == name {
						has = true
					}
				}
				if !has {
					continue
				}
				def := ""
				for _, s := range a.Syms {
					if strings.HasSuffix(s.Name, "_def") && s.Name != name {
						def = s.Name
					}
				}
				if def != "" {
					for _, k := range defKeywords(def) {
						out[k] = true
					}
					continue
				}
				if ru.Name == name {
					continue
				}
				// the alternative itself starts a statement with its own keyword and braces
				own := ""
				curly := false
				for _, s := range a.Syms {
					if strings.HasPrefix(s.Name, "kywd_") && own == "" && s.Name != name {
						own = strings.TrimPrefix(s.Name, "kywd_")
					}
					if s.Name == "token_curly_open" {
						curly = true
					}
				}
				if own != "" && curly {
					out[own] = true
					continue
				}
				climb(ru.Name)
			}
		}
	}
	climb(kw)
	return out
}

// c14GrammarContexts backs the triage reasons that say "this statement occurs only
// inside …" with the productions of parser.y: a reason that stops being true (the
// grammar starts to accept the statement elsewhere) makes the triaged crash site live.
func c14GrammarContexts(ctx *core.Ctx, r *core.Report, g *yacc.Grammar) {
	type claim struct {
		kw      string
		only    []string // contexts must be a subset of these (nil: not used)
		never   []string // contexts must not contain these
		backing string
	}
	claims := []claim{
		{kw: "kywd_revision_date", only: []string{"import", "include"}, backing: "Builder.SetRevisionDate panics on any other parent"},
		{kw: "kywd_type", never: []string{"anyxml", "anydata"}, backing: "Any.setType panics"},
		{kw: "kywd_default", never: []string{"anyxml", "anydata"}, backing: "Any.addDefault panics"},
		{kw: "kywd_units", never: []string{"anyxml", "anydata"}, backing: "Any.setUnits panics"},
	}
	for _, c := range claims {
		if _, ok := g.TokIndex[c.kw]; !ok {
			r.Ob("grammar-context", c.kw, g.File, false, "token "+c.kw+" is no longer declared in the grammar")
			continue
		}
		cx := grammarContexts(g, c.kw)
		var got []string
		for k := range cx {
			got = append(got, k)
		}
		sort.Strings(got)
		ok := len(cx) > 0
		if c.only != nil {
			allowed := map[string]bool{}
			for _, k := range c.only {
				allowed[k] = true
			}
			for k := range cx {
				if !allowed[k] {
					ok = false
				}
			}
		}
		for _, k := range c.never {
			if cx[k] {
				ok = false
			}
		}
		r.Ob("grammar-context", c.kw, g.File, ok,
			fmt.Sprintf("the grammar accepts %s inside %v; the triaged crash site relies on it occurring only where the builder can take it (%s)", strings.TrimPrefix(c.kw, "kywd_"), got, c.backing))
	}
}

// c14WorklistGuard: resolver.fillInRecursiveDefs is a worklist loop — while it
// replaces placeholders of recursive uses it queues new ones. It terminates
// because a (parent, uses) placeholder can be queued only once: every append to
// the queue inside the loop is dominated by a lookup in a visited table whose
// found-edge returns an error, and the pair is entered into that table. Without
// this guard a grouping that refers to itself with no data node in between
// (g uses h, h uses g) is replaced by itself for ever.
func c14WorklistGuard(ctx *core.Ctx, r *core.Report) {
	f := ctx.Method("meta", "resolver", "fillInRecursiveDefs")
	if f == nil {
		r.Fatalf("anchor meta.resolver.fillInRecursiveDefs not found")
		return
	}
	n := 0
	core.Instrs(f, func(b *ssa.BasicBlock, in ssa.Instruction) {
		st, ok := in.(*ssa.Store)
		if !ok {
			return
		}
		fa, ok := st.Addr.(*ssa.FieldAddr)
		if !ok {
			return
		}
		sts, ok := core.Deref(fa.X.Type()).Underlying().(*types.Struct)
		if !ok || sts.Field(fa.Field).Name() != "unresolvedUses" {
			return
		}
		c, ok := core.Strip(st.Val).(*ssa.Call)
		if !ok {
			return
		}
		if bi, ok := c.Common().Value.(*ssa.Builtin); !ok || bi.Name() != "append" {
			return
		}
		if loopBlocks(b) == nil {
			return
		}
		n++
		guarded := false
		for _, pc := range core.PathConds(b) {
			// `_, again := visited[k]` on the not-found side
			ex, ok := pc.V.(*ssa.Extract)
			if !ok || ex.Index != 1 || pc.True {
				continue
			}
			lk, ok := ex.Tuple.(*ssa.Lookup)
			if !ok {
				continue
			}
			// the found side returns an error
			errOnFound := false
			if len(pc.If.Block().Succs) == 2 {
				for _, ret := range core.Returns(f) {
					if pc.If.Block().Succs[0].Dominates(ret.Block()) || pc.If.Block().Succs[0] == ret.Block() {
						ops := core.RetOperands(ret)
						if len(ops) > 0 && !core.IsNilConst(ops[len(ops)-1]) {
							errOnFound = true
						}
					}
				}
			}
			// and the pair is recorded in the same table before it is queued
			recorded := false
			core.Instrs(f, func(b2 *ssa.BasicBlock, in2 ssa.Instruction) {
				if mu, ok := in2.(*ssa.MapUpdate); ok && mu.Map == lk.X && (b2 == b || b2.Dominates(b)) {
					recorded = true
				}
			})
			if errOnFound && recorded {
				guarded = true
			}
		}
		r.Ob("guard-backing", "meta.resolver.fillInRecursiveDefs/requeue-once", ctx.Pos(st.Pos()), guarded,
			"a placeholder of a recursive uses is queued again without the test that this (parent, uses) pair was queued before: a grouping that refers to itself with no data node in between is replaced by itself for ever and the load never returns")
	})
	if n == 0 {
		r.Fatalf("fillInRecursiveDefs no longer re-queues placeholders inside its loop: the worklist guard rule is vacuous")
	}
}
