package rules

import (
	"go/types"
	"sort"
	"strings"

	"golang.org/x/tools/go/ssa"

	"verif/checker/internal/core"
)

// loadRoots: the LOAD entry set.
func loadRoots(ctx *core.Ctx, r *core.Report) []*ssa.Function {
	return resolveRoots(ctx, r, []string{
		"parser.LoadModule", "parser.LoadModuleWithOptions",
		"parser.LoadModuleFromString", "parser.LoadModuleFromStringWithOptions",
		"meta.Compile",
	})
}

// walkRoots: every exported method of every exported type of package meta.
func walkRoots(ctx *core.Ctx, r *core.Report) []*ssa.Function {
	tp := ctx.TPkg("meta")
	if tp == nil {
		r.Fatalf("package meta not found")
		return nil
	}
	var out []*ssa.Function
	names := tp.Scope().Names()
	sort.Strings(names)
	for _, n := range names {
		tn, ok := tp.Scope().Lookup(n).(*types.TypeName)
		if !ok || !tn.Exported() {
			continue
		}
		named, ok := tn.Type().(*types.Named)
		if !ok || types.IsInterface(named) {
			continue
		}
		// Builder is the construction API (LOAD side), not an accessor
		if n == "Builder" {
			continue
		}
		for i := 0; i < named.NumMethods(); i++ {
			m := named.Method(i)
			if m.Exported() {
				if f := ctx.Prog.FuncValue(m); f != nil {
					out = append(out, f)
				}
			}
		}
	}
	for _, fn := range []string{"Find", "RootModule", "OriginalModule", "SchemaPath", "SchemaPathNoModule", "FindIdentity"} {
		if f := ctx.Fn("meta", fn); f != nil {
			out = append(out, f)
		}
	}
	return out
}

func c14OutOfScope(f *ssa.Function) bool {
	p := core.FnPkgPath(f)
	switch {
	case p == core.Full("patch/xml"), p == core.Full("fc"), p == core.Full("testdata"):
		return true
	case strings.HasPrefix(p, core.Full("cmd")):
		return true
	case p == core.Full("node"), p == core.Full("nodeutil"), p == core.Full("val"), p == core.Full("xpath"):
		// not part of loading; covered by C13
		return true
	}
	return false
}

func C14(ctx *core.Ctx, r *core.Report) {
	r.Explanation = "Crash classes reachable while loading a module (LOAD entry set) or walking a compiled module through meta's exported accessors (WALK): explicit panics (K1), unchecked type assertions not discharged by guard, static type, sealed-interface closed world or dynamic type set (K2), constant/len-relative indexing without a length test (K4); plus the module-xor-error shape of the load entry points (K7), fixed-capacity lexer buffers (K3) and a frozen table of recursion cycles with their termination argument (K5). Not decided: nil dereferences outside these classes, stack depth of structural recursion on deeply nested input, termination of loops other than the recursion cycles."
	roots := append(loadRoots(ctx, r), walkRoots(ctx, r)...)
	e := newCrashEngine(ctx, r, roots, c14OutOfScope)
	sites := e.sites("K1 K2 K4")
	e.record("crash", sites, c14Triage)
	c14ModuleXorError(ctx, r)
}

// c14ModuleXorError (K7): in every function of the load path that returns
// (*meta.Module, error), a return whose error may be non-nil returns a nil
// module, and a return of a non-nil module returns a nil error.
func c14ModuleXorError(ctx *core.Ctx, r *core.Report) {
	specs := []string{
		"parser.LoadModule", "parser.LoadModuleWithOptions",
		"parser.LoadModuleFromString", "parser.LoadModuleFromStringWithOptions",
		"parser.parser.parseModule", "parser.parser.loadAndParseModule",
	}
	n := 0
	for _, spec := range specs {
		fn := ctx.Lookup(spec)
		if fn == nil {
			r.Fatalf("anchor %s not found", spec)
			continue
		}
		res := fn.Signature.Results()
		if res.Len() != 2 || !core.IsErrorType(res.At(1).Type()) {
			r.Fatalf("%s: unexpected result signature", spec)
			continue
		}
		for _, ret := range core.Returns(fn) {
			if fn.Recover != nil && ret.Block() == fn.Recover {
				continue // synthetic return of the recover block; the function has no recover()
			}
			n++
			ops := core.RetOperands(ret)
			mod, errv := ops[0], ops[1]
			ok, why := true, ""
			switch {
			case core.IsNilConst(errv):
				// success return
			case core.IsNilConst(mod):
				// failure return
			default:
				// both may be non-nil: accept only a forwarded (m, err) pair of one call
				em, ok1 := mod.(*ssa.Extract)
				ee, ok2 := errv.(*ssa.Extract)
				if ok1 && ok2 && em.Tuple == ee.Tuple && em.Index == 0 && ee.Index == 1 {
					if c, isCall := em.Tuple.(*ssa.Call); isCall {
						if cal := core.StaticCallee(c); cal != nil && cal.Signature.Results().Len() == 2 {
							break // the callee is checked by this same rule (listed) or is the Loader contract
						}
					}
				}
				// error proven nil on this path? (dominated by err != nil → returned earlier)
				if errNilHere(ret.Block(), errv) {
					break
				}
				ok, why = false, "returns a module together with an error that may be non-nil"
			}
			r.Ob("module-xor-error", core.FnName(fn)+"/return", ctx.Pos(ret.Pos()), ok, why)
		}
	}
	r.Floor("module-xor-error", n, 12)
}

// errNilHere: the block is dominated by the false edge of `v != nil` or the
// true edge of `v == nil`.
func errNilHere(b *ssa.BasicBlock, v ssa.Value) bool {
	for _, pc := range core.PathConds(b) {
		bo, ok := pc.V.(*ssa.BinOp)
		if !ok {
			continue
		}
		if (bo.X == v && core.IsNilConst(bo.Y)) || (bo.Y == v && core.IsNilConst(bo.X)) {
			if bo.Op.String() == "!=" && !pc.True {
				return true
			}
			if bo.Op.String() == "==" && pc.True {
				return true
			}
		}
	}
	return false
}
