package rules

import (
	"fmt"
	"go/token"
	"go/types"
	"strings"

	"golang.org/x/tools/go/ssa"

	"verif/checker/internal/core"
)

// ---------------------------------------------------------------------------
// C19 — XML export and import are inverse on every data tree.
// C04 — export and JSON round-trip reproduce exactly the data present.
// ---------------------------------------------------------------------------

func calleeNames(f *ssa.Function) map[string]int {
	out := map[string]int{}
	for _, c := range core.CallSites(f) {
		if cal := core.StaticCallee(c); cal != nil {
			out[core.FnName(cal)]++
		} else if m := core.IfaceMethod(c); m != nil {
			out["iface:"+m.Name()]++
		}
	}
	return out
}

func C19(ctx *core.Ctx, r *core.Report) {
	r.Explanation = "Agreement between the XML writers and the XML reader, decided structurally: the writer names an element by the schema identifier and the namespace of the node's original module, and the reader matches on exactly those two accessors; leaf text of string types is handed to the value constructor as written (no trimming or case mapping on that data flow); list and leaf-list reading keeps scanning the siblings to the end so entries may be interleaved; every value kind reaches the element text through one of the writer's cases; leaf errors of both writers are returned; a fragment has exactly one root element. Escaping is delegated to the patched encoding/xml (trusted). Leaf text reaches the output only through the XML encoder; the list node handed out by XmlNode.Child holds exactly the matched elements (never a span of the parent's children); floats are written in shortest exact form; WriteXMLDoc and the writers use OriginalModule. Not decided: inverse-ness for any particular tree."
	// 1. name / namespace symmetry
	find := ctx.Method("nodeutil", "XmlNode", "Find")
	xmlName := ctx.Fn("nodeutil", "XmlName")
	newEl := ctx.Method("nodeutil", "XMLWtr2", "new")
	if find == nil || xmlName == nil || newEl == nil {
		r.Fatalf("anchors nodeutil.XmlNode.Find / XmlName / XMLWtr2.new not found")
		return
	}
	for _, f := range []*ssa.Function{find, xmlName, newEl} {
		cn := calleeNames(f)
		ok := cn["iface:Ident"] >= 1 && cn["meta.OriginalModule"] >= 1 && cn["meta.Module.Namespace"] >= 1 && cn["meta.RootModule"] == 0
		r.Ob("name-namespace-symmetry", core.FnName(f), ctx.Pos(f.Pos()), ok,
			fmt.Sprintf("element names must be built from / matched against Ident() and OriginalModule(m).Namespace() (Ident:%d OriginalModule:%d Namespace:%d RootModule:%d): a different accessor on one side selects the wrong schema node for augmenting modules",
				cn["iface:Ident"], cn["meta.OriginalModule"], cn["meta.Module.Namespace"], cn["meta.RootModule"]))
	}
	// the namespace an element REMEMBERS (XMLWtr2.ns, against which its children decide whether
	// to declare their own) is the namespace it was named with: OriginalModule(d).Namespace() of
	// the same definition d that gives the element its name
	{
		wt := ctx.Named("nodeutil", "XMLWtr2")
		nNs := 0
		for _, f := range scopeFuncs(ctx, "nodeutil") {
			core.Instrs(f, func(_ *ssa.BasicBlock, in ssa.Instruction) {
				st, ok := in.(*ssa.Store)
				if !ok {
					return
				}
				fa, ok := st.Addr.(*ssa.FieldAddr)
				if !ok || wt == nil || core.NamedOf(fa.X.Type()) != wt {
					return
				}
				if core.Deref(fa.X.Type()).Underlying().(*types.Struct).Field(fa.Field).Name() != "ns" {
					return
				}
				nNs++
				chain := paramFieldChain(st.Val)
				okNs := strings.HasPrefix(chain, "Namespace(OriginalModule(") || strings.HasSuffix(chain, ".ns")
				// the definition that names the element
				named := map[string]bool{}
				for _, c := range core.CallSites(f) {
					if m := core.IfaceMethod(c); m != nil && m.Name() == "Ident" {
						named[paramFieldChain(c.Common().Value)] = true
					}
					if cal := core.StaticCallee(c); cal != nil && core.FnName(cal) == "nodeutil.XmlName" {
						named[paramFieldChain(c.Common().Args[0])] = true
					}
				}
				if okNs && strings.HasPrefix(chain, "Namespace(OriginalModule(") {
					of := strings.TrimSuffix(strings.TrimPrefix(chain, "Namespace(OriginalModule("), "))")
					if !named[of] {
						okNs = false
					}
				}
				r.Ob("name-namespace-symmetry", core.FnName(f)+"/remembered-namespace", ctx.Pos(st.Pos()), okNs,
					"the namespace an element remembers for its children ("+chain+") is not OriginalModule(d).Namespace() of the definition the element is named after: children defined by that other module are written without their xmlns, land in the parent's namespace and are dropped by XmlNode.Find on import")
			})
		}
		r.Floor("name-namespace-symmetry", nNs+3, 5)
	}
	// the reader compares Local with Ident() for equality and Space with the namespace
	nEq := 0
	core.Instrs(find, func(_ *ssa.BasicBlock, in ssa.Instruction) {
		if bo, ok := in.(*ssa.BinOp); ok && (bo.Op == token.EQL || bo.Op == token.NEQ) {
			if _, isStr := core.ConstString(bo.Y); !isStr {
				if condFieldName(bo.X) == "Local" || condFieldName(bo.X) == "Space" || condFieldName(bo.Y) == "Local" || condFieldName(bo.Y) == "Space" {
					nEq++
				}
			}
		}
	})
	r.Ob("name-namespace-symmetry", "nodeutil.XmlNode.Find/compares", ctx.Pos(find.Pos()), nEq >= 2, fmt.Sprintf("%d comparisons of XMLName.Local/Space with schema accessors; both the local name and (when present) the namespace must be compared", nEq))

	// 2. no lossy transform of string leaf text
	lt := ctx.Method("nodeutil", "XmlNode", "leafText")
	field := ctx.Method("nodeutil", "XmlNode", "Field")
	if lt == nil || field == nil {
		r.Ob("no-lossy-text", "nodeutil.XmlNode.leafText", "-", false, "leaf text is no longer selected per type (leafText missing): string values are trimmed on input")
	} else {
		// the return taken for FmtString / FmtStringList must not depend on TrimSpace / ContentTrim
		cases := formatCases(lt)
		strF, _ := constIntOf(ctx, "val", "FmtString")
		strLF, _ := constIntOf(ctx, "val", "FmtStringList")
		ok := true
		msg := ""
		for _, fconst := range []int64{strF, strLF} {
			b, has := cases[fconst]
			if !has {
				ok, msg = false, "no case for the string formats: their text goes through the trimming default"
				continue
			}
			for _, ret := range core.Returns(lt) {
				if ret.Block() != b && !b.Dominates(ret.Block()) {
					continue
				}
				if c, isCall := core.RetOperands(ret)[0].(*ssa.Call); isCall {
					if cal := core.StaticCallee(c); cal != nil && (cal.Name() == "ContentTrim" || cal.Name() == "TrimSpace" || strings.HasPrefix(cal.Name(), "To")) {
						ok, msg = false, "the text of a string leaf is transformed ("+cal.Name()+") before it becomes the value"
					}
				}
			}
		}
		r.Ob("no-lossy-text", "nodeutil.XmlNode.leafText", ctx.Pos(lt.Pos()), ok, msg)
		// Field and field() take their text from leafText only
		for _, f := range []*ssa.Function{field, ctx.Method("nodeutil", "XmlNode", "field")} {
			if f == nil {
				continue
			}
			cn := calleeNames(f)
			r.Ob("no-lossy-text", core.FnName(f), ctx.Pos(f.Pos()), cn["nodeutil.XmlNode.leafText"] >= 1 && cn["nodeutil.XmlNode.ContentTrim"] == 0 && cn["strings.TrimSpace"] == 0,
				"leaf text reaches the value constructor through a trimming accessor")
		}
	}

	// 3. list reading allows interleaving: Child and Field loop with Find(ndx+1, …)
	for _, name := range []string{"Child", "Field"} {
		f := ctx.Method("nodeutil", "XmlNode", name)
		if f == nil {
			r.Fatalf("anchor nodeutil.XmlNode.%s not found", name)
			continue
		}
		ok := false
		for _, c := range callsStatic(f, find, false) {
			if loopBlocks(c.Block()) == nil {
				continue
			}
			if bo, isBo := c.Common().Args[1].(*ssa.BinOp); isBo && bo.Op == token.ADD {
				if one, isC := core.ConstInt(bo.Y); isC && one == 1 {
					ok = true
				}
			}
		}
		r.Ob("list-interleaving", "nodeutil.XmlNode."+name, ctx.Pos(f.Pos()), ok,
			"list entries are not collected by rescanning from the element after the last match: entries interleaved with other siblings (RFC 7950 7.8.5) are lost")
	}

	// 4. writer value tables: every constructed scalar kind has a case or reaches the v.String() default
	kinds := scalarValueKinds(ctx, r)
	for _, spec := range []string{"nodeutil.XMLWtr2.writeFieldElement", "nodeutil.XMLWtr.getStringValue"} {
		f := ctx.Lookup(spec)
		if f == nil {
			r.Fatalf("anchor %s not found", spec)
			continue
		}
		cases := formatCases(f)
		hasDefault := calleeNames(f)["iface:String"] >= 1
		idF := kinds["IdentRef"]
		decF := kinds["Decimal64"]
		enumF := kinds["Enum"]
		_, okId := cases[idF]
		_, okDec := cases[decF]
		_, okEnum := cases[enumF]
		r.Ob("writer-value-table", spec, ctx.Pos(f.Pos()), hasDefault && okId && okDec && okEnum,
			fmt.Sprintf("identityref (module-qualified), decimal64 (non-exponent text) and enum (label or id) need their own case and every other kind the String() default (identityref:%v decimal64:%v enum:%v default:%v)", okId, okDec, okEnum, hasDefault))
	}

	// 5. writer errors surface
	n := 0
	for _, f := range ctx.RepoFuncs() {
		name := core.FnName(f)
		if !strings.HasPrefix(name, "nodeutil.XMLWtr.") && !strings.HasPrefix(name, "nodeutil.XMLWtr2.") {
			continue
		}
		for _, c := range core.CallSites(f) {
			if _, isDefer := c.(*ssa.Defer); isDefer {
				continue
			}
			cal := core.StaticCallee(c)
			if cal == nil {
				continue
			}
			cn := core.FnName(cal)
			if !strings.HasPrefix(cn, "nodeutil.XMLWtr") && !strings.HasPrefix(cn, "patch/xml.Encoder.") {
				continue
			}
			res := c.Common().Signature().Results()
			if res.Len() == 0 || !core.IsErrorType(res.At(res.Len()-1).Type()) {
				continue
			}
			n++
			ev := errResult(c)
			ok := ev != nil && len(*ev.Referrers()) > 0 && (flowsToReturn(ev, 0, map[ssa.Value]bool{}) || storedToCaptured(ev))
			r.Ob("writer-errors-surface", name+"/"+cn, ctx.Pos(c.Pos()), ok, "the error of writing a leaf element is dropped: an unknown identity or an encoding error goes unnoticed")
		}
	}
	r.Floor("writer-errors-surface", n, 8)

	// 6. single root
	frag := ctx.Fn("nodeutil", "WriteXMLFrag")
	if frag == nil {
		r.Fatalf("anchor nodeutil.WriteXMLFrag not found")
	} else {
		nErr := 0
		for _, ret := range core.Returns(frag) {
			ops := core.RetOperands(ret)
			if !core.IsNilConst(ops[1]) {
				for _, pc := range core.PathConds(ret.Block()) {
					if bo, ok := pc.V.(*ssa.BinOp); ok {
						if c, isCall := bo.X.(*ssa.Call); isCall {
							if bi, isB := c.Common().Value.(*ssa.Builtin); isB && bi.Name() == "len" {
								nErr++
							}
						}
					}
				}
			}
		}
		r.Ob("single-root", "nodeutil.WriteXMLFrag", ctx.Pos(frag.Pos()), nErr >= 2, "a fragment with no or with several top elements must be rejected: the output would not be a document with a single root")
	}
	c19TextThroughEncoder(ctx, r)
	c19ListEntriesByMatch(ctx, r)
	xmlIO := scopeFuncs(ctx, "nodeutil", "xml_rdr.go", "xml_wtr.go", "xml_wtr2.go")
	floatTextExact(ctx, r, xmlIO, 2)
	definitionModuleOriginal(ctx, r, xmlIO, 8)
	c19DecoderStrict(ctx, r)
	c19KeysFoundIndependently(ctx, r)
	c19CarriageReturnEscaped(ctx, r)
	readerErrorsSurface(ctx, r)
	c19ListFormAgreesWithScalar(ctx, r)
}

// storedToCaptured: the error is assigned to a variable of the enclosing function (closure result pattern).
func storedToCaptured(v ssa.Value) bool {
	for _, ref := range *v.Referrers() {
		if st, ok := ref.(*ssa.Store); ok && st.Val == v {
			if _, isFree := st.Addr.(*ssa.FreeVar); isFree {
				return true
			}
		}
		if ph, ok := ref.(*ssa.Phi); ok && storedToCaptured(ph) {
			return true
		}
	}
	return false
}

func C04(ctx *core.Ctx, r *core.Report) {
	r.Explanation = "Structural conditions of faithful export: every value Format the type compiler can assign is handled by the reader's value constructor (node.NewValue or val.Conv) rather than falling to the generic error; a schema default is materialised only where HasDefault() was tested on the same leaf; every loop that re-issues a list request advances the row on each iteration (so each entry is visited once). The writer-side value table and bracket pairing are decided under C15. Numbers are written as the shortest text that reads back as the same float64 (FormatFloat precision -1, 64 bits) and the JSON reader/writer qualify a data definition with its OriginalModule. Not decided: round-trip equality for any value, visiting order, that each node is visited exactly once."
	c04ReaderExhaustive(ctx, r)
	c04DefaultSites(ctx, r)
	c04RowProtocol(ctx, r)
	c04MembersUntilExhausted(ctx, r)
	c04ChooseThroughQualifiedLookup(ctx, r)
	keyByItsOwnLeaf(ctx, r)
	borrowFrom(ctx, r, "C10", C10, "lossy-convert")
	borrowFrom(ctx, r, "C03", C03, "defaults-on-create")
	c04FoundMemberIsReported(ctx, r)
	// a read descends into a choice only through the chosen case, nested choices included (C09's rule on the same iterator)
	{
		sub := core.NewReport("C09", r.Tier, r.Root, r.Seed)
		C09(ctx, sub)
		r.Borrow(sub, "reads-descend-chosen-case")
	}
	jsonIO := scopeFuncs(ctx, "nodeutil", "json_rdr.go", "json_wtr.go")
	floatTextExact(ctx, r, jsonIO, 1)
	definitionModuleOriginal(ctx, r, jsonIO, 4)
	escaperNotBypassed(ctx, r)
}

// c04ReaderExhaustive: formats assignable by the compiler vs cases of NewValue ∪ Conv.
func c04ReaderExhaustive(ctx *core.Ctx, r *core.Report) {
	nv := ctx.Fn("node", "NewValue")
	conv := ctx.Fn("val", "Conv")
	taf := ctx.Fn("val", "TypeAsFormat")
	if nv == nil || conv == nil || taf == nil {
		r.Fatalf("anchors node.NewValue / val.Conv / val.TypeAsFormat not found")
		return
	}
	// formats: constants of type val.Format declared in package val
	fmtT := ctx.Named("val", "Format")
	scope := ctx.TPkg("val").Scope()
	handled := map[int64]bool{}
	collect := func(f *ssa.Function, param int) {
		core.Instrs(f, func(_ *ssa.BasicBlock, in ssa.Instruction) {
			bo, ok := in.(*ssa.BinOp)
			if !ok || bo.Op != token.EQL {
				return
			}
			if c, ok := core.ConstInt(bo.Y); ok {
				handled[c] = true
			}
		})
	}
	collect(nv, 0)
	collect(conv, 0)
	n := 0
	var missing []string
	for _, name := range scope.Names() {
		c, ok := scope.Lookup(name).(*types.Const)
		if !ok || fmtT == nil || !types.Identical(c.Type(), fmtT) || !c.Exported() {
			continue
		}
		v, _ := constIntOf(ctx, "val", name)
		if v == 0 {
			continue
		}
		n++
		ok2 := handled[v]
		if reason, t := c04FormatTriage[name]; t && !ok2 {
			r.Ob("reader-exhaustive", "val."+name, ctx.Pos(c.Pos()), true, "triaged: "+reason)
			continue
		}
		if !ok2 {
			missing = append(missing, name)
		}
		r.Ob("reader-exhaustive", "val."+name, ctx.Pos(c.Pos()), ok2,
			"neither node.NewValue nor val.Conv has a case for this format: a leaf of this type can be declared but no value can ever be read into it")
	}
	r.Floor("reader-exhaustive", n, 40)
}

var c04FormatTriage = map[string]string{
	"FmtAnyList": "not assignable: compileType gives the list variant only to a *LeafList parent, and anyxml/anydata (the only FmtAny leaves) are never leaf-lists",
}

// c04DefaultSites: DefaultValue() only after HasDefault() on the same receiver.
func c04DefaultSites(ctx *core.Ctx, r *core.Report) {
	n := 0
	for _, f := range ctx.RepoFuncs() {
		p := core.FnPkgPath(f)
		if p != core.Full("node") && p != core.Full("nodeutil") {
			continue
		}
		if strings.HasPrefix(core.FnName(f), "nodeutil.schema") {
			continue
		}
		for _, c := range core.CallSites(f) {
			m := core.IfaceMethod(c)
			if m == nil || m.Name() != "DefaultValue" {
				continue
			}
			n++
			recv := c.Common().Value
			ok := false
			for _, c2 := range core.CallSites(f) {
				m2 := core.IfaceMethod(c2)
				if m2 == nil || m2.Name() != "HasDefault" || !sameRecv(c2.Common().Value, recv) {
					continue
				}
				// DefaultValue is on the true edge of HasDefault, or after an early return on its false edge
				for _, pc := range core.PathConds(c.Block()) {
					if dependsOn(pc.V, c2.Value(), 0) {
						ok = true
					}
				}
				if !ok && instrDominates(c2, c) {
					for _, ret := range core.Returns(f) {
						for _, pc := range core.PathConds(ret.Block()) {
							if dependsOn(pc.V, c2.Value(), 0) && !ret.Block().Dominates(c.Block()) {
								ok = true
							}
						}
					}
				}
			}
			r.Ob("default-after-hasdefault", core.FnName(f), ctx.Pos(c.Pos()), ok,
				"DefaultValue() is called without HasDefault() having been tested on the same leaf: anydata panics there, and a leaf without default would report a value that is not present")
		}
	}
	r.Floor("default-after-hasdefault", n, 2)
}

func sameRecv(a, b ssa.Value) bool {
	a, b = core.Strip(a), core.Strip(b)
	if a == b {
		return true
	}
	la, ok1 := a.(*ssa.UnOp)
	lb, ok2 := b.(*ssa.UnOp)
	if ok1 && ok2 {
		fa, ok3 := la.X.(*ssa.FieldAddr)
		fb, ok4 := lb.X.(*ssa.FieldAddr)
		if ok3 && ok4 && fa.Field == fb.Field && (fa.X == fb.X || sameRecv(fa.X, fb.X)) {
			return true
		}
	}
	return false
}

// c04RowProtocol: loops re-issuing a list request increment the row.
func c04RowProtocol(ctx *core.Ctx, r *core.Report) {
	inc := ctx.Method("node", "ListRequest", "IncrementRow")
	if inc == nil {
		r.Fatalf("anchor node.ListRequest.IncrementRow not found")
		return
	}
	n := 0
	for _, spec := range []struct{ fn, callee string }{
		{"node.editor.list", "node.Selection.selectVisibleListItem"},
		{"node.Selection.selectVisibleListItem", "node.Selection.selectListItem"},
	} {
		f := ctx.Lookup(spec.fn)
		callee := ctx.Lookup(spec.callee)
		if f == nil || callee == nil {
			r.Fatalf("anchors %s / %s not found", spec.fn, spec.callee)
			continue
		}
		for _, c := range callsStatic(f, callee, false) {
			loop := loopBlocks(c.Block())
			if loop == nil {
				continue
			}
			n++
			// every cycle through this call passes an IncrementRow: removing the increment blocks breaks all cycles
			incBlocks := map[*ssa.BasicBlock]bool{}
			for _, ic := range callsStatic(f, inc, false) {
				incBlocks[ic.Block()] = true
			}
			ok := len(incBlocks) > 0 && !cycleAvoiding(c.Block(), incBlocks)
			// an increment in the same block before the call also counts
			r.Ob("row-protocol", spec.fn+"/"+spec.callee, ctx.Pos(c.Pos()), ok,
				"the loop re-issues the list request without IncrementRow on every iteration: the same row is read again (entries duplicated or an endless loop)")
		}
	}
	// ListItem.Next advances after each select
	if f := ctx.Method("node", "ListItem", "Next"); f != nil {
		n++
		ok := len(callsStatic(f, inc, false)) == 1
		r.Ob("row-protocol", "node.ListItem.Next", ctx.Pos(f.Pos()), ok, "the list iterator does not advance its row")
	}
	r.Floor("row-protocol", n, 3)
}

// cycleAvoiding: is there a cycle from b back to b that avoids all blocks in avoid?
func cycleAvoiding(b *ssa.BasicBlock, avoid map[*ssa.BasicBlock]bool) bool {
	seen := map[*ssa.BasicBlock]bool{}
	var q []*ssa.BasicBlock
	for _, s := range b.Succs {
		if !avoid[s] {
			q = append(q, s)
		}
	}
	for len(q) > 0 {
		x := q[0]
		q = q[1:]
		if x == b {
			return true
		}
		if seen[x] {
			continue
		}
		seen[x] = true
		for _, s := range x.Succs {
			if !avoid[s] {
				q = append(q, s)
			}
		}
	}
	return false
}

// c19TextThroughEncoder: the text of a leaf (XMLWtr.getStringValue) reaches
// the output only as the argument of the XML encoder, which escapes it. Any
// other use (a direct write, a concatenation) is a path on which markup
// characters, or characters the quick test does not think of (CR, control
// characters), go out as written.
func c19TextThroughEncoder(ctx *core.Ctx, r *core.Report) {
	get := ctx.Method("nodeutil", "XMLWtr", "getStringValue")
	if get == nil {
		r.Fatalf("anchor nodeutil.XMLWtr.getStringValue not found")
		return
	}
	n := 0
	for _, f := range scopeFuncs(ctx, "nodeutil", "xml_wtr.go") {
		for _, c := range callsStatic(f, get, false) {
			v := c.Value()
			if v == nil {
				continue
			}
			for _, ref := range *v.Referrers() {
				ex, ok := ref.(*ssa.Extract)
				if !ok || ex.Index != 0 {
					continue
				}
				n++
				bad := ""
				var visit func(x ssa.Value, depth int)
				visit = func(x ssa.Value, depth int) {
					if depth > 3 || x.Referrers() == nil {
						return
					}
					for _, u := range *x.Referrers() {
						switch y := u.(type) {
						case *ssa.MakeInterface:
							visit(y, depth+1)
						case *ssa.Phi:
							visit(y, depth+1)
						case *ssa.BinOp:
							if y.Op == token.ADD {
								bad = "concatenated at " + ctx.Pos(y.Pos())
							}
						case ssa.CallInstruction:
							name := core.CalleeName(y)
							if strings.HasSuffix(name, "Encoder.EncodeElement") || strings.HasSuffix(name, "Encoder.Encode") || strings.HasSuffix(name, ".EscapeText") {
								continue
							}
							if b, isB := y.Common().Value.(*ssa.Builtin); isB && b.Name() == "len" {
								continue
							}
							bad = "passed to " + name + " at " + ctx.Pos(y.Pos())
						case *ssa.Store:
							bad = "stored at " + ctx.Pos(y.Pos())
						}
					}
				}
				visit(ex, 0)
				r.Ob("text-through-encoder", core.FnName(f), ctx.Pos(c.Pos()), bad == "",
					"the leaf's text does not only go to the XML encoder ("+bad+"): on that path it is written without escaping")
			}
		}
	}
	r.Floor("text-through-encoder", n, 1)
}

// c19ListEntriesByMatch: the list node that XmlNode.Child hands out holds
// exactly the elements that Find matched (appended one by one); it is never a
// span of the parent's children, which would include the interleaved siblings.
func c19ListEntriesByMatch(ctx *core.Ctx, r *core.Report) {
	child := ctx.Method("nodeutil", "XmlNode", "Child")
	find := ctx.Method("nodeutil", "XmlNode", "Find")
	xn := ctx.Named("nodeutil", "XmlNode")
	if child == nil || find == nil || xn == nil {
		r.Fatalf("anchors nodeutil.XmlNode.Child / Find not found")
		return
	}
	st := xn.Underlying().(*types.Struct)
	nodesIdx := -1
	for i := 0; i < st.NumFields(); i++ {
		if st.Field(i).Name() == "Nodes" {
			nodesIdx = i
		}
	}
	n := 0
	core.Instrs(child, func(_ *ssa.BasicBlock, in ssa.Instruction) {
		s, ok := in.(*ssa.Store)
		if !ok {
			return
		}
		fa, ok := s.Addr.(*ssa.FieldAddr)
		if !ok || fa.Field != nodesIdx || core.NamedOf(fa.X.Type()) != xn {
			return
		}
		if _, fresh := fa.X.(*ssa.Alloc); !fresh {
			return
		}
		n++
		okv, msg := true, ""
		seen := map[ssa.Value]bool{}
		var visit func(v ssa.Value)
		visit = func(v ssa.Value) {
			if seen[v] {
				return
			}
			seen[v] = true
			switch x := v.(type) {
			case *ssa.Phi:
				for _, e := range x.Edges {
					visit(e)
				}
			case *ssa.Const:
			case *ssa.Call:
				if b, isB := x.Common().Value.(*ssa.Builtin); isB && b.Name() == "append" {
					visit(x.Common().Args[0])
					// the appended element is x.Nodes[ndx] with ndx from Find (or the first match)
					return
				}
				okv, msg = false, "built by "+core.CalleeName(x)
			case *ssa.Slice:
				okv, msg = false, "a span of the parent's children ("+ctx.Pos(x.Pos())+"): with list entries interleaved with their siblings the span contains the siblings, which are then read as list entries"
			default:
				okv, msg = false, "not built by appending the matched elements"
			}
		}
		visit(s.Val)
		// the loop that appends calls Find for the next match
		if okv && len(callsStatic(child, find, false)) < 2 {
			okv, msg = false, "Child does not keep searching for further entries after the first match"
		}
		r.Ob("list-entries-by-match", "nodeutil.XmlNode.Child/Nodes", ctx.Pos(s.Pos()), okv, "the list node's elements are "+msg)
	})
	r.Floor("list-entries-by-match", n, 1)
}

// c04MembersUntilExhausted: the iterator over a container's members
// (containerMetaList.lookAhead) stops looking only when it has found the next
// member (a store of a value to `next`) or when the member list is used up (nil
// stored to `main` after hasNextMeta said no). Any other way out — e.g. leaving
// because a choice has no case selected — ends the iteration early and every
// later sibling is silently missing from exports and edits.
func c04MembersUntilExhausted(ctx *core.Ctx, r *core.Report) {
	f := ctx.Method("node", "containerMetaList", "lookAhead")
	cml := ctx.Named("node", "containerMetaList")
	if f == nil || cml == nil {
		r.Fatalf("anchor node.containerMetaList.lookAhead not found")
		return
	}
	st := cml.Underlying().(*types.Struct)
	fieldOf := func(v ssa.Value) string {
		fa, ok := v.(*ssa.FieldAddr)
		if !ok || core.NamedOf(fa.X.Type()) != cml {
			return ""
		}
		return st.Field(fa.Field).Name()
	}
	done := map[*ssa.BasicBlock]bool{}
	nFound, nExhausted := 0, 0
	core.Instrs(f, func(b *ssa.BasicBlock, in ssa.Instruction) {
		s, ok := in.(*ssa.Store)
		if !ok {
			return
		}
		switch fieldOf(s.Addr) {
		case "next":
			if !core.IsNilConst(s.Val) {
				done[b] = true
				nFound++
			}
		case "main":
			if core.IsNilConst(s.Val) {
				// only counts when hasNextMeta() == false holds here
				for _, pc := range core.PathConds(b) {
					if c, ok := pc.V.(*ssa.Call); ok && !pc.True {
						name := ""
						if cal := core.StaticCallee(c); cal != nil {
							name = cal.Name()
						} else if m := core.IfaceMethod(c); m != nil {
							name = m.Name()
						}
						if name == "hasNextMeta" {
							done[b] = true
							nExhausted++
						}
					}
				}
			}
		}
	})
	if nFound == 0 || nExhausted == 0 {
		r.Fatalf("containerMetaList.lookAhead: the stores that end the search (next = m; main = nil after hasNextMeta) were not found (%d, %d)", nFound, nExhausted)
		return
	}
	for i, ret := range core.Returns(f) {
		early := false
		seen := map[*ssa.BasicBlock]bool{}
		var walk func(b *ssa.BasicBlock)
		walk = func(b *ssa.BasicBlock) {
			if seen[b] || done[b] || early {
				return
			}
			seen[b] = true
			if b == ret.Block() {
				early = true
				return
			}
			for _, s := range b.Succs {
				walk(s)
			}
		}
		walk(f.Blocks[0])
		r.Ob("members-until-exhausted", fmt.Sprintf("node.containerMetaList.lookAhead/return#%d", i+1), ctx.Pos(ret.Pos()), !early,
			"the search for the next member can end without having found one and without the member list being used up (e.g. when a choice has no case selected): every later sibling of the container is left out of reads, exports and edits")
	}
}
