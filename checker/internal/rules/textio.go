package rules

import (
	"go/token"
	"go/types"
	"strconv"
	"strings"

	"golang.org/x/tools/go/ssa"

	"verif/checker/internal/core"
)

// Rules shared by the properties that speak about the text forms of values
// (C04, C10, C15, C19) and about errors raised inside iterations (C05, C10).

func fnInFiles(ctx *core.Ctx, f *ssa.Function, pkg string, files ...string) bool {
	if core.FnPkgPath(f) != core.Full(pkg) {
		return false
	}
	if len(files) == 0 {
		return true
	}
	file := ctx.File(f.Pos())
	if f.Parent() != nil && file == "" {
		file = ctx.File(f.Parent().Pos())
	}
	for _, x := range files {
		if strings.HasSuffix(file, "/"+x) || file == x {
			return true
		}
	}
	return false
}

func scopeFuncs(ctx *core.Ctx, pkg string, files ...string) []*ssa.Function {
	var out []*ssa.Function
	for _, f := range ctx.RepoFuncs() {
		if fnInFiles(ctx, f, pkg, files...) {
			out = append(out, f)
		}
	}
	return out
}

// floatTextExact: every strconv.FormatFloat in scope asks for the shortest
// text that parses back to the same float64 (precision -1, bit size 64). Any
// fixed precision rounds the stored number.
func floatTextExact(ctx *core.Ctx, r *core.Report, fns []*ssa.Function, floor int) {
	n := 0
	seen := map[string]int{}
	for _, f := range fns {
		for _, c := range core.CallSites(f) {
			cal := core.StaticCallee(c)
			if cal == nil || core.FnName(cal) != "strconv.FormatFloat" {
				continue
			}
			n++
			key := core.FnName(f)
			seen[key]++
			if seen[key] > 1 {
				key += "#" + strconv.Itoa(seen[key])
			}
			a := c.Common().Args
			prec, okP := core.ConstInt(a[2])
			bits, okB := core.ConstInt(a[3])
			ok := okP && prec == -1 && okB && bits == 64
			msg := ""
			if !ok {
				msg = "the number is written with a fixed precision (or a precision decided at run time), not as the shortest text that reads back as the same float64: digits beyond it are rounded away"
				if okP && prec == -1 {
					msg = "bit size is not 64: the float64 is rounded to float32 before printing"
				}
			}
			r.Ob("float-text-exact", key, ctx.Pos(c.Pos()), ok, msg)
		}
	}
	r.Floor("float-text-exact", n, floor)
}

// definitionModuleOriginal: in the JSON/XML readers and writers the module
// that qualifies a data definition's name is meta.OriginalModule (where the
// definition was written); meta.RootModule (the root of the tree it was
// grafted into) is used only for identities.
func definitionModuleOriginal(ctx *core.Ctx, r *core.Report, fns []*ssa.Function, floor int) {
	n := 0
	seen := map[string]int{}
	for _, f := range fns {
		for _, c := range core.CallSites(f) {
			cal := core.StaticCallee(c)
			if cal == nil {
				continue
			}
			name := core.FnName(cal)
			if name != "meta.RootModule" && name != "meta.OriginalModule" {
				continue
			}
			n++
			if name == "meta.OriginalModule" {
				continue
			}
			key := core.FnName(f)
			seen[key]++
			if seen[key] > 1 {
				key += "#" + strconv.Itoa(seen[key])
			}
			arg := c.Common().Args[0]
			if mi, ok := arg.(*ssa.MakeInterface); ok {
				arg = mi.X
			}
			ok := core.TypeName(core.Deref(arg.Type())) == "meta.Identity"
			r.Ob("definition-module-original", key, ctx.Pos(c.Pos()), ok,
				"a data definition's module is taken with RootModule: for a node that an augment or grouping of another module contributed this is the module of the tree, not the one that defines the node, so the reader and the writer disagree on its qualified name / namespace")
		}
	}
	r.Floor("definition-module-original(module lookups)", n, floor)
}

// parseBaseTen: text is read as a decimal number: every strconv.ParseInt /
// ParseUint in scope has the constant base 10 (base 0 reads "010" as 8 and
// "0x10" as 16).
func parseBaseTen(ctx *core.Ctx, r *core.Report, fns []*ssa.Function, floor int) {
	n := 0
	seen := map[string]int{}
	for _, f := range fns {
		for _, c := range core.CallSites(f) {
			cal := core.StaticCallee(c)
			if cal == nil {
				continue
			}
			name := core.FnName(cal)
			if name != "strconv.ParseInt" && name != "strconv.ParseUint" {
				continue
			}
			n++
			key := core.FnName(f) + "/" + name
			seen[key]++
			if seen[key] > 1 {
				key += "#" + strconv.Itoa(seen[key])
			}
			base, ok := core.ConstInt(c.Common().Args[1])
			r.Ob("parse-base-ten", key, ctx.Pos(c.Pos()), ok && base == 10,
				"the text is not parsed in base 10: a leading 0 or 0x changes the number the text denotes")
		}
	}
	r.Floor("parse-base-ten", n, floor)
}

// loopErrorTested: an error produced by a call inside a loop is looked at
// inside that loop (tested or returned) before the next iteration replaces
// it; an error that only leaves the loop through a loop-carried variable is
// the last iteration's, every earlier failure is lost.
func loopErrorTested(ctx *core.Ctx, r *core.Report, fns []*ssa.Function, floor int) {
	n := 0
	seen := map[string]int{}
	for _, f := range fns {
		core.Instrs(f, func(b *ssa.BasicBlock, in ssa.Instruction) {
			var ev ssa.Value
			switch x := in.(type) {
			case *ssa.Extract:
				if core.IsErrorType(x.Type()) {
					if _, isCall := x.Tuple.(*ssa.Call); isCall {
						ev = x
					}
				}
			case *ssa.Call:
				if core.IsErrorType(x.Type()) {
					ev = x
				}
			}
			if ev == nil || ev.Referrers() == nil {
				return
			}
			body, _ := innerLoopOf(b)
			if body == nil {
				return
			}
			n++
			looked, carried := false, false
			var visit func(v ssa.Value, depth int)
			visit = func(v ssa.Value, depth int) {
				if depth > 3 || v.Referrers() == nil {
					return
				}
				for _, ref := range *v.Referrers() {
					switch x := ref.(type) {
					case *ssa.BinOp:
						if body[x.Block()] {
							looked = true
						}
					case *ssa.Return, *ssa.Call, *ssa.Store, *ssa.MakeInterface, *ssa.TypeAssert, *ssa.Defer, *ssa.Go:
						if body[ref.Block()] {
							looked = true // handed on within the iteration
						}
					case *ssa.Phi:
						if body[x.Block()] {
							carried = true
							visit(x, depth+1)
						} else {
							// leaves the loop
							carried = true
						}
					}
				}
			}
			visit(ev, 0)
			if !carried || looked {
				if carried || looked {
					r.Ob("loop-error-tested", loopKey(seen, f), ctx.Pos(in.Pos()), true, "")
				}
				return
			}
			r.Ob("loop-error-tested", loopKey(seen, f), ctx.Pos(in.Pos()), false,
				"the error of this call inside a loop is not tested in the loop: the next iteration overwrites it, so a failure on any element but the last is lost and its zero value is kept as the result")
		})
	}
	r.Floor("loop-error-tested(calls in loops returning error)", n, floor)
}

func loopKey(seen map[string]int, f *ssa.Function) string {
	key := core.FnName(f)
	seen[key]++
	if seen[key] > 1 {
		key += "#" + strconv.Itoa(seen[key])
	}
	return key
}

// capturedErrorKept: a closure that is handed to an iterating function (one
// that calls its function argument inside a loop) and records an error in a
// captured variable does not overwrite an error recorded by an earlier call:
// the store is made only when the new error is non-nil, or only while the
// variable is still nil.
func capturedErrorKept(ctx *core.Ctx, r *core.Report, fns []*ssa.Function, floor int) {
	iterates := map[*ssa.Function]map[int]bool{}
	var iter func(callee *ssa.Function, argIdx int, depth int) bool
	iter = func(callee *ssa.Function, argIdx int, depth int) bool {
		if callee == nil || callee.Blocks == nil || depth > 3 {
			return false
		}
		m, ok := iterates[callee]
		if !ok {
			m = map[int]bool{}
			iterates[callee] = m
			for i, p := range callee.Params {
				if _, isFn := p.Type().Underlying().(*types.Signature); !isFn {
					continue
				}
				refs := append([]ssa.Instruction{}, *p.Referrers()...)
				for _, ref := range *p.Referrers() {
					// a parameter captured by a closure is spilled to a cell first
					if st, ok := ref.(*ssa.Store); ok && st.Val == ssa.Value(p) {
						if al, ok := st.Addr.(*ssa.Alloc); ok {
							refs = append(refs, *al.Referrers()...)
						}
					}
				}
				for _, ref := range refs {
					switch x := ref.(type) {
					case *ssa.Call:
						if x.Common().Value == ssa.Value(p) {
							if body, _ := innerLoopOf(x.Block()); body != nil {
								m[i] = true
							}
						}
					case *ssa.MakeClosure:
						// captured by a closure that is itself handed to an iterator
						var uses func(v ssa.Value)
						uses = func(v ssa.Value) {
							for _, use := range *v.Referrers() {
								if ct, ok := use.(*ssa.ChangeType); ok {
									uses(ct)
								}
								if c2, ok := use.(ssa.CallInstruction); ok {
									for j, a := range c2.Common().Args {
										if a == v && iter(core.StaticCallee(c2), j, depth+1) {
											m[i] = true
										}
									}
								}
							}
						}
						uses(x)
					}
				}
			}
		}
		return m[argIdx]
	}
	n := 0
	seen := map[string]int{}
	for _, f := range fns {
		for _, c := range core.CallSites(f) {
			callee := core.StaticCallee(c)
			for i, a := range c.Common().Args {
				mc, ok := core.Strip(a).(*ssa.MakeClosure)
				if !ok || !iter(callee, i, 0) {
					continue
				}
				clo := mc.Fn.(*ssa.Function)
				for _, fv := range clo.FreeVars {
					pt, ok := fv.Type().(*types.Pointer)
					if !ok || !core.IsErrorType(pt.Elem()) {
						continue
					}
					for _, ref := range *fv.Referrers() {
						st, ok := ref.(*ssa.Store)
						if !ok || st.Addr != ssa.Value(fv) || core.IsNilConst(st.Val) {
							continue
						}
						n++
						kept := false
						for _, pc := range core.PathConds(st.Block()) {
							b, ok := pc.V.(*ssa.BinOp)
							if !ok {
								continue
							}
							// `e != nil` on the stored value, or `captured == nil`
							for _, side := range []ssa.Value{b.X, b.Y} {
								if side == st.Val && ((b.Op == token.NEQ && pc.True) || (b.Op == token.EQL && !pc.True)) {
									kept = true
								}
								if u, ok := side.(*ssa.UnOp); ok && u.X == ssa.Value(fv) && ((b.Op == token.EQL && pc.True) || (b.Op == token.NEQ && !pc.True)) {
									kept = true
								}
							}
						}
						if _, isCall := st.Val.(*ssa.Call); isCall && !kept {
							// `err = f()` … acceptable only when every earlier error stopped the iteration
						}
						r.Ob("captured-error-kept", loopKey(seen, f)+"/"+fv.Name(), ctx.Pos(st.Pos()), kept,
							"the iteration callback assigns its error to the captured `"+fv.Name()+"` unconditionally: a later element that passes resets an earlier element's failure to nil")
					}
				}
			}
		}
	}
	r.Floor("captured-error-kept", n, floor)
}
