package rules

import (
	"fmt"
	"go/token"
	"go/types"
	"strconv"
	"strings"

	"golang.org/x/tools/go/ssa"

	"verif/checker/internal/core"
)

// ---------------------------------------------------------------------------
// C18 — delete and replace remove exactly the addressed subtree; keys stay unique.
// ---------------------------------------------------------------------------

func C18(ctx *core.Ctx, r *core.Report) {
	r.Explanation = "Structural conditions of delete/replace, decided on all paths: Selection.Delete refuses a selection without parent, sends exactly one request per kind to the parent selection's node, marked Delete, carrying the selection's own schema node and (for a list entry) its own key, inside the begin/end pairing of C12; ReplaceFrom captures the parent before deleting, returns the delete error before inserting and inserts at that parent; a callback value that is nil-checked at one call site is nil-checked at every call site of the same function (the owner of a re-sliced list is told on append and on delete alike); the slice index reports the position of the entry it found, not its rank in the sorted index. Key uniqueness through the editor rests on lookup-before-create (decided under C03). The reflection list nodes drop their cached key index whenever they change the container; the linear key search matches on all key leaves. Not decided: that siblings keep their data, behaviour of each backing store, histories."
	del := ctx.Method("node", "Selection", "Delete")
	repl := ctx.Method("node", "Selection", "ReplaceFrom")
	nodeI := ctx.Named("node", "Node")
	if del == nil || repl == nil || nodeI == nil {
		r.Fatalf("anchors Selection.Delete / ReplaceFrom / node.Node not found")
		return
	}
	selT := ctx.Named("node", "Selection")
	selSt := selT.Underlying().(*types.Struct)
	recv := del.Params[0]

	// 1a. root guard: every callback/parent use is dominated by a `sel.parent == nil` test that returns an error
	guardOK := false
	var guardIf *ssa.If
	core.Instrs(del, func(_ *ssa.BasicBlock, in ssa.Instruction) {
		ifi, ok := in.(*ssa.If)
		if !ok {
			return
		}
		if condFieldName(ifi.Cond) == "parent" {
			if bo, isBo := ifi.Cond.(*ssa.BinOp); isBo && (core.IsNilConst(bo.X) || core.IsNilConst(bo.Y)) {
				guardIf = ifi
			}
		}
	})
	if guardIf != nil {
		// the nil side returns a non-nil error; all node invokes are on the other side
		bo := guardIf.Cond.(*ssa.BinOp)
		nilSucc := 0
		if bo.Op == token.NEQ {
			nilSucc = 1
		}
		nb := guardIf.Block().Succs[nilSucc]
		ret, isRet := nb.Instrs[len(nb.Instrs)-1].(*ssa.Return)
		if isRet {
			ops := core.RetOperands(ret)
			guardOK = !core.IsNilConst(ops[len(ops)-1])
		}
		for _, name := range []string{"Next", "Child"} {
			for _, c := range invokesOf(del, false, nodeI, name) {
				if !guardIf.Block().Dominates(c.Block()) || reachableAvoiding(nb, c.Block(), nil) {
					guardOK = false
				}
			}
		}
	}
	r.Ob("delete-root-guard", "node.Selection.Delete", ctx.Pos(del.Pos()), guardOK,
		"Delete dereferences sel.parent without first refusing a selection that has none: deleting (or replacing) a root selection crashes")

	// 1b. the requests
	for _, kind := range []struct{ typ, call string }{{"ListRequest", "Next"}, {"ChildRequest", "Child"}} {
		var lit *ssa.Alloc
		core.Instrs(del, func(_ *ssa.BasicBlock, in ssa.Instruction) {
			if al, ok := in.(*ssa.Alloc); ok {
				if n := core.NamedOf(al.Type()); n != nil && n.Obj().Name() == kind.typ {
					lit = al
				}
			}
		})
		calls := invokesOf(del, false, nodeI, kind.call)
		key := "node.Selection.Delete/" + kind.typ
		if lit == nil || len(calls) != 1 {
			r.Ob("delete-addresses-selection", key, ctx.Pos(del.Pos()), false, fmt.Sprintf("expected one %s literal and one Node.%s call, found %v/%d", kind.typ, kind.call, lit != nil, len(calls)))
			continue
		}
		st := core.NamedOf(lit.Type()).Underlying().(*types.Struct)
		fs := fieldStores(lit, st)
		var problems []string
		if c, ok := fs["Delete"].(*ssa.Const); !ok || c.Value == nil || c.Value.String() != "true" {
			problems = append(problems, "the request is not marked Delete")
		}
		// Request.Selection = sel.parent
		if v, ok := fs["Request.Selection"]; !ok || !isFieldLoadOf(v, recv, selSt, "parent") {
			problems = append(problems, "the request is not addressed to the parent selection")
		}
		// Meta derives from sel.Meta()
		if v, ok := fs["Meta"]; !ok || !derivesFromCallOn(v, "node.Selection.Meta", recv) {
			problems = append(problems, "the request does not carry the selection's own schema node")
		}
		if kind.typ == "ListRequest" {
			if v, ok := fs["Key"]; !ok || !derivesFromCallOn(v, "node.Selection.Key", recv) {
				problems = append(problems, "the request does not carry the selection's own key")
			}
		}
		// the node called is the request selection's node (r.Selection.Node)
		c := calls[0]
		if !strings.Contains(valueSig(c.Common().Value), "Selection.Node") && !strings.Contains(valueSig(c.Common().Value), "parent.Node") {
			problems = append(problems, "the request is sent to a node other than the parent selection's")
		}
		// list entries go to Next, everything else to Child: branch on InsideList
		want := map[string]bool{"ListRequest": true, "ChildRequest": false}[kind.typ]
		onBranch := false
		for _, pc := range core.PathConds(c.Block()) {
			if condFieldName(pc.V) == "InsideList" && pc.True == want {
				onBranch = true
			}
		}
		if !onBranch {
			problems = append(problems, "the request kind is not selected by sel.InsideList")
		}
		// the error of the node call is returned
		if ev := errResult(c); ev == nil || !flowsToReturn(ev, 0, map[ssa.Value]bool{}) {
			problems = append(problems, "the node's error is not returned")
		}
		r.Ob("delete-addresses-selection", key, ctx.Pos(c.Pos()), len(problems) == 0, strings.Join(problems, "; "))
	}

	// 2. ReplaceFrom = delete then insert at the captured parent
	insertFrom := ctx.Method("node", "Selection", "InsertFrom")
	dcs := callsStatic(repl, del, false)
	ics := callsStatic(repl, insertFrom, false)
	ok, msg := len(dcs) == 1 && len(ics) == 1, fmt.Sprintf("expected one Delete and one InsertFrom call, found %d/%d", len(dcs), len(ics))
	if ok {
		d, i := dcs[0], ics[0]
		rrecv := repl.Params[0]
		switch {
		case !instrDominates(d, i):
			ok, msg = false, "the insert is not preceded by the delete: old content survives the replace"
		case !core.IsParam(d.Common().Args[0], rrecv):
			ok, msg = false, "something other than the selection itself is deleted"
		case !isFieldLoadOf(i.Common().Args[0], rrecv, selSt, "parent"):
			ok, msg = false, "the new content is not inserted at the selection's parent"
		default:
			// parent captured before the delete
			if u, isU := core.Strip(i.Common().Args[0]).(*ssa.UnOp); isU && !instrDominates(u, d) {
				ok, msg = false, "the parent is read after the delete"
			}
			// delete error returned before insert: the insert is on the nil-error edge
			ev := errResult(d)
			guarded := false
			for _, pc := range core.PathConds(i.Block()) {
				if dependsOn(pc.V, ev, 0) {
					guarded = true
				}
			}
			if !guarded || !flowsToReturn(ev, 0, map[ssa.Value]bool{}) {
				ok, msg = false, "a failed delete does not stop the replace: the new content is inserted next to the old"
			}
			if ev2 := errResult(i); ev2 == nil || !flowsToReturn(ev2, 0, map[ssa.Value]bool{}) {
				ok, msg = false, "the insert's error is not returned"
			}
		}
	}
	r.Ob("replace-is-delete-then-insert", "node.Selection.ReplaceFrom", ctx.Pos(repl.Pos()), ok, msg)

	c18CallbackNilConsistency(ctx, r)
	c18SliceIndexPosition(ctx, r)
	c18CacheDroppedOnMutation(ctx, r)
	// "each entry is found under the key its key leaves hold"
	c17KeyMatchConjunction(ctx, r)
	c18GrowByAppendOnly(ctx, r)
	c18HandlerFollowsContainer(ctx, r)
	c18MapHandlerIndexDropped(ctx, r)
	c18ExistingEntryIsNotEmpty(ctx, r)
	c18ClearZeroes(ctx, r)
	c17IndexNilOnError(ctx, r)
	c17LessComparesWholeKey(ctx, r)
	c17SortSearch(ctx, r)
	c18LookupBeforeCreate(ctx, r)
}

// isFieldLoadOf: v is a load of recv.<field>.
func isFieldLoadOf(v ssa.Value, recv *ssa.Parameter, st *types.Struct, field string) bool {
	v = core.Strip(v)
	u, ok := v.(*ssa.UnOp)
	if !ok || u.Op != token.MUL {
		return false
	}
	fa, ok := u.X.(*ssa.FieldAddr)
	if !ok || st.Field(fa.Field).Name() != field {
		return false
	}
	return core.IsParam(fa.X, recv)
}

// derivesFromCallOn: v is (a type assertion / conversion of) a call of fn on recv.
func derivesFromCallOn(v ssa.Value, fn string, recv *ssa.Parameter) bool {
	for depth := 0; depth < 5; depth++ {
		switch x := v.(type) {
		case *ssa.TypeAssert:
			v = x.X
		case *ssa.ChangeInterface:
			v = x.X
		case *ssa.MakeInterface:
			v = x.X
		case *ssa.Call:
			cal := core.StaticCallee(x)
			return cal != nil && core.FnName(cal) == fn && len(x.Call.Args) > 0 && core.IsParam(x.Call.Args[0], recv)
		default:
			return false
		}
	}
	return false
}

// c18CallbackNilConsistency (K6 contradiction): within one function (and its
// closures), a function-typed parameter/captured variable that is compared
// with nil before one call must be compared with nil before every call.
func c18CallbackNilConsistency(ctx *core.Ctx, r *core.Report) {
	n := 0
	for _, f := range ctx.RepoFuncs() {
		p := core.FnPkgPath(f)
		if p != core.Full("nodeutil") && p != core.Full("node") {
			continue
		}
		if f.Parent() != nil {
			continue // closures are visited with their parent
		}
		// function-typed parameters
		for _, prm := range f.Params {
			if _, isFn := prm.Type().Underlying().(*types.Signature); !isFn {
				continue
			}
			type site struct {
				c       ssa.CallInstruction
				guarded bool
			}
			var sites []site
			for _, g := range withClosures(f) {
				for _, c := range core.CallSites(g) {
					v := c.Common().Value
					if !refersToVar(v, prm, g, f) {
						continue
					}
					guarded := false
					for _, pc := range core.PathConds(c.Block()) {
						bo, ok := pc.V.(*ssa.BinOp)
						if !ok || !(core.IsNilConst(bo.X) || core.IsNilConst(bo.Y)) {
							continue
						}
						if refersToVar(bo.X, prm, g, f) || refersToVar(bo.Y, prm, g, f) {
							if (bo.Op == token.NEQ) == pc.True {
								guarded = true
							}
						}
					}
					sites = append(sites, site{c, guarded})
				}
			}
			if len(sites) < 2 {
				continue
			}
			anyGuarded := false
			for _, s := range sites {
				if s.guarded {
					anyGuarded = true
				}
			}
			if !anyGuarded {
				continue // the function simply requires a non-nil callback
			}
			for _, s := range sites {
				n++
				r.Ob("callback-nil-consistency", core.FnName(f)+"/"+prm.Name(), ctx.Pos(s.c.Pos()), s.guarded,
					"callback "+prm.Name()+" is tested for nil before another call in this function but called unconditionally here: one of the two is wrong, and a nil callback crashes on this path")
			}
		}
	}
	r.Floor("callback-nil-consistency", n, 2)
}

// refersToVar: v is the parameter, or (inside a closure) a load of the free
// variable bound to the parameter's slot.
func refersToVar(v ssa.Value, prm *ssa.Parameter, in *ssa.Function, outer *ssa.Function) bool {
	v = core.Strip(v)
	if core.IsParam(v, prm) {
		return true
	}
	u, ok := v.(*ssa.UnOp)
	if !ok || u.Op != token.MUL {
		return false
	}
	fv, ok := u.X.(*ssa.FreeVar)
	if !ok {
		return false
	}
	// resolve through the closure chain: the FreeVar's name is the captured variable's name
	return fv.Name() == prm.Name()
}

// c18SliceIndexPosition: sliceSorter.find returns the entry's original
// position (the `pos` field), which listSlice uses to cut the slice.
func c18SliceIndexPosition(ctx *core.Ctx, r *core.Report) {
	find := ctx.Method("nodeutil", "sliceSorter", "find")
	if find == nil {
		r.Fatalf("anchor nodeutil.sliceSorter.find not found")
		return
	}
	ok := false
	for _, ret := range core.Returns(find) {
		ops := core.RetOperands(ret)
		if len(ops) == 2 {
			if condFieldName(ops[1]) == "pos" {
				ok = true
			}
			if u, isU := ops[1].(*ssa.UnOp); isU {
				if fa, isFa := u.X.(*ssa.FieldAddr); isFa {
					if st, isSt := core.Deref(fa.X.Type()).Underlying().(*types.Struct); isSt && st.Field(fa.Field).Name() == "pos" {
						ok = true
					}
				}
			}
		}
	}
	r.Ob("slice-index-position", "nodeutil.sliceSorter.find", ctx.Pos(find.Pos()), ok,
		"the index returned for a found key is not the entry's original position in the slice: delete would cut out the entry at the key's rank in the sorted index, i.e. another entry")
	// buildKeys records the position before sorting
	bk := ctx.Method("nodeutil", "Reflect", "buildKeys")
	if bk == nil {
		r.Fatalf("anchor nodeutil.Reflect.buildKeys not found")
		return
	}
	stores := false
	var sortCall ssa.CallInstruction
	for _, c := range core.CallSites(bk) {
		if cal := core.StaticCallee(c); cal != nil && core.FnName(cal) == "sort.Sort" {
			sortCall = c
		}
	}
	core.Instrs(bk, func(_ *ssa.BasicBlock, in ssa.Instruction) {
		st, ok := in.(*ssa.Store)
		if !ok {
			return
		}
		if fa, ok := st.Addr.(*ssa.FieldAddr); ok {
			if s, isSt := core.Deref(fa.X.Type()).Underlying().(*types.Struct); isSt && s.Field(fa.Field).Name() == "pos" {
				if sortCall == nil || !instrDominates(sortCall, st) {
					stores = true
				}
			}
		}
	})
	r.Ob("slice-index-position", "nodeutil.Reflect.buildKeys", ctx.Pos(bk.Pos()), stores && sortCall != nil, "positions must be recorded before the index is sorted")
}

// c18CacheDroppedOnMutation: the reflection list nodes keep a lazily built
// index of their container (a captured slice variable that is rebuilt when it
// is nil). Whenever the same closure changes the container (stores a result of
// reflect.Append/AppendSlice into the captured reflect.Value, or calls
// SetMapIndex on it) the index is set to nil on every path from that change to
// a return: an index that survives the change holds nodes and positions of the
// container as it was.
func c18CacheDroppedOnMutation(ctx *core.Ctx, r *core.Report) {
	n := 0
	for _, f := range ctx.RepoFuncs() {
		if core.FnPkgPath(f) != core.Full("nodeutil") || f.Parent() == nil {
			continue
		}
		// lazily built caches: captured *[]T compared with nil
		var caches []*ssa.FreeVar
		for _, fv := range f.FreeVars {
			pt, ok := fv.Type().(*types.Pointer)
			if !ok {
				continue
			}
			if _, isSlice := pt.Elem().Underlying().(*types.Slice); !isSlice {
				continue
			}
			nilTested := false
			for _, ref := range *fv.Referrers() {
				if u, ok := ref.(*ssa.UnOp); ok {
					for _, rr := range *u.Referrers() {
						if b, ok := rr.(*ssa.BinOp); ok && (core.IsNilConst(b.X) || core.IsNilConst(b.Y)) {
							nilTested = true
						}
					}
				}
			}
			if nilTested {
				caches = append(caches, fv)
			}
		}
		if len(caches) == 0 {
			continue
		}
		isReflectValueCell := func(v ssa.Value) bool {
			fv, ok := v.(*ssa.FreeVar)
			if !ok {
				return false
			}
			pt, ok := fv.Type().(*types.Pointer)
			return ok && core.TypeName(pt.Elem()) == "reflect.Value"
		}
		var muts []ssa.Instruction
		core.Instrs(f, func(_ *ssa.BasicBlock, in ssa.Instruction) {
			switch x := in.(type) {
			case *ssa.Store:
				if isReflectValueCell(x.Addr) {
					if c, ok := x.Val.(*ssa.Call); ok {
						if cal := core.StaticCallee(c); cal != nil && (core.FnName(cal) == "reflect.Append" || core.FnName(cal) == "reflect.AppendSlice") {
							muts = append(muts, in)
						}
					}
				}
			case *ssa.Call:
				if cal := core.StaticCallee(x); cal != nil && core.FnName(cal) == "reflect.Value.SetMapIndex" {
					if u, ok := x.Common().Args[0].(*ssa.UnOp); ok && isReflectValueCell(u.X) {
						muts = append(muts, in)
					}
				}
			}
		})
		for _, cache := range caches {
			isDrop := func(in ssa.Instruction) bool {
				st, ok := in.(*ssa.Store)
				return ok && st.Addr == ssa.Value(cache) && core.IsNilConst(st.Val)
			}
			for i, m := range muts {
				n++
				key := core.FnName(f) + "/" + cache.Name() + "#" + strconv.Itoa(i+1)
				// search forward from m for a return not preceded by a drop
				escaped := ""
				seen := map[*ssa.BasicBlock]bool{}
				var walk func(b *ssa.BasicBlock, from int)
				walk = func(b *ssa.BasicBlock, from int) {
					for _, in := range b.Instrs[from:] {
						if isDrop(in) {
							return
						}
						if ret, ok := in.(*ssa.Return); ok {
							escaped = ctx.Pos(ret.Pos())
							return
						}
					}
					for _, s := range b.Succs {
						if !seen[s] {
							seen[s] = true
							walk(s, 0)
						}
					}
				}
				walk(m.Block(), instrIndex(m)+1)
				r.Ob("cache-dropped-on-mutation", key, ctx.Pos(m.Pos()), escaped == "",
					"the container is changed here and the closure returns ("+escaped+") with its cached index `"+cache.Name()+"` still in place: later lookups and deletes use nodes and positions of the container as it was before the change")
			}
		}
	}
	r.Floor("cache-dropped-on-mutation", n, 4)
}

// c18GrowByAppendOnly: a list backed by a Go slice gets a new entry by
// appending a freshly created item. Re-slicing beyond the current length
// (v.Slice(0, v.Len()+1), s[:len(s)+1], SetLen(Len()+1)) also "adds" an element —
// whatever the backing array holds at that place: after a delete shifted the
// elements down, that is a stale copy of the former last entry, and the new
// entry (a replace, say) starts with the old entry's leaves.
func c18GrowByAppendOnly(ctx *core.Ctx, r *core.Report) {
	fns := append(scopeFuncs(ctx, "nodeutil"), scopeFuncs(ctx, "node")...)
	isLenPlus := func(v ssa.Value) bool {
		bo, ok := core.Strip(v).(*ssa.BinOp)
		if !ok || bo.Op != token.ADD {
			return false
		}
		for _, op := range []ssa.Value{bo.X, bo.Y} {
			if c, ok := core.Strip(op).(*ssa.Call); ok {
				if cal := c.Common().StaticCallee(); cal != nil && core.FnName(cal) == "reflect.Value.Len" {
					return true
				}
				if b, ok := c.Common().Value.(*ssa.Builtin); ok && b.Name() == "len" {
					return true
				}
			}
		}
		return false
	}
	nSlice, nAppend := 0, 0
	for _, f := range fns {
		core.Instrs(f, func(_ *ssa.BasicBlock, in ssa.Instruction) {
			switch x := in.(type) {
			case *ssa.Call:
				cal := x.Common().StaticCallee()
				if cal == nil {
					return
				}
				switch core.FnName(cal) {
				case "reflect.Append", "reflect.AppendSlice":
					nAppend++
				case "reflect.Value.Slice", "reflect.Value.Slice3", "reflect.Value.SetLen":
					nSlice++
					args := x.Common().Args
					bad := false
					for _, a := range args[1:] {
						if isLenPlus(a) {
							bad = true
						}
					}
					if bad {
						r.Ob("grow-by-append-only", core.FnName(f)+"/"+cal.Name()+"(…Len()+k)", ctx.Pos(x.Pos()), false,
							"a slice-backed list is made longer by re-slicing beyond its length instead of appending a newly created item: the element that appears is whatever the backing array still holds there (after a delete: a stale copy of the former last entry), so the new entry starts with old content")
					}
				}
			case *ssa.Slice:
				if x.High != nil && isLenPlus(x.High) {
					if _, isSlice := x.X.Type().Underlying().(*types.Slice); isSlice {
						r.Ob("grow-by-append-only", core.FnName(f)+"/s[:len(s)+k]", ctx.Pos(x.Pos()), false,
							"a slice is made longer by re-slicing beyond its length: the element that appears is whatever the backing array still holds there")
					}
				}
			}
		})
	}
	r.Ob("grow-by-append-only", "nodeutil+node/scanned", "nodeutil/reflect.go", nAppend >= 2,
		fmt.Sprintf("%d reflect.Append/AppendSlice and %d reflect re-slice calls examined (at least two appends expected: the slice list nodes)", nAppend, nSlice))
	r.Count("instances:grow-by-append-only(reflect slice ops)", nAppend+nSlice)
}

// c18LookupBeforeCreate: "no list holds two entries with equal keys" rests on
// the editor looking an entry up by its key before it creates one (decided by
// C03's rules over editor.list/editor.node); reported here as well because a
// change that skips the lookup breaks this property first.
func c18LookupBeforeCreate(ctx *core.Ctx, r *core.Report) {
	sub := core.NewReport("C03", r.Tier, r.Root, r.Seed)
	C03(ctx, sub)
	r.Borrow(sub, "lookup-precedes-create", "create-only-when-allowed")
}
