package rules

import (
	"fmt"
	"go/ast"
	"go/constant"
	"go/token"
	"go/types"
	"sort"
	"strings"

	"golang.org/x/tools/go/ssa"

	"verif/checker/internal/core"
)

// ---------------------------------------------------------------------------
// escaper-not-bypassed (C15, C04)
//
// The JSON writer escapes text in one place: the package-level writeString
// (encoding/json's algorithm), driven by the tables safeSet / htmlSafeSet. A
// "nothing to escape" shortcut in front of it is a second, hand-written copy of
// those tables. Decided here:
//
//	(a) in JSONWtr.writeString the argument reaches the output only through the
//	    buffer the package-level writeString filled;
//	(b) in the package-level writeString the argument is written to the buffer
//	    only in spans cut by the scanning loop (s[start:i], s[start:]); writing
//	    the argument whole is accepted only under a test whose character set,
//	    evaluated here from its constant, contains every byte the tables say
//	    must be escaped, U+2028/U+2029 and an invalid-UTF-8 test.
// ---------------------------------------------------------------------------

// boolTable evaluates `var name = [N]bool{ 'x': true, … }` of a package from its syntax.
func boolTable(ctx *core.Ctx, pkg, name string) (map[int64]bool, bool) {
	pp := ctx.PPkg(pkg)
	if pp == nil {
		return nil, false
	}
	for _, file := range pp.Syntax {
		for _, d := range file.Decls {
			gd, ok := d.(*ast.GenDecl)
			if !ok || gd.Tok != token.VAR {
				continue
			}
			for _, sp := range gd.Specs {
				vs := sp.(*ast.ValueSpec)
				for i, nm := range vs.Names {
					if nm.Name != name || i >= len(vs.Values) {
						continue
					}
					cl, ok := vs.Values[i].(*ast.CompositeLit)
					if !ok {
						return nil, false
					}
					out := map[int64]bool{}
					for _, el := range cl.Elts {
						kv, ok := el.(*ast.KeyValueExpr)
						if !ok {
							return nil, false
						}
						ktv, ok1 := pp.TypesInfo.Types[kv.Key]
						vtv, ok2 := pp.TypesInfo.Types[kv.Value]
						if !ok1 || !ok2 || ktv.Value == nil || vtv.Value == nil {
							return nil, false
						}
						k, _ := constant.Int64Val(constant.ToInt(ktv.Value))
						out[k] = constant.BoolVal(vtv.Value)
					}
					return out, true
				}
			}
		}
	}
	return nil, false
}

func derivesFromString(v ssa.Value, s ssa.Value, seen map[ssa.Value]bool) (whole bool, sliced bool) {
	if v == nil || seen[v] {
		return
	}
	seen[v] = true
	if v == s {
		return true, false
	}
	switch x := v.(type) {
	case *ssa.Slice:
		if x.X == s {
			if x.Low == nil && x.High == nil {
				return true, false
			}
			if c, ok := x.Low.(*ssa.Const); (x.Low == nil || (ok && c.Value != nil && c.Value.String() == "0")) && x.High == nil {
				return true, false
			}
			return false, true
		}
		return derivesFromString(x.X, s, seen)
	case *ssa.Convert:
		return derivesFromString(x.X, s, seen)
	case *ssa.ChangeType:
		return derivesFromString(x.X, s, seen)
	case *ssa.Phi:
		for _, e := range x.Edges {
			w, sl := derivesFromString(e, s, seen)
			whole, sliced = whole || w, sliced || sl
		}
	}
	return
}

func escaperNotBypassed(ctx *core.Ctx, r *core.Report) {
	ws := ctx.Fn("nodeutil", "writeString")
	mws := ctx.Method("nodeutil", "JSONWtr", "writeString")
	if ws == nil || mws == nil {
		r.Fatalf("anchors nodeutil.writeString / nodeutil.JSONWtr.writeString not found")
		return
	}
	safe, ok1 := boolTable(ctx, "nodeutil", "safeSet")
	htmlSafe, ok2 := boolTable(ctx, "nodeutil", "htmlSafeSet")
	if !ok1 || !ok2 || len(safe) < 90 || len(htmlSafe) < 90 {
		r.Fatalf("tables nodeutil.safeSet / htmlSafeSet could not be evaluated from the source")
		return
	}
	// the tables themselves: control characters, quote and backslash must be unsafe in both
	for b := int64(0); b < 128; b++ {
		must := b < 0x20 || b == '"' || b == '\\'
		if must && (safe[b] || htmlSafe[b]) {
			r.Ob("escaper-not-bypassed", fmt.Sprintf("nodeutil.safeSet/byte-0x%02x", b), ctx.Pos(ws.Pos()), false,
				fmt.Sprintf("the escaping table marks byte 0x%02x as safe to copy into a JSON string: RFC 8259 requires it to be escaped", b))
		}
	}
	r.Ob("escaper-not-bypassed", "nodeutil.safeSet/control-quote-backslash-unsafe", ctx.Pos(ws.Pos()), true, "")

	// (a) the method: s reaches only the package-level writeString (and len)
	if len(mws.Params) >= 2 {
		s := mws.Params[1]
		okA, why := true, ""
		seen := map[ssa.Value]bool{}
		var uses func(v ssa.Value)
		uses = func(v ssa.Value) {
			if seen[v] || v.Referrers() == nil {
				return
			}
			seen[v] = true
			for _, ref := range *v.Referrers() {
				switch x := ref.(type) {
				case *ssa.DebugRef:
				case *ssa.Slice, *ssa.Convert, *ssa.ChangeType, *ssa.Phi:
					uses(x.(ssa.Value))
				case ssa.CallInstruction:
					c := x.Common()
					if b, ok := c.Value.(*ssa.Builtin); ok && b.Name() == "len" {
						continue
					}
					if c.StaticCallee() == ws {
						continue
					}
					// a predicate over the text (returns only bool/int) does not output it
					res := c.Signature().Results()
					pred := res.Len() > 0
					for i := 0; i < res.Len(); i++ {
						if b, ok := res.At(i).Type().Underlying().(*types.Basic); !ok || b.Info()&(types.IsBoolean|types.IsInteger) == 0 {
							pred = false
						}
					}
					if pred {
						continue
					}
					okA, why = false, "it is handed to "+core.CalleeName(x)
				default:
					okA, why = false, fmt.Sprintf("it is used by %T", ref)
				}
			}
		}
		uses(s)
		r.Ob("escaper-not-bypassed", "nodeutil.JSONWtr.writeString/text-only-through-escaper", ctx.Pos(mws.Pos()), okA,
			"the text of a value reaches the output beside the escaping writeString ("+why+"): a character the shortcut's test does not know (control characters below 0x20, …) is written raw and the document is not JSON")
	}

	// (b) the escaper: whole-argument writes
	s := ws.Params[1]
	n := 0
	for _, c := range core.CallSites(ws) {
		cal := core.StaticCallee(c)
		if cal == nil || !strings.HasPrefix(core.FnName(cal), "bytes.Buffer.Write") {
			continue
		}
		args := c.Common().Args
		if len(args) < 2 {
			continue
		}
		whole, sliced := derivesFromString(args[1], s, map[ssa.Value]bool{})
		if !whole && !sliced {
			continue
		}
		n++
		if !whole {
			r.Ob("escaper-not-bypassed", fmt.Sprintf("nodeutil.writeString/span-write#%d", n), ctx.Pos(c.Pos()), true, "")
			continue
		}
		// the guard: on this path ContainsAny(s, K)/IndexAny(s, K) found nothing
		missing, guard := []string{}, false
		valid := false
		for _, pc := range core.PathConds(c.Block()) {
			var call *ssa.Call
			neg := !pc.True
			switch cv := pc.V.(type) {
			case *ssa.Call:
				call = cv
			case *ssa.UnOp:
				if cv.Op == token.NOT {
					call, _ = cv.X.(*ssa.Call)
					neg = pc.True
				}
			}
			if call == nil {
				continue
			}
			cal := call.Common().StaticCallee()
			if cal == nil {
				continue
			}
			switch core.FnName(cal) {
			case "strings.ContainsAny":
				if !neg || call.Common().Args[0] != ssa.Value(s) {
					continue
				}
				k, isC := core.ConstString(call.Common().Args[1])
				if !isC {
					continue
				}
				guard = true
				need := htmlSafe
				for b := int64(0); b < 128; b++ {
					if !need[b] && !strings.ContainsRune(k, rune(b)) {
						missing = append(missing, fmt.Sprintf("0x%02x", b))
					}
				}
				for _, ru := range []rune{0x2028, 0x2029} {
					if !strings.ContainsRune(k, ru) {
						missing = append(missing, fmt.Sprintf("U+%04X", ru))
					}
				}
			case "unicode/utf8.ValidString":
				if !neg && call.Common().Args[0] == ssa.Value(s) {
					valid = true
				}
			}
		}
		sort.Strings(missing)
		okB := guard && valid && len(missing) == 0
		msg := "the argument is copied into the JSON string whole, without passing the scanning loop and without a test this check can evaluate"
		if guard {
			if len(missing) > 0 {
				show := missing
				if len(show) > 12 {
					show = append(append([]string{}, show[:12]...), fmt.Sprintf("… (%d in all)", len(missing)))
				}
				msg = "the shortcut copies the argument whole when it holds none of a fixed set of characters, but the escaping tables require more to be escaped than that set names: " + strings.Join(show, " ") + " — a string holding one of these is written raw"
			} else if !valid {
				msg = "the shortcut copies the argument whole without testing that it is valid UTF-8 (the loop replaces invalid bytes by \\ufffd)"
			}
		}
		r.Ob("escaper-not-bypassed", fmt.Sprintf("nodeutil.writeString/whole-write#%d", n), ctx.Pos(c.Pos()), okB, msg)
	}
	r.Floor("escaper-not-bypassed", n, 4)
}
