package rules

import (
	"fmt"
	"go/ast"
	"go/token"
	"go/types"
	"sort"
	"strconv"
	"strings"

	"golang.org/x/tools/go/ssa"

	"verif/checker/internal/core"
)

// ---------------------------------------------------------------------------
// C16 — when, where and filter hide exactly what their expression excludes.
// ---------------------------------------------------------------------------

func C16(ctx *core.Ctx, r *core.Report) {
	r.Explanation = "Structural conditions of expression-based hiding: CheckWhen is installed on every browser unconditionally and acts as field pre-constraint (before Node.Field in both set and get) and container post-constraint (a veto makes selekt return no selection); the comparison dispatch of xpathImpl.resolveOperator maps each operator literal to the mathematically right predicate on c = leaf.Compare(literal) and covers exactly the operators the xpath lexer can emit; an unset operand yields false before any Compare; syntax errors of where/filter/when expressions are returned; where applies its predicate only to entries of the base list. Truth of the comparisons themselves is delegated to C17. Not decided: XPath path resolution semantics, which rows where keeps, notification delivery."
	c16WhenArmed(ctx, r)
	c16OperatorTable(ctx, r)
	c16SyntaxErrors(ctx, r)
	c16WhereScope(ctx, r)
	c16WhereBaseByIdentity(ctx, r)
	c16LiteralExact(ctx, r)
	c16OperandReadUnfiltered(ctx, r)
	c08WhereNeedsBase(ctx, r)
	c16WhenGoesOnTheNode(ctx, r)
	c16ExpressionWalkedOnce(ctx, r)
	// a where/filter registered on one selection must not replace a sibling's (C07's registry rules)
	c07Accumulate(ctx, r)
	// a comparison holds exactly when it holds mathematically: the sign Compare returns (C17's rule, on the same methods)
	if impls, _ := comparableImpls(ctx, r); len(impls) > 0 {
		c17CompareOrder(ctx, r, impls)
	}
	r.Count("instances:no-stale-verdicts(tables of data-derived answers)", noStaleVerdicts(ctx, r, scopeFuncs(ctx, "node"), "node", "nodeutil"))
}

func c16WhenArmed(ctx *core.Ctx, r *core.Report) {
	// installed unconditionally
	add := ctx.Method("node", "Constraints", "AddConstraint")
	base := ctx.Method("node", "Browser", "baseConstraints")
	whenT := ctx.Named("node", "CheckWhen")
	if add == nil || base == nil || whenT == nil {
		r.Fatalf("anchors AddConstraint / Browser.baseConstraints / CheckWhen not found")
		return
	}
	n := 0
	for _, c := range callsStatic(base, add, false) {
		a := c.Common().Args
		if mi, ok := a[len(a)-1].(*ssa.MakeInterface); ok && core.NamedOf(mi.X.Type()) == whenT {
			n++
			r.Ob("when-armed", "node.Browser.baseConstraints", ctx.Pos(c.Pos()), len(core.PathConds(c.Block())) == 0, "CheckWhen is installed only conditionally")
		}
	}
	if n != 1 {
		r.Ob("when-armed", "node.Browser.baseConstraints", ctx.Pos(base.Pos()), false, fmt.Sprintf("CheckWhen is installed %d times in baseConstraints: `when` statements are not enforced", n))
	}
	// CheckWhen implements the field-pre and container-post interfaces
	for _, iface := range []string{"FieldPreConstraint", "ContainerPostConstraint"} {
		it := ctx.Named("node", iface)
		ok := it != nil && implementsNamed(whenT, it)
		r.Ob("when-armed", "node.CheckWhen implements "+iface, ctx.Pos(whenT.Obj().Pos()), ok, "CheckWhen does not implement "+iface+": a false `when` no longer hides the node at that step")
	}
	// every CheckWhen.Check* evaluates check() on the request's own meta and returns its verdict
	check := ctx.Method("node", "CheckWhen", "check")
	for _, m := range []string{"CheckContainerPostConstraints", "CheckFieldPreConstraints"} {
		f := ctx.Method("node", "CheckWhen", m)
		if f == nil || check == nil {
			r.Fatalf("anchor CheckWhen.%s / check not found", m)
			continue
		}
		cs := callsStatic(f, check, false)
		ok := len(cs) == 1
		if ok {
			// its results are what the method returns
			for _, ret := range core.Returns(f) {
				for _, op := range core.RetOperands(ret) {
					if !dependsOn(op, cs[0].Value(), 0) {
						ok = false
					}
				}
			}
		}
		r.Ob("when-armed", "node.CheckWhen."+m, ctx.Pos(f.Pos()), ok, "the method must return the verdict of CheckWhen.check unchanged")
	}
	// check(): when expression false → proceed=false: the XPredicate result is returned
	if check != nil {
		xp := ctx.Method("node", "Selection", "XPredicate")
		cs := callsStatic(check, xp, false)
		ok := len(cs) == 1
		if ok {
			found := false
			for _, ret := range core.Returns(check) {
				ops := core.RetOperands(ret)
				if dependsOn(ops[0], cs[0].Value(), 0) {
					found = true
				}
			}
			ok = found
		}
		r.Ob("when-armed", "node.CheckWhen.check/verdict", ctx.Pos(check.Pos()), ok, "the truth value of the when expression is not what check() returns")
	}
	// a container-post veto makes selekt return no selection
	selekt := ctx.Method("node", "Selection", "selekt")
	post := ctx.Method("node", "Constraints", "CheckContainerPostConstraints")
	if selekt == nil || post == nil {
		r.Fatalf("anchors Selection.selekt / Constraints.CheckContainerPostConstraints not found")
		return
	}
	pcs := callsStatic(selekt, post, false)
	ok := len(pcs) == 1
	msg := "selekt does not evaluate the container post-constraints"
	if ok {
		vetoNil := false
		for _, ret := range core.Returns(selekt) {
			ops := core.RetOperands(ret)
			if !core.IsNilConst(ops[0]) {
				continue
			}
			for _, pc := range core.PathConds(ret.Block()) {
				if dependsOn(pc.V, pcs[0].Value(), 0) {
					vetoNil = true
				}
			}
			// short-circuit `!proceed || err != nil`: the return block is a successor of a block testing the result
			for _, p := range ret.Block().Preds {
				if ifi, isIf := p.Instrs[len(p.Instrs)-1].(*ssa.If); isIf && dependsOn(ifi.Cond, pcs[0].Value(), 0) {
					vetoNil = true
				}
			}
		}
		// and the success return (non-nil child) is after the post check
		for _, ret := range core.Returns(selekt) {
			ops := core.RetOperands(ret)
			if !core.IsNilConst(ops[0]) && !instrDominates(pcs[0], ret) {
				ok, msg = false, "a child selection is returned without the container post-constraints having run"
			}
		}
		if ok && !vetoNil {
			ok, msg = false, "a veto of the container post-constraints does not make selekt return nil: a node whose `when` is false stays visible"
		}
	}
	r.Ob("when-armed", "node.Selection.selekt/post-veto", ctx.Pos(selekt.Pos()), ok, msg)
}

func implementsNamed(t *types.Named, iface *types.Named) bool {
	it, ok := iface.Underlying().(*types.Interface)
	if !ok {
		return false
	}
	return types.Implements(t, it) || types.Implements(types.NewPointer(t), it)
}

// lexerOperators derives the operator spellings xpath/lexer.go can emit.
func lexerOperators(ctx *core.Ctx, r *core.Report) []string {
	p := ctx.PPkg("xpath")
	if p == nil {
		r.Fatalf("package xpath not found")
		return nil
	}
	var fd *ast.FuncDecl
	for _, f := range p.Syntax {
		for _, d := range f.Decls {
			if x, ok := d.(*ast.FuncDecl); ok && x.Name.Name == "acceptOperator" {
				fd = x
			}
		}
	}
	if fd == nil {
		r.Fatalf("anchor xpath.lexer.acceptOperator not found")
		return nil
	}
	var ops []string
	countEmit := func(n ast.Node) int {
		c := 0
		if n == nil {
			return 0
		}
		ast.Inspect(n, func(x ast.Node) bool {
			if ce, ok := x.(*ast.CallExpr); ok {
				if se, ok := ce.Fun.(*ast.SelectorExpr); ok && se.Sel.Name == "emit" {
					c++
				}
			}
			return true
		})
		return c
	}
	ast.Inspect(fd.Body, func(n ast.Node) bool {
		cc, ok := n.(*ast.CaseClause)
		if !ok || len(cc.List) != 1 {
			return true
		}
		bl, ok := cc.List[0].(*ast.BasicLit)
		if !ok || bl.Kind != token.CHAR {
			return true
		}
		ch, _ := strconv.Unquote(bl.Value)
		// an `if l.next() == '='` inside?
		var ifs *ast.IfStmt
		for _, st := range cc.Body {
			if x, ok := st.(*ast.IfStmt); ok {
				ifs = x
			}
		}
		if ifs == nil {
			if countEmit(&ast.BlockStmt{List: cc.Body}) > 0 {
				ops = append(ops, ch)
			}
			return false
		}
		if countEmit(ifs.Body) > 0 {
			ops = append(ops, ch+"=")
		}
		if ifs.Else != nil && countEmit(ifs.Else) > 0 {
			ops = append(ops, ch)
		}
		return false
	})
	sort.Strings(ops)
	return ops
}

// c16OperatorTable: operator literal ↦ predicate.
func c16OperatorTable(ctx *core.Ctx, r *core.Report) {
	f := ctx.Method("node", "xpathImpl", "resolveOperator")
	equal := ctx.Fn("val", "Equal")
	get := ctx.Method("node", "Selection", "Get")
	newValue := ctx.Fn("node", "NewValue")
	if f == nil || equal == nil || get == nil || newValue == nil {
		r.Fatalf("anchors xpathImpl.resolveOperator / val.Equal / Selection.Get / node.NewValue not found")
		return
	}
	// operands: a = s.Get(), b = NewValue(type, literal)
	var aVal, bVal ssa.Value
	for _, c := range callsStatic(f, get, false) {
		aVal = c.Value()
	}
	for _, c := range callsStatic(f, newValue, false) {
		bVal = c.Value()
	}
	if aVal == nil || bVal == nil {
		r.Fatalf("resolveOperator: operands (Selection.Get, NewValue) not found")
		return
	}
	// the Compare call
	var cmp *ssa.Call
	for _, c := range core.CallSites(f) {
		if m := core.IfaceMethod(c); m != nil && m.Name() == "Compare" {
			cmp, _ = c.(*ssa.Call)
		}
	}
	orient := cmp != nil && dependsOn(cmp.Call.Value, aVal, 0) && len(cmp.Call.Args) == 1 && dependsOn(cmp.Call.Args[0], bVal, 0)
	r.Ob("operator-dispatch", "node.xpathImpl.resolveOperator/orientation", ctx.Pos(f.Pos()), orient,
		"the comparison must be c = leafValue.Compare(literal): with the operands swapped every relational operator is mirrored")

	// literal → predicate
	want := map[string]string{"=": "eq", "!=": "ne", "<": "<", ">": ">", "<=": "<=", ">=": ">="}
	got := map[string]string{}
	core.Instrs(f, func(b *ssa.BasicBlock, in ssa.Instruction) {
		bo, ok := in.(*ssa.BinOp)
		if !ok || bo.Op != token.EQL {
			return
		}
		lit, ok := core.ConstString(bo.Y)
		if !ok {
			return
		}
		// the branch taken when the operator equals lit
		var target *ssa.BasicBlock
		for _, ref := range *bo.Referrers() {
			if ifi, ok := ref.(*ssa.If); ok {
				target = ifi.Block().Succs[0]
			}
		}
		if target == nil {
			return
		}
		// the return in that branch
		for _, ret := range core.Returns(f) {
			if ret.Block() != target && !(target.Dominates(ret.Block()) && len(target.Succs) <= 1) {
				continue
			}
			ops := core.RetOperands(ret)
			v := ops[0]
			switch x := v.(type) {
			case *ssa.Call:
				if core.IsCallTo(x, equal) && equalArgs(x, aVal, bVal) {
					got[lit] = "eq"
				}
			case *ssa.UnOp:
				if c, ok := x.X.(*ssa.Call); ok && x.Op == token.NOT && core.IsCallTo(c, equal) && equalArgs(c, aVal, bVal) {
					got[lit] = "ne"
				}
			case *ssa.BinOp:
				if cmp != nil && x.X == ssa.Value(cmp) && isZero(x.Y) {
					got[lit] = x.Op.String()
				} else if cmp != nil && x.Y == ssa.Value(cmp) && isZero(x.X) {
					got[lit] = "swapped" + x.Op.String()
				}
			}
		}
	})
	var lits []string
	for k := range want {
		lits = append(lits, k)
	}
	sort.Strings(lits)
	for _, k := range lits {
		r.Ob("operator-dispatch", fmt.Sprintf("node.xpathImpl.resolveOperator/%q", k), ctx.Pos(f.Pos()), got[k] == want[k],
			fmt.Sprintf("operator %q evaluates as %q, expected %q", k, got[k], want[k]))
	}
	// the set handled equals the set the lexer emits
	lex := lexerOperators(ctx, r)
	var handled []string
	for k := range got {
		handled = append(handled, k)
	}
	sort.Strings(handled)
	r.Ob("operator-dispatch", "operators: xpath lexer = resolveOperator", ctx.Pos(f.Pos()), strings.Join(lex, " ") == strings.Join(handled, " "),
		fmt.Sprintf("the xpath lexer can emit {%s}, resolveOperator handles {%s}", strings.Join(lex, " "), strings.Join(handled, " ")))

	// unset operand → false before Compare
	if cmp != nil {
		nilA, nilB := false, false
		for _, pc := range core.PathConds(cmp.Block()) {
			bo, ok := pc.V.(*ssa.BinOp)
			if !ok || bo.Op != token.EQL || pc.True {
				continue
			}
			if core.IsNilConst(bo.Y) || core.IsNilConst(bo.X) {
				if dependsOn(bo.X, aVal, 0) || dependsOn(bo.Y, aVal, 0) {
					nilA = true
				}
				if dependsOn(bo.X, bVal, 0) || dependsOn(bo.Y, bVal, 0) {
					nilB = true
				}
			}
		}
		r.Ob("unset-operand-is-false", "node.xpathImpl.resolveOperator/leaf-value", ctx.Pos(cmp.Pos()), nilA,
			"the leaf's value is not tested for nil before the relational comparison: a leaf with no value crashes instead of comparing false")
		r.Ob("unset-operand-is-false", "node.xpathImpl.resolveOperator/literal", ctx.Pos(cmp.Pos()), nilB, "the literal operand is not tested for nil before the comparison")
		// the nil case returns false, nil
		retFalse := false
		for _, ret := range core.Returns(f) {
			ops := core.RetOperands(ret)
			c, isC := ops[0].(*ssa.Const)
			if !isC || c.Value == nil || c.Value.String() != "false" || !core.IsNilConst(ops[1]) {
				continue
			}
			for _, p := range ret.Block().Preds {
				if ifi, ok := p.Instrs[len(p.Instrs)-1].(*ssa.If); ok && (dependsOn(ifi.Cond, aVal, 0) || dependsOn(ifi.Cond, bVal, 0)) {
					retFalse = true
				}
			}
		}
		r.Ob("unset-operand-is-false", "node.xpathImpl.resolveOperator/returns-false", ctx.Pos(f.Pos()), retFalse, "the unset-operand case does not return (false, nil)")
	}
}

func equalArgs(c *ssa.Call, a, b ssa.Value) bool {
	args := c.Call.Args
	return len(args) == 2 && dependsOn(args[0], a, 0) && dependsOn(args[1], b, 0)
}

// c16SyntaxErrors: parse errors of expressions surface.
func c16SyntaxErrors(ctx *core.Ctx, r *core.Report) {
	parse := ctx.Fn("xpath", "Parse")
	if parse == nil {
		r.Fatalf("anchor xpath.Parse not found")
		return
	}
	n := 0
	for _, spec := range []string{"node.NewWhere", "node.NewFilterConstraint", "node.CheckWhen.check"} {
		f := ctx.Lookup(spec)
		if f == nil {
			r.Fatalf("anchor %s not found", spec)
			continue
		}
		for _, c := range callsStatic(f, parse, false) {
			n++
			ev := errResult(c)
			ok := ev != nil && flowsToReturn(ev, 0, map[ssa.Value]bool{})
			r.Ob("syntax-errors-surface", spec, ctx.Pos(c.Pos()), ok, "a syntax error in the expression is not returned: a malformed where/filter/when silently selects everything or nothing")
		}
	}
	r.Floor("syntax-errors-surface", n, 3)
}

// c16WhereScope: Where hides only entries of the base list.
func c16WhereScope(ctx *core.Ctx, r *core.Report) {
	f := ctx.Method("node", "Where", "CheckListPostConstraints")
	xp := ctx.Method("node", "Selection", "XPredicate")
	if f == nil || xp == nil {
		r.Fatalf("anchors Where.CheckListPostConstraints / Selection.XPredicate not found")
		return
	}
	cs := callsStatic(f, xp, false)
	ok, msg := len(cs) == 1, "the predicate is not evaluated exactly once"
	if ok {
		// visible (2nd result) is the predicate's result; proceed (1st) is the constant true
		for _, ret := range core.Returns(f) {
			ops := core.RetOperands(ret)
			if c, isC := ops[0].(*ssa.Const); !isC || c.Value == nil || c.Value.String() != "true" {
				ok, msg = false, "where must never stop the iteration (proceed must be true), only hide entries"
			}
			if ret.Block() == cs[0].Block() || cs[0].Block().Dominates(ret.Block()) {
				if !dependsOn(ops[1], cs[0].Value(), 0) {
					ok, msg = false, "the entry's visibility is not the truth value of the where expression"
				}
			} else if c, isC := ops[1].(*ssa.Const); !isC || c.Value == nil || c.Value.String() != "true" {
				ok, msg = false, "entries outside the base list must stay visible"
			}
		}
		// predicate evaluated on the child (the entry), not on the list
		child := paramNamed(f, "child")
		if child != nil && !core.IsParam(cs[0].Common().Args[0], child) {
			ok, msg = false, "the where expression is evaluated on something other than the list entry"
		}
	}
	r.Ob("where-scope", "node.Where.CheckListPostConstraints", ctx.Pos(f.Pos()), ok, msg)
}
