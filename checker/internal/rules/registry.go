// Package rules holds the per-property rule sets.
package rules

import "verif/checker/internal/core"

// Rule decides the structural clauses of one property.
type Rule func(ctx *core.Ctx, r *core.Report)

// Registry maps property ids to their rule sets.
var Registry = map[string]Rule{
	"C01": C01,
	"C02": C02,
	"C03": C03,
	"C04": C04,
	"C05": C05,
	"C06": C06,
	"C07": C07,
	"C08": C08,
	"C09": C09,
	"C10": C10,
	"C11": C11,
	"C12": C12,
	"C13": C13,
	"C14": C14,
	"C15": C15,
	"C16": C16,
	"C17": C17,
	"C18": C18,
	"C19": C19,
	"C20": C20,
}
