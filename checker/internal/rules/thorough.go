package rules

import (
	"bytes"
	"encoding/json"
	"fmt"
	"os"
	"os/exec"
	"path/filepath"
	"sort"
	"strings"

	"verif/checker/internal/core"
)

// Thorough runs the extra thorough-tier work of a property:
//
//	(a) the same rules on a GOARCH=386 type-check of the tree (integer widths
//	    differ; build-tagged files), in a child process;
//	(b) for the properties that rest on the goyacc grammars: parser.go must be
//	    exactly what goyacc generates from parser.y, so that grammar-level rules
//	    speak about the compiled parser;
//	(c) checker self-test: every seeded defect recorded for this property under
//	    /verif/seeded whose meta.json says it is detected by this check is applied
//	    to a scratch worktree and must make the check report a new violation.
func Thorough(prop string, ctx *core.Ctx, r *core.Report, repo, root string) {
	exe, err := os.Executable()
	if err != nil {
		r.Fatalf("thorough: %v", err)
		return
	}
	// (a) 386
	if ctx.GOARCH == "" {
		scratch, err := os.MkdirTemp("", "verif386")
		if err == nil {
			defer os.RemoveAll(scratch)
			copyFile(filepath.Join(root, "known_findings.json"), filepath.Join(scratch, "known_findings.json"))
			cmd := exec.Command(exe, "-property", prop, "-tier", "quick", "-repo", repo, "-root", scratch, "-goarch", "386")
			cmd.Env = append(os.Environ(), "GOARCH=386")
			out, _ := cmd.CombinedOutput()
			viol := 0
			for _, ln := range strings.Split(string(out), "\n") {
				if strings.HasPrefix(ln, "FINDING") || strings.HasPrefix(ln, "UNDECIDED") {
					viol++
					key := ln
					if i := strings.Index(ln, "key="); i >= 0 {
						key = strings.Fields(ln[i+4:])[0]
					}
					r.Ob("goarch-386", key, "-", false, "on a 32-bit target: "+ln)
				}
			}
			r.Ob("goarch-386", "rules re-run with GOARCH=386", "-", strings.Contains(string(out), "summary property="+prop), fmt.Sprintf("the 386 run did not complete: %s", lastLine(string(out))))
			r.Count("goarch386_new_findings", viol)
		}
	}
	// (b) grammar regeneration
	grammars := map[string][]string{
		"C06": {"parser"}, "C14": {"parser"}, "C13": {"xpath"}, "C16": {"xpath"}, "C01": {"parser"},
	}
	if dirs, ok := grammars[prop]; ok {
		for _, d := range dirs {
			thoroughGoyacc(r, repo, root, d)
		}
	}
	// (c) self-test on seeded defects
	thoroughSeeded(prop, r, exe, repo, root)
}

func lastLine(s string) string {
	ls := strings.Split(strings.TrimSpace(s), "\n")
	if len(ls) == 0 {
		return ""
	}
	return ls[len(ls)-1]
}

func copyFile(from, to string) {
	if b, err := os.ReadFile(from); err == nil {
		os.WriteFile(to, b, 0o644)
	}
}

func thoroughGoyacc(r *core.Report, repo, root, dir string) {
	tmp, err := os.MkdirTemp("", "verifyacc")
	if err != nil {
		r.Fatalf("goyacc: %v", err)
		return
	}
	defer os.RemoveAll(tmp)
	bin := filepath.Join(tmp, "goyacc")
	build := exec.Command("go", "build", "-o", bin, "golang.org/x/tools/cmd/goyacc")
	build.Dir = filepath.Join(root, "checker")
	build.Env = core.Env("")
	if out, err := build.CombinedOutput(); err != nil {
		r.Fatalf("cannot build goyacc from the module cache: %v: %s", err, lastLine(string(out)))
		return
	}
	copyFile(filepath.Join(repo, dir, "parser.y"), filepath.Join(tmp, "parser.y"))
	gen := exec.Command(bin, "-o", "parser.go", "parser.y")
	gen.Dir = tmp
	if out, err := gen.CombinedOutput(); err != nil {
		r.Ob("goyacc-regenerates", dir+"/parser.y", dir+"/parser.y", false, "goyacc fails on the grammar: "+lastLine(string(out)))
		return
	}
	want, _ := os.ReadFile(filepath.Join(tmp, "parser.go"))
	got, _ := os.ReadFile(filepath.Join(repo, dir, "parser.go"))
	r.Ob("goyacc-regenerates", dir+"/parser.go", dir+"/parser.go", bytes.Equal(want, got),
		"parser.go is not what goyacc generates from parser.y: the grammar-level rules would speak about a parser that is not the one compiled")
}

type seededMeta struct {
	Property   string   `json:"property"`
	DetectedBy []string `json:"detected_by"`
	Rules      []string `json:"rules"`
	Base       string   `json:"base_commit"`
}

func thoroughSeeded(prop string, r *core.Report, exe, repo, root string) {
	dirs, _ := filepath.Glob(filepath.Join(root, "seeded", "*"))
	sort.Strings(dirs)
	n, applied := 0, 0
	for _, d := range dirs {
		b, err := os.ReadFile(filepath.Join(d, "meta.json"))
		if err != nil {
			continue
		}
		var m seededMeta
		if json.Unmarshal(b, &m) != nil {
			continue
		}
		detects := false
		for _, p := range m.DetectedBy {
			if p == prop {
				detects = true
			}
		}
		if !detects {
			continue
		}
		n++
		name := filepath.Base(d)
		wt, err := os.MkdirTemp("", "verifseed")
		if err != nil {
			continue
		}
		os.Remove(wt)
		scratch, _ := os.MkdirTemp("", "verifseedroot")
		func() {
			defer os.RemoveAll(scratch)
			defer func() {
				exec.Command("git", "-C", repo, "worktree", "remove", "--force", wt).Run()
				os.RemoveAll(wt)
			}()
			// the current working tree state of repo, as a scratch copy: worktree of HEAD plus uncommitted diff
			if out, err := exec.Command("git", "-C", repo, "worktree", "add", "-q", "--detach", wt, "HEAD").CombinedOutput(); err != nil {
				r.Infof("seeded %s: cannot create scratch worktree: %s", name, lastLine(string(out)))
				return
			}
			if diff, _ := exec.Command("git", "-C", repo, "diff", "HEAD").Output(); len(diff) > 0 {
				ap := exec.Command("git", "-C", wt, "apply")
				ap.Stdin = bytes.NewReader(diff)
				ap.Run()
			}
			if out, err := exec.Command("git", "-C", wt, "apply", filepath.Join(d, "patch.diff")).CombinedOutput(); err != nil {
				r.Infof("seeded %s: patch no longer applies to the current tree (skipped): %s", name, lastLine(string(out)))
				return
			}
			applied++
			copyFile(filepath.Join(root, "known_findings.json"), filepath.Join(scratch, "known_findings.json"))
			out, _ := exec.Command(exe, "-property", prop, "-tier", "quick", "-repo", wt, "-root", scratch).CombinedOutput()
			fired := strings.Contains(string(out), "VIOLATION property="+prop)
			r.Ob("self-test", "seeded/"+name, "seeded/"+name+"/patch.diff", fired,
				"the check no longer reports the seeded defect it was recorded to catch")
		}()
	}
	r.Count("seeded_defects_for_property", n)
	r.Count("seeded_defects_applied", applied)
}
