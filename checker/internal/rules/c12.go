package rules

import (
	"fmt"
	"go/token"
	"go/types"
	"strings"

	"golang.org/x/tools/go/ssa"

	"verif/checker/internal/core"
)

// ---------------------------------------------------------------------------
// C12 — every node told an edit begins is told it ended, and node errors surface.
// ---------------------------------------------------------------------------

// the functions of the edit path whose error discipline is decided.
var editPathFuncs = []string{
	"node.editor.edit", "node.editor.enter", "node.editor.leaf", "node.editor.node", "node.editor.list",
	"node.editor.clearOnDifferentChoiceCase", "node.editor.clearChoiceCase",
	"node.Selection.set", "node.Selection.get", "node.Selection.selekt", "node.Selection.selectListItem",
	"node.Selection.selectVisibleListItem", "node.Selection.Delete", "node.Selection.beginEdit", "node.Selection.endEdit",
	"node.Selection.ReplaceFrom", "node.Selection.ClearField", "node.Selection.Set", "node.Selection.SetValue",
	"node.Selection.findSlice", "node.Selection.Find",
}

func C12(ctx *core.Ctx, r *core.Report) {
	r.Explanation = "Pairing and error discipline of the edit path, decided on all paths of the named functions: every caller of Selection.beginEdit registers, immediately after the success edge, a deferred endEdit with the same request shape and bubble flag; endEdit's ancestor loop has no exit that depends on a callback's error and beginEdit's failure exit notifies EndEdit to the nodes already begun; Node.BeginEdit/EndEdit are invoked only from those two functions and bubble/root are true only at edit roots; every error returned by a callee on the edit path is tested before the next call and flows into the function's own return (wrapped with %w when formatted). Not decided: the exact callback sequence per scenario, behaviour of third-party nodes."
	nodeI := ctx.Named("node", "Node")
	begin := ctx.Method("node", "Selection", "beginEdit")
	end := ctx.Method("node", "Selection", "endEdit")
	if nodeI == nil || begin == nil || end == nil {
		r.Fatalf("anchors node.Node / Selection.beginEdit / Selection.endEdit not found")
		return
	}
	c12Pairing(ctx, r, begin, end)
	c12Loops(ctx, r, nodeI, begin, end)
	c12WhoMayCall(ctx, r, nodeI, begin, end)
	c12BubbleRoots(ctx, r, begin, end)
	c12ErrorsSurface(ctx, r)
	c12WrapVerb(ctx, r)
	c12SplitDropsParent(ctx, r)
	c12EndEditUnconditional(ctx, r)
	errorTestedBeforeNextCall(ctx, r)
	postConstraintsAlwaysRun(ctx, r)
	c12ClearStopsAtFirstFailure(ctx, r)
	c15DeferredErrorIsTheResult(ctx, r)
}

// c12Pairing: end follows begin on all exits.
func c12Pairing(ctx *core.Ctx, r *core.Report, begin, end *ssa.Function) {
	n := 0
	for _, f := range ctx.RepoFuncs() {
		if core.FnPkgPath(f) != core.Full("node") {
			continue
		}
		for _, bc := range callsStatic(f, begin, false) {
			n++
			key := core.FnName(f)
			pos := ctx.Pos(bc.Pos())
			// (a) a defer of a closure that calls endEdit
			var theDefer *ssa.Defer
			var mc *ssa.MakeClosure
			var endCall ssa.CallInstruction
			core.Instrs(f, func(_ *ssa.BasicBlock, in ssa.Instruction) {
				d, ok := in.(*ssa.Defer)
				if !ok {
					return
				}
				m, ok := d.Call.Value.(*ssa.MakeClosure)
				if !ok {
					return
				}
				clo := m.Fn.(*ssa.Function)
				if ecs := callsStatic(clo, end, false); len(ecs) > 0 {
					theDefer, mc, endCall = d, m, ecs[0]
				}
			})
			if theDefer == nil {
				r.Ob("end-follows-begin", key+"/defer-endEdit", pos, false, "beginEdit is called but no deferred closure calls endEdit: an early return or a panic leaves the node without its end notification")
				continue
			}
			r.Ob("end-follows-begin", key+"/defer-endEdit", pos, true, "")
			// (b) begin dominates the defer, and the defer sits on begin's success edge with no call in between
			okDom := instrDominates(bc, theDefer)
			between := ""
			if okDom {
				errv := errResult(bc)
				onSuccess := false
				for _, pc := range core.PathConds(theDefer.Block()) {
					if dependsOn(pc.V, errv, 0) {
						onSuccess = true
					}
				}
				if theDefer.Block() == bc.Block() {
					onSuccess = false // defer registered before the error test
				}
				if !onSuccess {
					between = "the defer is not on the success edge of beginEdit's error test"
				}
				for _, in := range theDefer.Block().Instrs {
					if in == ssa.Instruction(theDefer) {
						break
					}
					if c, ok := in.(ssa.CallInstruction); ok {
						if _, isBuiltin := c.Common().Value.(*ssa.Builtin); !isBuiltin {
							between = "a call (" + core.CalleeName(c) + ") sits between beginEdit's success and the defer of endEdit: if it fails or panics the end notification is lost"
						}
					}
				}
			}
			r.Ob("end-follows-begin", key+"/defer-immediately-after-begin", ctx.Pos(theDefer.Pos()), okDom && between == "", between)
			// (c) same request shape and bubble flag
			bArgs := bc.Common().Args // recv, request, bubble
			eArgs := endCall.Common().Args
			var diffs []string
			if len(bArgs) == 3 && len(eArgs) == 3 {
				if !sameCaptured(bArgs[2], eArgs[2], mc) {
					diffs = append(diffs, "bubble flag differs")
				}
				if !sameCaptured(bArgs[0], eArgs[0], mc) {
					diffs = append(diffs, "endEdit is sent to a different selection than beginEdit")
				}
				bl, bst := structLiteralOf(bArgs[1])
				el, est := structLiteralOf(eArgs[1])
				if bl == nil || el == nil {
					diffs = append(diffs, "request literals not resolvable")
				} else {
					bf, efld := fieldStores(bl, bst), fieldStores(el, est)
					seen := map[string]bool{}
					for _, k := range append(sortedKeys(bf), sortedKeys(efld)...) {
						if seen[k] {
							continue
						}
						seen[k] = true
						x, okx := bf[k]
						y, oky := efld[k]
						if !okx || !oky || !sameCaptured(x, y, mc) {
							diffs = append(diffs, "request field "+k+" differs between beginEdit and endEdit")
						}
					}
				}
			} else {
				diffs = append(diffs, "unexpected arity")
			}
			r.Ob("end-follows-begin", key+"/same-request", ctx.Pos(endCall.Pos()), len(diffs) == 0, strings.Join(diffs, "; "))
		}
	}
	r.Floor("end-follows-begin(callers of beginEdit)", n, 2)
}

// c12Loops: the bubbling loops.
func c12Loops(ctx *core.Ctx, r *core.Report, nodeI *types.Named, begin, end *ssa.Function) {
	// endEdit: no loop exit depends on the callback error
	ecs := invokesOf(end, false, nodeI, "EndEdit")
	if len(ecs) == 0 {
		r.Fatalf("Selection.endEdit does not invoke Node.EndEdit")
	}
	for _, ec := range ecs {
		loop := loopBlocks(ec.Block())
		ok, msg := true, ""
		if loop == nil {
			ok, msg = false, "EndEdit is not called in a loop over the ancestors"
		} else {
			errv := errResult(ec)
			for b := range loop {
				ifi, isIf := b.Instrs[len(b.Instrs)-1].(*ssa.If)
				if !isIf {
					continue
				}
				for _, s := range b.Succs {
					if !loop[s] && errv != nil && dependsOn(ifi.Cond, errv, 0) {
						ok, msg = false, "the ancestor loop is left when a node's EndEdit fails: the remaining ancestors (and the triggers) are never told the edit ended"
					}
				}
			}
		}
		r.Ob("end-reaches-everyone", "node.Selection.endEdit/loop", ctx.Pos(ec.Pos()), ok, msg)
	}
	// triggers' endEdit is reached on every path that leaves the loop
	if tt := ctx.Method("node", "TriggerTable", "endEdit"); tt != nil {
		tcs := callsStatic(end, tt, false)
		ok := len(tcs) > 0
		msg := ""
		if ok {
			for _, ret := range core.Returns(end) {
				if !tcs[0].Block().Dominates(ret.Block()) {
					ok, msg = false, "a return of endEdit bypasses TriggerTable.endEdit"
				}
			}
		} else {
			msg = "endEdit no longer notifies the trigger table"
		}
		r.Ob("end-reaches-everyone", "node.Selection.endEdit/triggers", ctx.Pos(end.Pos()), ok, msg)
	}
	// beginEdit: the failure exit unwinds
	bcs := invokesOf(begin, false, nodeI, "BeginEdit")
	if len(bcs) == 0 {
		r.Fatalf("Selection.beginEdit does not invoke Node.BeginEdit")
	}
	for _, bc := range bcs {
		errv := errResult(bc)
		unwinds := false
		for _, ec := range invokesOf(begin, false, nodeI, "EndEdit") {
			// the EndEdit call must be on the error edge of this BeginEdit
			for _, pc := range core.PathConds(ec.Block()) {
				if errv != nil && dependsOn(pc.V, errv, 0) {
					unwinds = true
				}
			}
			if l := loopBlocks(ec.Block()); l != nil {
				for b := range l {
					for _, pc := range core.PathConds(b) {
						if errv != nil && dependsOn(pc.V, errv, 0) {
							unwinds = true
						}
					}
				}
			}
		}
		// every return that can carry this BeginEdit's error lies behind the unwinding
		if unwinds {
			ecs := invokesOf(begin, false, nodeI, "EndEdit")
			for _, ret := range core.Returns(begin) {
				ops := core.RetOperands(ret)
				if errv == nil || !dependsOn(ops[0], errv, 0) {
					continue
				}
				behind := false
				for _, ec := range ecs {
					for lb := range loopBlocks(ec.Block()) {
						if lb.Dominates(ret.Block()) {
							behind = true
						}
					}
				}
				if !behind {
					unwinds = false
				}
			}
		}
		r.Ob("begin-unwinds", "node.Selection.beginEdit/failure-exit", ctx.Pos(bc.Pos()), unwinds,
			"when an ancestor's BeginEdit fails, the nodes already told the edit begins are not told it ended (the caller does not call endEdit for a failed begin)")
	}
}

// c12WhoMayCall: Node.BeginEdit / EndEdit are invoked in package node only by
// Selection.beginEdit / endEdit; wrappers in nodeutil only delegate to a base.
func c12WhoMayCall(ctx *core.Ctx, r *core.Report, nodeI *types.Named, begin, end *ssa.Function) {
	n := 0
	for _, f := range ctx.RepoFuncs() {
		p := core.FnPkgPath(f)
		if p != core.Full("node") {
			continue
		}
		for _, m := range []string{"BeginEdit", "EndEdit"} {
			for _, c := range invokesOf(f, false, nodeI, m) {
				n++
				ok := f == begin || f == end
				// nodes of package node that wrap another node may delegate (ErrorNode etc. do not call)
				if !ok && f.Signature.Recv() != nil && f.Name() == m {
					ok = true
				}
				r.Ob("who-may-notify", core.FnName(f)+"/"+m, ctx.Pos(c.Pos()), ok,
					"Node."+m+" is invoked outside Selection.beginEdit/endEdit: some node is told about an edit outside the begin/end protocol")
			}
		}
	}
	r.Floor("who-may-notify", n, 3)
}

// c12BubbleRoots: bubble and root are true only at edit roots.
func c12BubbleRoots(ctx *core.Ctx, r *core.Report, begin, end *ssa.Function) {
	enter := ctx.Method("node", "editor", "enter")
	edit := ctx.Method("node", "editor", "edit")
	del := ctx.Method("node", "Selection", "Delete")
	if enter == nil || edit == nil || del == nil {
		r.Fatalf("anchors editor.enter / editor.edit / Selection.Delete not found")
		return
	}
	n := 0
	for _, f := range ctx.RepoFuncs() {
		if core.FnPkgPath(f) != core.Full("node") {
			continue
		}
		for _, c := range callsStatic(f, enter, true) {
			n++
			args := c.Common().Args // recv, from, to, new, strategy, root, bubble
			if len(args) != 7 {
				r.Fatalf("editor.enter: unexpected arity %d", len(args))
				continue
			}
			root, okr := core.ConstInt(boolToInt(args[5]))
			bub, okb := core.ConstInt(boolToInt(args[6]))
			want := int64(0)
			if f == edit {
				want = 1
			}
			ok := okr && okb && root == want && bub == want
			r.Ob("bubble-only-at-root", core.FnName(f)+"→editor.enter", ctx.Pos(c.Pos()), ok,
				fmt.Sprintf("enter must be called with root=bubble=%v here (true only from editor.edit): otherwise ancestors are notified for every nested container, or never", want == 1))
		}
	}
	r.Floor("bubble-only-at-root", n, 3)
	// Delete is an edit root: bubble=true on both calls
	for _, pair := range []struct {
		fn   *ssa.Function
		name string
	}{{begin, "beginEdit"}, {end, "endEdit"}} {
		cs := callsStatic(del, pair.fn, true)
		ok := len(cs) > 0
		for _, c := range cs {
			a := c.Common().Args
			if v, isC := core.ConstInt(boolToInt(a[len(a)-1])); !isC || v != 1 {
				ok = false
			}
		}
		r.Ob("bubble-only-at-root", "node.Selection.Delete→"+pair.name, ctx.Pos(del.Pos()), ok, "Delete is an edit root: "+pair.name+" must bubble to the ancestors")
	}
}

// boolToInt maps a boolean constant to 0/1 so that ConstInt can read it.
func boolToInt(v ssa.Value) ssa.Value {
	c, ok := v.(*ssa.Const)
	if !ok || c.Value == nil {
		return v
	}
	if c.Value.String() == "true" {
		return ssa.NewConst(constantInt(1), types.Typ[types.Int])
	}
	if c.Value.String() == "false" {
		return ssa.NewConst(constantInt(0), types.Typ[types.Int])
	}
	return v
}

// c12ErrorsSurface: error results on the edit path are tested before the next
// call and flow to the function's return.
func c12ErrorsSurface(ctx *core.Ctx, r *core.Report) {
	n := 0
	for _, spec := range editPathFuncs {
		f := ctx.Lookup(spec)
		if f == nil {
			r.Fatalf("edit-path function %s not found", spec)
			continue
		}
		for _, g := range withClosures(f) {
			for _, c := range core.CallSites(g) {
				if _, isDefer := c.(*ssa.Defer); isDefer {
					continue
				}
				res := c.Common().Signature().Results()
				if res.Len() == 0 || !core.IsErrorType(res.At(res.Len()-1).Type()) {
					continue
				}
				if cal := core.StaticCallee(c); cal != nil && core.FnName(cal) == "fmt.Errorf" {
					continue
				}
				n++
				callee := core.CalleeName(c)
				key := core.FnName(g) + "/" + callee
				pos := ctx.Pos(c.Pos())
				ev := errResult(c)
				if reason, ok := c12ErrTriage[key]; ok {
					r.Ob("errors-surface", key, pos, true, "triaged: "+reason)
					continue
				}
				if ev == nil || len(*ev.Referrers()) == 0 {
					r.Ob("errors-surface", key, pos, false, "the error of "+callee+" is dropped: a failing node callback does not fail the API call")
					continue
				}
				if !flowsToReturn(ev, 0, map[ssa.Value]bool{}) {
					r.Ob("errors-surface", key, pos, false, "the error of "+callee+" is tested but never returned or wrapped: the API call succeeds (or fails with another error) although a node callback failed")
					continue
				}
				// tested before the next call
				late := nextCallBeforeTest(c, ev)
				r.Ob("errors-surface", key, pos, late == "", late)
			}
		}
	}
	r.Floor("errors-surface", n, 50)
}

// nextCallBeforeTest: after call c, is another (non-builtin) call executed
// before a branch that depends on c's error?
func nextCallBeforeTest(c ssa.CallInstruction, ev ssa.Value) string {
	b := c.Block()
	started := false
	for steps := 0; steps < 4 && b != nil; steps++ {
		for _, in := range b.Instrs {
			if !started {
				if in == ssa.Instruction(c) {
					started = true
				}
				continue
			}
			switch x := in.(type) {
			case *ssa.If:
				if dependsOn(x.Cond, ev, 0) {
					return ""
				}
				return "" // a branch on something else first (e.g. `child == nil || err != nil`): accepted, the error is still returned
			case *ssa.Return:
				return ""
			case ssa.CallInstruction:
				if _, isBuiltin := x.Common().Value.(*ssa.Builtin); isBuiltin {
					continue
				}
				if _, isDefer := x.(*ssa.Defer); isDefer {
					continue
				}
				return "the next call (" + core.CalleeName(x) + ") is issued before this call's error is tested: a write can follow a failed callback"
			}
		}
		if len(b.Succs) == 1 {
			b = b.Succs[0]
		} else {
			b = nil
		}
	}
	return ""
}

// errors on the edit path that are deliberately not propagated, each with its reason.
var c12ErrTriage = map[string]string{
	"node.Selection.beginEdit/iface:node.Node.EndEdit":   "unwinding after a failed BeginEdit: the begin error is what the API call returns; an additional EndEdit error of the nodes being unwound would mask it",
	"node.Selection.beginEdit/node.TriggerTable.endEdit": "unwinding after a failed BeginEdit: the begin error is what the API call returns",
}

// c12WrapVerb: errors formatted into fmt.Errorf on the edit path use %w.
func c12WrapVerb(ctx *core.Ctx, r *core.Report) {
	n := 0
	for _, spec := range editPathFuncs {
		f := ctx.Lookup(spec)
		if f == nil {
			continue
		}
		for _, g := range withClosures(f) {
			for _, ef := range errorfCalls(g) {
				vs := verbs(ef.Format)
				for i, a := range ef.Args {
					if a == nil || i >= len(vs) {
						continue
					}
					src := core.Strip(a)
					if !core.IsErrorType(src.Type()) {
						// package-level sentinel loaded from a global
						continue
					}
					n++
					r.Ob("wrap-with-w", fmt.Sprintf("%s/Errorf(%q)/arg%d", core.FnName(g), shorten(ef.Format, 40), i), ctx.Pos(ef.Call.Pos()), vs[i] == "w",
						fmt.Sprintf("an error value is formatted with %%%s instead of %%w: callers cannot match it with errors.Is", vs[i]))
				}
			}
		}
	}
	r.Floor("wrap-with-w", n, 8)
	// the same for every other place in package node where an error that may come from a
	// node callback is put into a new error (constraint checks evaluate expressions on nodes)
	seen := map[*ssa.Function]bool{}
	for _, spec := range editPathFuncs {
		if f := ctx.Lookup(spec); f != nil {
			for _, g := range withClosures(f) {
				seen[g] = true
			}
		}
	}
	m := 0
	for _, g := range scopeFuncs(ctx, "node") {
		if seen[g] {
			continue
		}
		for _, ef := range errorfCalls(g) {
			vs := verbs(ef.Format)
			// an error that wraps one of the defined error identities (%w on fc.BadRequestError …)
			// and quotes a parser's message as text is how syntax errors are reported
			hasW := false
			for _, v := range vs {
				if v == "w" {
					hasW = true
				}
			}
			if hasW {
				continue
			}
			for i, a := range ef.Args {
				if a == nil || i >= len(vs) {
					continue
				}
				src := core.Strip(a)
				if !core.IsErrorType(src.Type()) {
					continue
				}
				if _, isGlobalLoad := src.(*ssa.UnOp); isGlobalLoad {
					if _, isG := src.(*ssa.UnOp).X.(*ssa.Global); isG {
						continue
					}
				}
				m++
				r.Ob("wrap-with-w", fmt.Sprintf("%s/Errorf(%q)/arg%d", core.FnName(g), shorten(ef.Format, 40), i), ctx.Pos(ef.Call.Pos()), vs[i] == "w",
					fmt.Sprintf("an error value is formatted with %%%s instead of %%w: when it came from a node callback the API's error no longer wraps the node's error", vs[i]))
			}
		}
	}
	r.Count("instances:wrap-with-w(other node functions)", m)
}

// c12ClearStopsAtFirstFailure: "no write is issued after the failing call" — the
// loop that clears the members of the case being left (editor.clearChoiceCase)
// returns at the first member whose clearing fails; it does not remember the
// error and go on clearing (which would leave the old case partly cleared AND
// report a failure).
func c12ClearStopsAtFirstFailure(ctx *core.Ctx, r *core.Report) {
	f := ctx.Method("node", "editor", "clearChoiceCase")
	if f == nil {
		r.Fatalf("anchor node.editor.clearChoiceCase not found")
		return
	}
	n := 0
	for _, c := range core.CallSites(f) {
		if _, isDefer := c.(*ssa.Defer); isDefer {
			continue
		}
		res := c.Common().Signature().Results()
		if res.Len() == 0 || !core.IsErrorType(res.At(res.Len()-1).Type()) || loopBlocks(c.Block()) == nil {
			continue
		}
		ev := errResult(c)
		if ev == nil {
			continue
		}
		n++
		// the non-nil side of the test of ev reaches a return without passing the loop header again
		ok := false
		for _, ref := range *ev.Referrers() {
			bo, isBo := ref.(*ssa.BinOp)
			if !isBo || (!core.IsNilConst(bo.Y) && !core.IsNilConst(bo.X)) {
				continue
			}
			for _, r2 := range *bo.Referrers() {
				ifi, isIf := r2.(*ssa.If)
				if !isIf {
					continue
				}
				failSucc := 0
				if bo.Op == token.EQL {
					failSucc = 1
				}
				fb := ifi.Block().Succs[failSucc]
				if len(fb.Instrs) > 0 {
					if _, isRet := fb.Instrs[len(fb.Instrs)-1].(*ssa.Return); isRet {
						ok = true
					}
				}
			}
		}
		r.Ob("errors-surface", fmt.Sprintf("node.editor.clearChoiceCase/%s/stops-at-failure", core.CalleeName(c)), ctx.Pos(c.Pos()), ok,
			"when clearing one member of the old case fails the loop goes on to clear the others (the error is only remembered): writes are issued after the failing call and the target is left with a partly cleared case")
	}
	r.Floor("errors-surface(clearChoiceCase loop)", n, 2)
}

func shorten(s string, n int) string {
	if len(s) > n {
		return s[:n] + "…"
	}
	return s
}
