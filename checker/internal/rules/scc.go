package rules

import (
	"sort"
	"strings"

	"golang.org/x/tools/go/callgraph"
	"golang.org/x/tools/go/ssa"

	"verif/checker/internal/core"
)

// recursionCycles returns the non-trivial strongly connected components of
// the call graph restricted to the functions accepted by keep and reachable
// from roots. Each cycle is a sorted list of function names.
func recursionCycles(ctx *core.Ctx, roots []*ssa.Function, keep func(*ssa.Function) bool) [][]string {
	g := ctx.CG()
	reach := ctx.Reachable(g, roots, nil)
	var nodes []*ssa.Function
	for f := range reach.Set {
		if keep(f) {
			nodes = append(nodes, f)
		}
	}
	sort.Slice(nodes, func(i, j int) bool { return core.FnName(nodes[i]) < core.FnName(nodes[j]) })
	index := map[*ssa.Function]int{}
	low := map[*ssa.Function]int{}
	on := map[*ssa.Function]bool{}
	var stack []*ssa.Function
	idx := 0
	var out [][]string
	succs := func(f *ssa.Function) []*ssa.Function {
		n := g.Nodes[f]
		if n == nil {
			return nil
		}
		seen := map[*ssa.Function]bool{}
		var s []*ssa.Function
		for _, e := range n.Out {
			c := e.Callee.Func
			if reach.Set[c] && keep(c) && !seen[c] {
				seen[c] = true
				s = append(s, c)
			}
		}
		sort.Slice(s, func(i, j int) bool { return core.FnName(s[i]) < core.FnName(s[j]) })
		return s
	}
	var strong func(v *ssa.Function)
	strong = func(v *ssa.Function) {
		idx++
		index[v], low[v] = idx, idx
		stack = append(stack, v)
		on[v] = true
		for _, w := range succs(v) {
			if index[w] == 0 {
				strong(w)
				if low[w] < low[v] {
					low[v] = low[w]
				}
			} else if on[w] && index[w] < low[v] {
				low[v] = index[w]
			}
		}
		if low[v] == index[v] {
			var comp []*ssa.Function
			for {
				w := stack[len(stack)-1]
				stack = stack[:len(stack)-1]
				on[w] = false
				comp = append(comp, w)
				if w == v {
					break
				}
			}
			self := false
			if len(comp) == 1 {
				for _, w := range succs(v) {
					if w == v {
						self = true
					}
				}
			}
			if len(comp) > 1 || self {
				var names []string
				for _, f := range comp {
					names = append(names, core.FnName(f))
				}
				sort.Strings(names)
				out = append(out, names)
			}
		}
	}
	for _, f := range nodes {
		if index[f] == 0 {
			strong(f)
		}
	}
	sort.Slice(out, func(i, j int) bool { return strings.Join(out[i], ",") < strings.Join(out[j], ",") })
	return out
}

var _ = callgraph.GraphVisitEdges
