package rules

import (
	"fmt"
	"go/token"
	"go/types"
	"strconv"
	"strings"

	"golang.org/x/tools/go/ssa"

	"verif/checker/internal/core"
)

// ---------------------------------------------------------------------------
// C09 — at most one case of a choice ever holds data.
// ---------------------------------------------------------------------------

// reachableAvoiding: is `to` reachable from `from` in the CFG without entering `avoid`?
func reachableAvoiding(from, to, avoid *ssa.BasicBlock) bool {
	if from == avoid {
		return false
	}
	seen := map[*ssa.BasicBlock]bool{from: true}
	q := []*ssa.BasicBlock{from}
	for len(q) > 0 {
		b := q[0]
		q = q[1:]
		if b == to {
			return true
		}
		for _, s := range b.Succs {
			if s != avoid && !seen[s] {
				seen[s] = true
				q = append(q, s)
			}
		}
	}
	return false
}

func C09(ctx *core.Ctx, r *core.Report) {
	r.Explanation = "Shape of the choice handling, decided on all paths: in upsert mode the editor asks the target for its active case and clears it before the write (leaf) or before the create (container/list), on the target selection and with the node being written; clearing dispatches leaf-like nodes to ClearField and everything else to Find+Delete through the case iterator (which descends nested choices); a read descends into a choice only through the case returned by Node.Choose and never yields a choice or another case's nodes; every Choose implementation iterates the cases in a deterministic order. The walk over the old case's members returns early only with a value known to be a failure; every Choose implementation decides on presence, never on emptiness of the stored value. Not decided: only the direct parent case is examined (a leaf under case → choice → case clears only the inner choice), and everything about edit histories."
	clear := ctx.Method("node", "editor", "clearOnDifferentChoiceCase")
	clearCase := ctx.Method("node", "editor", "clearChoiceCase")
	leaf := ctx.Method("node", "editor", "leaf")
	nodeFn := ctx.Method("node", "editor", "node")
	set := ctx.Method("node", "Selection", "set")
	selekt := ctx.Method("node", "Selection", "selekt")
	if clear == nil || clearCase == nil || leaf == nil || nodeFn == nil || set == nil || selekt == nil {
		r.Fatalf("anchors editor.clearOnDifferentChoiceCase/clearChoiceCase/leaf/node, Selection.set/selekt not found")
		return
	}
	consts := strategyConsts(ctx, r)
	var upsertC int64 = -1
	for v, n := range consts {
		if n == "editUpsert" {
			upsertC = v
		}
	}

	// 1a. leaf: clear precedes set on every upsert path
	{
		strat := paramNamed(leaf, "strategy")
		to := paramNamed(leaf, "to")
		m := paramNamed(leaf, "m")
		cl := callsStatic(leaf, clear, false)
		st := callsStatic(leaf, set, false)
		ok, msg := len(cl) == 1 && len(st) == 1, ""
		if !ok {
			msg = fmt.Sprintf("expected one clearOnDifferentChoiceCase and one set call in editor.leaf, found %d/%d", len(cl), len(st))
		} else {
			c, s := cl[0], st[0]
			switch {
			case !inStrategyCase(c.Block(), strat, upsertC):
				ok, msg = false, "the clear is not conditioned on strategy == editUpsert"
			case !reachableAvoiding(c.Block(), s.Block(), nil):
				ok, msg = false, "the write is not reachable after the clear"
			default:
				// every path from the upsert test's true edge to the write passes the clear
				var ifBlock *ssa.BasicBlock
				for _, pc := range core.PathConds(c.Block()) {
					if bo, isBo := pc.V.(*ssa.BinOp); isBo && (core.IsParam(bo.X, strat) || core.IsParam(bo.Y, strat)) {
						ifBlock = pc.If.Block()
					}
				}
				if ifBlock == nil || reachableAvoiding(ifBlock.Succs[0], s.Block(), c.Block()) && ifBlock.Succs[0] != c.Block() {
					ok, msg = false, "a path from the upsert branch to the write bypasses the clear"
				}
				if instrDominates(s, c) {
					ok, msg = false, "the write happens before the clear"
				}
			}
			a := c.Common().Args // recv, existing, want
			if ok && !(len(a) == 3 && core.IsParam(a[1], to) && dependsOnParamLoose(a[2], m)) {
				ok, msg = false, "clearOnDifferentChoiceCase must be given the target selection and the leaf being written"
			}
		}
		r.Ob("clear-precedes-write", "node.editor.leaf", ctx.Pos(leaf.Pos()), ok, msg)
	}
	// 1b. node: in the upsert case, clear dominates the create
	{
		strat := paramNamed(nodeFn, "strategy")
		to := paramNamed(nodeFn, "to")
		m := paramNamed(nodeFn, "m")
		cl := callsStatic(nodeFn, clear, false)
		ok, msg := len(cl) == 1, ""
		if !ok {
			msg = fmt.Sprintf("expected one clearOnDifferentChoiceCase call in editor.node, found %d", len(cl))
		} else {
			c := cl[0]
			if !inStrategyCase(c.Block(), strat, upsertC) {
				ok, msg = false, "the clear is not inside the upsert case"
			}
			nCreate := 0
			for _, sc := range callsStatic(nodeFn, selekt, false) {
				if len(sc.Common().Args) > 0 && core.IsParam(sc.Common().Args[0], to) && inStrategyCase(sc.Block(), strat, upsertC) {
					nCreate++
					if !instrDominates(c, sc) {
						ok, msg = false, "the create in the upsert case is not dominated by the clear"
					}
				}
			}
			if nCreate == 0 {
				ok, msg = false, "no create call found in the upsert case"
			}
			a := c.Common().Args
			if ok && !(len(a) == 3 && core.IsParam(a[1], to) && dependsOnParamLoose(a[2], m)) {
				ok, msg = false, "clearOnDifferentChoiceCase must be given the target selection and the node being written"
			}
		}
		r.Ob("clear-precedes-write", "node.editor.node", ctx.Pos(nodeFn.Pos()), ok, msg)
	}

	// 1c. clearOnDifferentChoiceCase: asks the *existing* node, clears when the
	// active case differs from the wanted one
	{
		nodeI := ctx.Named("node", "Node")
		chs := invokesOf(clear, false, nodeI, "Choose")
		cc := callsStatic(clear, clearCase, false)
		ok, msg := len(chs) == 1 && len(cc) == 1, ""
		if !ok {
			msg = fmt.Sprintf("expected one Choose and one clearChoiceCase call, found %d/%d", len(chs), len(cc))
		} else {
			existing := paramNamed(clear, "existing")
			// receiver of Choose is existing.Node, first arg existing
			a := chs[0].Common().Args
			if !(len(a) == 2 && core.IsParam(a[0], existing)) {
				ok, msg = false, "Choose is not asked about the existing (target) selection"
			}
			// clearChoiceCase(existing, existingCase) where existingCase is Choose's result
			ca := cc[0].Common().Args
			if ok && !(len(ca) == 3 && core.IsParam(ca[1], existing) && dependsOn(ca[2], chs[0].Value(), 0)) {
				ok, msg = false, "clearChoiceCase must clear the case that Choose reported on the target"
			}
			// guarded by existingCase != wantCase && existingCase != nil
			if ok {
				nConds := 0
				for _, pc := range core.PathConds(cc[0].Block()) {
					if dependsOn(pc.V, chs[0].Value(), 0) {
						nConds++
					}
				}
				if nConds < 2 {
					ok, msg = false, "the clear is not guarded by `active case != wanted case` and `active case != nil`: it would clear the case being written or dereference nil"
				}
			}
		}
		r.Ob("clear-asks-target", "node.editor.clearOnDifferentChoiceCase", ctx.Pos(clear.Pos()), ok, msg)
	}

	// 2. clearing covers every child kind
	{
		clearField := ctx.Method("node", "Selection", "ClearField")
		del := ctx.Method("node", "Selection", "Delete")
		find := ctx.Method("node", "Selection", "Find")
		iter := ctx.Fn("node", "newChoiceCaseIterator")
		isLeaf := ctx.Fn("meta", "IsLeaf")
		cf := callsStatic(clearCase, clearField, false)
		dl := callsStatic(clearCase, del, false)
		fd := callsStatic(clearCase, find, false)
		it := callsStatic(clearCase, iter, false)
		ok, msg := len(cf) == 1 && len(dl) == 1 && len(fd) == 1 && len(it) == 1, ""
		if !ok {
			msg = fmt.Sprintf("clearChoiceCase must use the case iterator (%d), ClearField (%d), Find (%d) and Delete (%d) once each", len(it), len(cf), len(fd), len(dl))
		} else {
			leafBranch := func(b *ssa.BasicBlock) string {
				for _, pc := range core.PathConds(b) {
					if c, isCall := pc.V.(*ssa.Call); isCall && core.IsCallTo(c, isLeaf) {
						if pc.True {
							return "leaf"
						}
						return "nonleaf"
					}
				}
				return ""
			}
			if leafBranch(cf[0].Block()) != "leaf" {
				ok, msg = false, "ClearField is not on the IsLeaf branch"
			}
			if leafBranch(dl[0].Block()) != "nonleaf" {
				ok, msg = false, "Delete is not on the non-leaf branch: containers and lists of the old case are not removed"
			}
			if loopBlocks(cf[0].Block()) == nil || loopBlocks(dl[0].Block()) == nil {
				ok, msg = false, "clearing does not loop over all nodes of the case"
			}
		}
		r.Ob("clearing-covers-kinds", "node.editor.clearChoiceCase", ctx.Pos(clearCase.Pos()), ok, msg)
		// the walk over the old case's members ends early only with a failure
		if len(cf) == 1 {
			loop := loopBlocks(cf[0].Block())
			var header *ssa.BasicBlock
			for b := range loop {
				if header == nil || b.Dominates(header) {
					header = b
				}
			}
			nr := 0
			for _, ret := range core.Returns(clearCase) {
				inLoop := false
				for b := range loop {
					if b != header && b.Dominates(ret.Block()) {
						inLoop = true
					}
				}
				if !inLoop {
					continue
				}
				nr++
				ops := core.RetOperands(ret)
				okr, why := false, "returns from inside the walk over the old case's members"
				if len(ops) == 1 {
					if _, isCall := ops[0].(*ssa.Call); isCall {
						okr = true // a freshly made error
					}
					for _, pc := range core.PathConds(ret.Block()) {
						if b, isB := pc.V.(*ssa.BinOp); isB && b.Op == token.NEQ && pc.True && (b.X == ops[0] && core.IsNilConst(b.Y)) {
							okr = true
						}
					}
				}
				key := "node.editor.clearChoiceCase/return"
				if nr > 1 {
					key += "#" + strconv.Itoa(nr)
				}
				r.Ob("clearing-visits-every-member", key, ctx.Pos(ret.Pos()), okr,
					why+" with a value that is not known to be a failure: when it is nil the remaining members of the old case are left in place, so two cases of one choice hold data")
			}
			r.Floor("clearing-visits-every-member", nr, 2)
		}
	}

	// 3. reads descend only into the chosen case
	{
		la := ctx.Method("node", "containerMetaList", "lookAhead")
		iter := ctx.Fn("node", "newChoiceCaseIterator")
		nodeI := ctx.Named("node", "Node")
		if la == nil || iter == nil {
			r.Fatalf("anchors containerMetaList.lookAhead / newChoiceCaseIterator not found")
		} else {
			chs := invokesOf(la, false, nodeI, "Choose")
			its := callsStatic(la, iter, false)
			ok, msg := len(chs) == 1 && len(its) == 1, ""
			if !ok {
				msg = fmt.Sprintf("expected one Choose and one newChoiceCaseIterator call in lookAhead, found %d/%d", len(chs), len(its))
			} else {
				a := its[0].Common().Args
				if !(len(a) == 2 && dependsOn(a[1], chs[0].Value(), 0)) {
					ok, msg = false, "the case iterator is not built from the case that Node.Choose returned"
				}
			}
			// the store to self.next happens only for non-choice metas
			if ok {
				cmlT := ctx.Named("node", "containerMetaList")
				st := cmlT.Underlying().(*types.Struct)
				core.Instrs(la, func(b *ssa.BasicBlock, in ssa.Instruction) {
					s, isSt := in.(*ssa.Store)
					if !isSt {
						return
					}
					fa, isFa := s.Addr.(*ssa.FieldAddr)
					if !isFa || core.NamedOf(fa.X.Type()) != cmlT || st.Field(fa.Field).Name() != "next" {
						return
					}
					if core.IsNilConst(s.Val) {
						return
					}
					// must be on the false edge of the `m.(*meta.Choice)` comma-ok test
					onNonChoice := false
					for _, pc := range core.PathConds(b) {
						if ex, isEx := pc.V.(*ssa.Extract); isEx && ex.Index == 1 && !pc.True {
							if ta, isTa := ex.Tuple.(*ssa.TypeAssert); isTa && strings.HasSuffix(core.TypeName(ta.AssertedType), "meta.Choice") {
								onNonChoice = true
							}
						}
					}
					if !onNonChoice {
						ok, msg = false, "a meta is yielded as next child without passing the is-choice test: a choice (or all its cases' nodes) would be reported to readers"
					}
				})
			}
			r.Ob("reads-descend-chosen-case", "node.containerMetaList.lookAhead", ctx.Pos(la.Pos()), ok, msg)
		}
		// nobody in package node enumerates the cases of a choice
		n := 0
		for _, f := range ctx.RepoFuncs() {
			if core.FnPkgPath(f) != core.Full("node") {
				continue
			}
			for _, c := range core.CallSites(f) {
				if cal := core.StaticCallee(c); cal != nil {
					nme := core.FnName(cal)
					if nme == "meta.Choice.Cases" || nme == "meta.Choice.CaseIdents" {
						n++
						r.Ob("reads-descend-chosen-case", core.FnName(f)+"/"+nme, ctx.Pos(c.Pos()), false,
							"package node enumerates the cases of a choice itself instead of asking the node which case is active")
					}
				}
			}
		}
		r.Count("node_pkg_case_enumerations", n)
	}

	// 4. Choose implementations iterate deterministically
	c09ChooseSiblings(ctx, r)
	impliedCasePerNode(ctx, r)
	c09TeeReachesBothSides(ctx, r)
	c09MapDeleteBeforeDescend(ctx, r)
	c18HandlerFollowsContainer(ctx, r)
	c09PresenceLooksThroughNestedChoice(ctx, r)
	c09ClearClears(ctx, r)
	memoDebug(ctx, r)
	textCmpDebug(ctx, r)
	r.Count("instances:no-stale-verdicts(tables of data-derived answers)", noStaleVerdicts(ctx, r, append(scopeFuncs(ctx, "node"), scopeFuncs(ctx, "nodeutil")...), "node", "nodeutil"))
}

// dependsOnParamLoose: v is the parameter, a conversion of it, or an interface made from it.
func dependsOnParamLoose(v ssa.Value, p *ssa.Parameter) bool {
	if p == nil {
		return false
	}
	v = core.Strip(v)
	if core.IsParam(v, p) {
		return true
	}
	if ci, ok := v.(*ssa.ChangeInterface); ok {
		return dependsOnParamLoose(ci.X, p)
	}
	return false
}

// c09ChooseSiblings: every function stored in / implementing Choose that
// enumerates cases does so through CaseIdents() (sorted), not by ranging over
// the Cases() map.
func c09ChooseSiblings(ctx *core.Ctx, r *core.Report) {
	cases := ctx.Method("meta", "Choice", "Cases")
	if cases == nil {
		r.Fatalf("anchor meta.Choice.Cases not found")
		return
	}
	choiceT := ctx.Named("meta", "Choice")
	n := 0
	for _, f := range ctx.RepoFuncs() {
		p := core.FnPkgPath(f)
		if p != core.Full("nodeutil") && p != core.Full("node") {
			continue
		}
		// a Choose implementation: has a *meta.Choice parameter and returns (*meta.ChoiceCase, error)
		sig := f.Signature
		if sig.Results().Len() != 2 || !strings.HasSuffix(core.TypeName(sig.Results().At(0).Type()), "meta.ChoiceCase") {
			continue
		}
		hasChoice := false
		for i := 0; i < sig.Params().Len(); i++ {
			if core.NamedOf(sig.Params().At(i).Type()) == choiceT {
				hasChoice = true
			}
		}
		if !hasChoice {
			continue
		}
		if strings.HasPrefix(core.FnName(f), "nodeutil.schema") {
			continue // the schema browser picks a case by a fixed name, it does not search
		}
		n++
		// ranging over the result of Cases()?
		rangesMap := false
		core.Instrs(f, func(_ *ssa.BasicBlock, in ssa.Instruction) {
			rg, ok := in.(*ssa.Range)
			if !ok {
				return
			}
			if c, ok := rg.X.(*ssa.Call); ok && core.IsCallTo(c, cases) {
				rangesMap = true
			}
		})
		// the active case is the one that has data, whatever its values
		empt := ""
		for _, c := range core.CallSites(f) {
			if cal := core.StaticCallee(c); cal != nil {
				switch core.FnName(cal) {
				case "nodeutil.reflectIsEmpty", "reflect.Value.IsZero":
					empt = ctx.Pos(c.Pos())
				}
			}
		}
		r.Ob("choose-by-presence", core.FnName(f), ctx.Pos(f.Pos()), empt == "",
			"Choose decides on emptiness ("+empt+"), not presence: a case whose leaves hold false, 0 or \"\" is not seen as the active one, so writing another case does not clear it")
		r.Ob("choose-deterministic", core.FnName(f), ctx.Pos(f.Pos()), !rangesMap,
			"Choose ranges over the Cases() map and returns the first case with data: for data holding nodes of two cases the answer changes from run to run")
	}
	r.Floor("choose-deterministic", n, 4)
}

// impliedCasePerNode (C09, C01): RFC 7950 7.9.2 — a data node written directly
// in a choice (here: augmented into one) is a case of its own, named after the
// node. In resolver.expandAugment the case handed to addDataDefinition for such
// a node must be built by Builder.Case in that very loop iteration, from the
// identifier of the node being inserted; a case carried from one iteration to
// the next puts several shorthand nodes into one case, and they are no longer
// exclusive.
func impliedCasePerNode(ctx *core.Ctx, r *core.Report) {
	f := ctx.Method("meta", "resolver", "expandAugment")
	bc := ctx.Method("meta", "Builder", "Case")
	if f == nil || bc == nil {
		r.Fatalf("anchors meta.resolver.expandAugment / meta.Builder.Case not found")
		return
	}
	n := 0
	for _, c := range core.CallSites(f) {
		cal := core.StaticCallee(c)
		if cal == nil || cal.Name() != "addDataDefinition" {
			continue
		}
		args := c.Common().Args
		if len(args) < 2 {
			continue
		}
		parent, child := args[len(args)-2], args[len(args)-1]
		// only the calls whose parent is (on some path) a case built here
		builtHere := false
		var walk func(v ssa.Value, seen map[ssa.Value]bool) (direct bool)
		walk = func(v ssa.Value, seen map[ssa.Value]bool) bool {
			if seen[v] {
				return true
			}
			seen[v] = true
			switch x := v.(type) {
			case *ssa.MakeInterface:
				return walk(x.X, seen)
			case *ssa.ChangeInterface:
				return walk(x.X, seen)
			case *ssa.Call:
				if core.StaticCallee(x) == bc {
					builtHere = true
					return true
				}
				return true
			case *ssa.Phi:
				for _, e := range x.Edges {
					walk(e, seen)
				}
				return false
			case *ssa.UnOp:
				if al, ok := x.X.(*ssa.Alloc); ok {
					for _, ref := range *al.Referrers() {
						if st, ok := ref.(*ssa.Store); ok && st.Addr == ssa.Value(al) {
							walk(st.Val, seen)
						}
					}
					return false
				}
			}
			return true
		}
		direct := walk(parent, map[ssa.Value]bool{})
		if !builtHere {
			continue
		}
		n++
		ok, msg := direct, "the implied case is carried from one iteration to the next (or merged with another value): several nodes written directly in the choice end up in ONE case and are no longer exclusive"
		if ok {
			// named after the node being inserted
			var call *ssa.Call
			switch x := parent.(type) {
			case *ssa.Call:
				call = x
			case *ssa.MakeInterface:
				call, _ = x.X.(*ssa.Call)
			}
			if call != nil {
				ident := call.Common().Args[len(call.Common().Args)-1]
				ic, isCall := ident.(*ssa.Call)
				if !isCall || originOf(ic.Common().Value, 0) != originOf(child, 0) && !(len(ic.Common().Args) > 0 && originOf(ic.Common().Args[0], 0) == originOf(child, 0)) {
					ok, msg = false, "the implied case is not named after the node it is built for"
				}
			}
		}
		r.Ob("implied-case-per-node", "meta.resolver.expandAugment/addDataDefinition(implied case)", ctx.Pos(c.Pos()), ok, msg)
	}
	r.Floor("implied-case-per-node", n, 1)
}
