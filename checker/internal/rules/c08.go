package rules

import (
	"fmt"
	"go/token"
	"go/types"

	"golang.org/x/tools/go/ssa"

	"verif/checker/internal/core"
)

// ---------------------------------------------------------------------------
// C08 — Find reaches exactly the addressed node, and paths render back to it.
// ---------------------------------------------------------------------------

func C08(ctx *core.Ctx, r *core.Report) {
	r.Explanation = "Structural conditions of addressing, decided on all paths: what the path parser decodes (segment names and every key, with url.QueryUnescape) the renderers (Path.toBuffer, EncodeKey) encode with the inverse escaper, once per key; after the leading ../ steps Find parses what is left, against the schema node those steps lead to; an unknown name yields an error wrapping fc.NotFoundError and the shape errors wrap fc.BadRequestError; both requests issued per segment carry the navigation target; path segment equality compares the names. Every registered read filter lets navigation requests through (so a constrained Find reaches nodes the filter would hide from a read). Crash sites on user segments are decided under C13. Not decided: that the selection found is the addressed node, key conversion per type, module-qualified lookup semantics."
	c08Codec(ctx, r)
	c08Relative(ctx, r)
	c08ErrorIdentity(ctx, r)
	c08NavigationTarget(ctx, r)
	c08SegmentEquality(ctx, r)
	// Find walks with requests marked as navigation; every read filter lets those through
	c07NavigationExempt(ctx, r, registeredConstraints(ctx, r))
	c08CursorClimbs(ctx, r)
	c07TargetBeforeUse(ctx, r)
	c08KeyOrderFollowsKeyStatement(ctx, r)
	c08WhereNeedsBase(ctx, r)
	borrowFrom(ctx, r, "C10", C10, "lossy-convert")
	c08FoundPathContinuesSelection(ctx, r)
	c08NavigationBeforeState(ctx, r)
	c08KeyTextVerbatim(ctx, r)
}

func callsByName(f *ssa.Function, name string) []ssa.CallInstruction {
	return callsWhere(f, true, func(c ssa.CallInstruction) bool {
		cal := core.StaticCallee(c)
		return cal != nil && core.FnName(cal) == name
	})
}

// c08Codec: decode/encode symmetry.
func c08Codec(ctx *core.Ctx, r *core.Report) {
	parse := ctx.Fn("node", "parseUrlPath")
	toBuf := ctx.Method("node", "Path", "toBuffer")
	enc := ctx.Fn("node", "EncodeKey")
	if parse == nil || toBuf == nil || enc == nil {
		r.Fatalf("anchors node.parseUrlPath / Path.toBuffer / EncodeKey not found")
		return
	}
	un := callsByName(parse, "net/url.QueryUnescape")
	// three decode sites: keyed segment name, each key, plain segment name
	r.Ob("codec-symmetry", "node.parseUrlPath/decodes", ctx.Pos(parse.Pos()), len(un) >= 3,
		fmt.Sprintf("%d url.QueryUnescape calls; the segment name (with and without key) and every key must be decoded", len(un)))
	// one of them inside the loop over the keys
	inLoop := false
	for _, c := range un {
		if l := loopBlocks(c.Block()); l != nil {
			// the inner loop over keyStrs: nested in the segments loop
			for _, c2 := range un {
				if c2 != c && l[c2.Block()] {
					_ = c2
				}
			}
			inLoop = true
		}
	}
	r.Ob("codec-symmetry", "node.parseUrlPath/each-key", ctx.Pos(parse.Pos()), inLoop, "keys are not decoded one by one")
	for _, f := range []*ssa.Function{toBuf, enc} {
		esc := callsByName(f, "net/url.QueryEscape")
		ok, msg := len(esc) == 1, ""
		if !ok {
			msg = fmt.Sprintf("%d url.QueryEscape calls: keys are written raw (or escaped twice), so a key holding '/', ',', '=' or '%%' does not read back", len(esc))
		} else {
			c := esc[0]
			// the escaped text is the key's String()
			arg := c.Common().Args[0]
			isStr := false
			if sc, isCall := arg.(*ssa.Call); isCall {
				if m := core.IfaceMethod(sc); m != nil && m.Name() == "String" {
					isStr = true
				}
			}
			if !isStr {
				ok, msg = false, "what is escaped is not the key value's String()"
			}
			if ok && loopBlocks(c.Block()) == nil {
				ok, msg = false, "the escape is not applied per key (not inside the loop over the keys)"
			}
			// every write of key text to the output is the escaped text: no second String() write in the loop
			if ok {
				nStr := 0
				l := loopBlocks(c.Block())
				for b := range l {
					for _, in := range b.Instrs {
						if sc, isCall := in.(*ssa.Call); isCall {
							if m := core.IfaceMethod(sc); m != nil && m.Name() == "String" {
								nStr++
							}
						}
					}
				}
				if nStr != 1 {
					ok, msg = false, fmt.Sprintf("the key's text is produced %d times per key: each key must be written exactly once", nStr)
				}
			}
		}
		r.Ob("codec-symmetry", core.FnName(f)+"/escapes-keys", ctx.Pos(f.Pos()), ok, msg)
	}
}

// c08Relative: leading ../ steps are consumed.
func c08Relative(ctx *core.Ctx, r *core.Report) {
	find := ctx.Method("node", "Selection", "Find")
	parse := ctx.Fn("node", "parseUrlPath")
	metaFn := ctx.Method("node", "Selection", "Meta")
	if find == nil || parse == nil || metaFn == nil {
		r.Fatalf("anchors Selection.Find / parseUrlPath / Selection.Meta not found")
		return
	}
	pathP := paramNamed(find, "path")
	selP := find.Params[0]
	cs := callsStatic(find, parse, false)
	if len(cs) != 1 || pathP == nil {
		r.Fatalf("Selection.Find: expected one parseUrlPath call and a `path` parameter")
		return
	}
	a := cs[0].Common().Args
	// the text parsed must flow from the loop-carried remainder (a phi), not straight from the parameter
	// the loop that strips the leading "../" steps and its loop-carried values
	loopPhis := map[ssa.Value]bool{}
	for _, hc := range callsByName(find, "strings.HasPrefix") {
		if lit, ok := core.ConstString(hc.Common().Args[1]); ok && lit == "../" {
			for b := range loopBlocks(hc.Block()) {
				for _, in := range b.Instrs {
					if ph, ok := in.(*ssa.Phi); ok {
						loopPhis[ph] = true
					}
				}
			}
		}
	}
	if len(loopPhis) == 0 {
		r.Fatalf("Selection.Find: the loop consuming leading ../ steps was not found")
		return
	}
	var flows func(v ssa.Value, d int) bool
	flows = func(v ssa.Value, d int) bool {
		if d > 6 {
			return false
		}
		if loopPhis[v] {
			return true
		}
		switch x := v.(type) {
		case *ssa.Phi:
			for _, e := range x.Edges {
				if !flows(e, d+1) {
					return false // some path still carries a value that bypassed the loop
				}
			}
			return len(x.Edges) > 0
		case *ssa.Slice:
			return flows(x.X, d+1)
		}
		return false
	}
	okPath := flows(a[0], 0)
	r.Ob("relative-steps-consumed", "node.Selection.Find/path", ctx.Pos(cs[0].Pos()), okPath,
		"parseUrlPath is given the original path: the leading ../ steps were walked but are still in the text, so they are looked up as a node named '..'")
	// the schema node must be that of the selection reached, not of the receiver
	okMeta := false
	if mc, ok := a[1].(*ssa.Call); ok && core.IsCallTo(mc, metaFn) {
		recv := mc.Common().Args[0]
		okMeta = recv != ssa.Value(selP) && !core.IsParam(recv, selP)
	} else if ci, ok := a[1].(*ssa.ChangeInterface); ok {
		if mc, ok := ci.X.(*ssa.Call); ok && core.IsCallTo(mc, metaFn) {
			recv := mc.Common().Args[0]
			okMeta = recv != ssa.Value(selP) && !core.IsParam(recv, selP)
		}
	}
	r.Ob("relative-steps-consumed", "node.Selection.Find/schema-context", ctx.Pos(cs[0].Pos()), okMeta,
		"the path is resolved against the receiver's schema node instead of the node the ../ steps lead to")
}

func derivesFromPhi(v ssa.Value, depth int) bool {
	if depth > 6 {
		return false
	}
	switch x := v.(type) {
	case *ssa.Phi:
		return true
	case *ssa.Slice:
		return derivesFromPhi(x.X, depth+1)
	case *ssa.UnOp:
		if al, ok := x.X.(*ssa.Alloc); ok {
			for _, ref := range *al.Referrers() {
				if st, ok := ref.(*ssa.Store); ok && derivesFromPhi(st.Val, depth+1) {
					return true
				}
			}
		}
		return derivesFromPhi(x.X, depth+1)
	case *ssa.Convert:
		return derivesFromPhi(x.X, depth+1)
	}
	return false
}

// c08ErrorIdentity: not-found and bad-request identities in parseUrlPath.
func c08ErrorIdentity(ctx *core.Ctx, r *core.Report) {
	parse := ctx.Fn("node", "parseUrlPath")
	nf := globalVar(ctx, "fc", "NotFoundError")
	br := globalVar(ctx, "fc", "BadRequestError")
	if parse == nil || nf == nil || br == nil {
		r.Fatalf("anchors parseUrlPath / fc.NotFoundError / fc.BadRequestError not found")
		return
	}
	nNF, nBR := 0, 0
	okNF := false
	for _, ef := range errorfCalls(parse) {
		if ef.wraps(nf) {
			nNF++
			// raised on the edge where the looked-up schema node is nil
			for _, pc := range core.PathConds(ef.Call.Block()) {
				if bo, ok := pc.V.(*ssa.BinOp); ok && bo.Op == token.EQL && pc.True && (core.IsNilConst(bo.X) || core.IsNilConst(bo.Y)) {
					if condFieldName(pc.V) == "Meta" {
						okNF = true
					}
				}
			}
		}
		if ef.wraps(br) {
			nBR++
		}
	}
	r.Ob("error-identity", "node.parseUrlPath/not-found", ctx.Pos(parse.Pos()), nNF == 1 && okNF,
		"a name that is not in the schema must yield an error wrapping fc.NotFoundError, raised where the looked-up schema node is nil")
	r.Ob("error-identity", "node.parseUrlPath/bad-request", ctx.Pos(parse.Pos()), nBR >= 2,
		fmt.Sprintf("%d errors wrap fc.BadRequestError; a step below a leaf and a key on a non-list must be rejected as bad requests", nBR))
	// Find: no parent to resolve ../ → not found
	find := ctx.Method("node", "Selection", "Find")
	if find != nil {
		ok := false
		for _, ef := range errorfCalls(find) {
			if ef.wraps(nf) {
				ok = true
			}
		}
		r.Ob("error-identity", "node.Selection.Find/no-parent", ctx.Pos(find.Pos()), ok, "walking ../ above the root must fail with an error wrapping fc.NotFoundError")
	}
	// findSlice returns (nil, nil) for an absent child / key: the returns after selekt/selectListItem forward err
	fs := ctx.Method("node", "Selection", "findSlice")
	if fs == nil {
		r.Fatalf("anchor Selection.findSlice not found")
		return
	}
	n := 0
	for _, spec := range []string{"node.Selection.selekt", "node.Selection.selectListItem"} {
		callee := ctx.Lookup(spec)
		for _, c := range callsStatic(fs, callee, false) {
			n++
			ev := errResult(c)
			ok := ev != nil && flowsToReturn(ev, 0, map[ssa.Value]bool{})
			r.Ob("error-identity", "node.Selection.findSlice/"+spec, ctx.Pos(c.Pos()), ok, "the error of the navigation step is not returned by Find")
		}
	}
	r.Floor("error-identity(findSlice steps)", n, 2)
}

// c08NavigationTarget: both request literals of findSlice set Target.
func c08NavigationTarget(ctx *core.Ctx, r *core.Report) {
	fs := ctx.Method("node", "Selection", "findSlice")
	if fs == nil {
		return
	}
	n := 0
	core.Instrs(fs, func(_ *ssa.BasicBlock, in ssa.Instruction) {
		al, ok := in.(*ssa.Alloc)
		if !ok || al.Comment != "complit" {
			return
		}
		named := core.NamedOf(al.Type())
		if named == nil || (named.Obj().Name() != "ChildRequest" && named.Obj().Name() != "ListRequest") {
			return
		}
		n++
		st := named.Underlying().(*types.Struct)
		fsMap := fieldStores(al, st)
		tv, has := fsMap["Request.Target"]
		r.Ob("navigation-marks-requests", "node.Selection.findSlice/"+named.Obj().Name(), ctx.Pos(al.Pos()), has,
			"a request issued while walking a path does not set Request.Target: IsNavigation() is false and read filters (depth, fields, content…) are applied to the steps of the path")
		if has {
			r.Ob("navigation-marks-requests", "node.Selection.findSlice/"+named.Obj().Name()+"/target-on-every-step", ctx.Pos(al.Pos()), !mayBeNilValue(tv, map[ssa.Value]bool{}),
				"the Target of a navigation request can be nil on some step (the last one, say): that step is not recognised as navigation and the read filters of the same query (content, depth, fields…) are applied to it, so Find returns nothing for a node that is there")
		}
	})
	r.Floor("navigation-marks-requests", n, 2)
}

// c08SegmentEquality: Path.equalSegment compares the identifiers, and not only
// when a meta is nil (contradiction rule: a value tested nil is not used on that edge).
func c08SegmentEquality(ctx *core.Ctx, r *core.Report) {
	f := ctx.Method("node", "Path", "equalSegment")
	if f == nil {
		r.Fatalf("anchor node.Path.equalSegment not found")
		return
	}
	var idents []ssa.CallInstruction
	for _, c := range core.CallSites(f) {
		if m := core.IfaceMethod(c); m != nil && m.Name() == "Ident" {
			idents = append(idents, c)
		}
	}
	ok, msg := len(idents) == 2, ""
	if !ok {
		msg = fmt.Sprintf("%d Ident() calls: both segments' names must be compared", len(idents))
	} else {
		for _, c := range idents {
			for _, pc := range core.PathConds(c.Block()) {
				bo, isBo := pc.V.(*ssa.BinOp)
				if !isBo {
					continue
				}
				isNilTest := core.IsNilConst(bo.X) || core.IsNilConst(bo.Y)
				if isNilTest && condFieldName(pc.V) == "Meta" && ((bo.Op == token.EQL) == pc.True) {
					ok, msg = false, "Ident() is called on the edge where the segment's Meta was just found to be nil: the names are compared only when there is nothing to compare (and that dereferences nil)"
				}
			}
		}
		// the comparison result leads to `return false`
		cmp := false
		core.Instrs(f, func(_ *ssa.BasicBlock, in ssa.Instruction) {
			if bo, isBo := in.(*ssa.BinOp); isBo && (bo.Op == token.NEQ || bo.Op == token.EQL) {
				if dependsOn(bo.X, idents[0].Value(), 0) && dependsOn(bo.Y, idents[1].Value(), 0) ||
					dependsOn(bo.X, idents[1].Value(), 0) && dependsOn(bo.Y, idents[0].Value(), 0) {
					cmp = true
				}
			}
		})
		if ok && !cmp {
			ok, msg = false, "the two names are not compared with each other"
		}
	}
	r.Ob("segment-equality", "node.Path.equalSegment", ctx.Pos(f.Pos()), ok, msg)
}

// mayBeNilValue: can v be the nil constant on some path (through phis and locals)?
func mayBeNilValue(v ssa.Value, seen map[ssa.Value]bool) bool {
	if v == nil || seen[v] {
		return false
	}
	seen[v] = true
	switch x := v.(type) {
	case *ssa.Const:
		return x.IsNil()
	case *ssa.Phi:
		for _, e := range x.Edges {
			if mayBeNilValue(e, seen) {
				return true
			}
		}
	case *ssa.UnOp:
		if al, ok := x.X.(*ssa.Alloc); ok && x.Op == token.MUL {
			stores := 0
			for _, ref := range *al.Referrers() {
				if st, ok := ref.(*ssa.Store); ok && st.Addr == ssa.Value(al) {
					stores++
					if mayBeNilValue(st.Val, seen) {
						return true
					}
				}
			}
			return stores == 0 // a zero-valued local
		}
	case *ssa.MakeInterface:
		return mayBeNilValue(x.X, seen)
	case *ssa.ChangeInterface:
		return mayBeNilValue(x.X, seen)
	}
	return false
}
