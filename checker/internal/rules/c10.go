package rules

import (
	"fmt"
	"go/constant"
	"go/token"
	"go/types"
	"math/big"
	"strings"

	"golang.org/x/tools/go/ssa"

	"verif/checker/internal/core"
)

// ---------------------------------------------------------------------------
// C10 — value conversion is exact or fails.
//
// lossy-convert: every numeric conversion (ssa.Convert between basic numeric
// types) in the conversion front end (package val, node/value.go) whose source
// range is not contained in the destination range must be dominated by guards
// that confine the operand to the destination type's range; float→integer
// additionally needs an integrality test (x == math.Trunc(x)). The bounds are
// compared with the *destination type's* limits, so a wrong constant is caught.
//
// conv-total: val.Conv's dispatch covers every Format constant or falls to the
// error return (never a zero value with a nil error).
//
// failed-result-used: the value result of a fallible call is not used on the
// branch where its error is known to be non-nil.
// ---------------------------------------------------------------------------

type numKind struct {
	bits   int
	signed bool
	float  bool
}

func numKindOf(t types.Type, sizes types.Sizes) (numKind, bool) {
	b, ok := t.Underlying().(*types.Basic)
	if !ok {
		return numKind{}, false
	}
	switch {
	case b.Info()&types.IsInteger != 0:
		return numKind{bits: int(sizes.Sizeof(b)) * 8, signed: b.Info()&types.IsUnsigned == 0}, true
	case b.Info()&types.IsFloat != 0:
		return numKind{bits: int(sizes.Sizeof(b)) * 8, float: true}, true
	}
	return numKind{}, false
}

func (k numKind) String() string {
	if k.float {
		return fmt.Sprintf("float%d", k.bits)
	}
	if k.signed {
		return fmt.Sprintf("int%d", k.bits)
	}
	return fmt.Sprintf("uint%d", k.bits)
}

// limits of an integer kind as exact rationals.
func (k numKind) limits() (lo, hi *big.Float) {
	lo, hi = new(big.Float), new(big.Float)
	one := big.NewInt(1)
	if k.signed {
		h := new(big.Int).Lsh(one, uint(k.bits-1))
		lo.SetInt(new(big.Int).Neg(h))
		hi.SetInt(new(big.Int).Sub(h, one))
	} else {
		lo.SetInt64(0)
		hi.SetInt(new(big.Int).Sub(new(big.Int).Lsh(one, uint(k.bits)), one))
	}
	return
}

// contains: every value of src is representable in dst.
func contains(dst, src numKind) bool {
	switch {
	case src.float && dst.float:
		return dst.bits >= src.bits
	case src.float && !dst.float:
		return false
	case !src.float && dst.float:
		// exact only while the integer fits the mantissa
		mant := 24
		if dst.bits == 64 {
			mant = 53
		}
		need := src.bits
		if src.signed {
			need--
		}
		return need <= mant
	case src.signed == dst.signed:
		return dst.bits >= src.bits
	case !src.signed && dst.signed:
		return dst.bits > src.bits
	default: // signed → unsigned
		return false
	}
}

type bound struct {
	v    *big.Float
	incl bool
}

func constFloat(v ssa.Value) (*big.Float, bool) {
	c, ok := v.(*ssa.Const)
	if !ok || c.Value == nil {
		return nil, false
	}
	switch c.Value.Kind() {
	case constant.Int:
		if bi, ok := constant.Val(c.Value).(*big.Int); ok {
			return new(big.Float).SetInt(bi), true
		}
		if i, ok := constant.Int64Val(c.Value); ok {
			return new(big.Float).SetInt64(i), true
		}
	case constant.Float:
		switch x := constant.Val(c.Value).(type) {
		case *big.Float:
			return x, true
		case *big.Rat:
			return new(big.Float).SetRat(x), true
		}
		f, _ := constant.Float64Val(c.Value)
		return big.NewFloat(f), true
	}
	return nil, false
}

// sameNum: a and b denote the same number (b may be a value-preserving
// conversion of a or vice versa).
func sameNum(a, b ssa.Value, sizes types.Sizes) bool {
	strip := func(v ssa.Value) ssa.Value {
		for {
			c, ok := v.(*ssa.Convert)
			if !ok {
				if ct, ok := v.(*ssa.ChangeType); ok {
					v = ct.X
					continue
				}
				return v
			}
			sk, ok1 := numKindOf(c.X.Type(), sizes)
			dk, ok2 := numKindOf(c.Type(), sizes)
			if !ok1 || !ok2 || !contains(dk, sk) {
				return v
			}
			v = c.X
		}
	}
	return strip(a) == strip(b)
}

// guardsOn collects lower/upper bounds and integrality of operand x from the
// branch conditions dominating block b.
func guardsOn(b *ssa.BasicBlock, x ssa.Value, sizes types.Sizes) (lo, hi *bound, integral bool) {
	tighten := func(cur **bound, nb bound, lower bool) {
		if *cur == nil {
			*cur = &nb
			return
		}
		c := nb.v.Cmp((*cur).v)
		if (lower && c > 0) || (!lower && c < 0) || (c == 0 && !nb.incl) {
			*cur = &nb
		}
	}
	for _, pc := range core.PathConds(b) {
		v, truth := pc.V, pc.True
		if u, ok := v.(*ssa.UnOp); ok && u.Op == token.NOT {
			v, truth = u.X, !truth
		}
		bo, ok := v.(*ssa.BinOp)
		if !ok {
			continue
		}
		op := bo.Op
		if !truth {
			switch op {
			case token.LSS:
				op = token.GEQ
			case token.LEQ:
				op = token.GTR
			case token.GTR:
				op = token.LEQ
			case token.GEQ:
				op = token.LSS
			case token.EQL:
				op = token.NEQ
			case token.NEQ:
				op = token.EQL
			}
		}
		// integrality: x == math.Trunc(x)
		if op == token.EQL {
			isTrunc := func(a, b ssa.Value) bool {
				c, ok := b.(*ssa.Call)
				if !ok {
					return false
				}
				cal := core.StaticCallee(c)
				return cal != nil && core.FnName(cal) == "math.Trunc" && len(c.Common().Args) == 1 &&
					sameNum(c.Common().Args[0], x, sizes) && sameNum(a, x, sizes)
			}
			if isTrunc(bo.X, bo.Y) || isTrunc(bo.Y, bo.X) {
				integral = true
			}
			continue
		}
		var c *big.Float
		left := false
		if cv, ok := constFloat(bo.Y); ok && sameNum(bo.X, x, sizes) {
			c, left = cv, true
		} else if cv, ok := constFloat(bo.X); ok && sameNum(bo.Y, x, sizes) {
			c, left = cv, false
		} else {
			continue
		}
		if !left { // C op x  ≡  x op' C
			switch op {
			case token.LSS:
				op = token.GTR
			case token.LEQ:
				op = token.GEQ
			case token.GTR:
				op = token.LSS
			case token.GEQ:
				op = token.LEQ
			}
		}
		switch op {
		case token.GEQ:
			tighten(&lo, bound{c, true}, true)
		case token.GTR:
			tighten(&lo, bound{c, false}, true)
		case token.LEQ:
			tighten(&hi, bound{c, true}, false)
		case token.LSS:
			tighten(&hi, bound{c, false}, false)
		}
	}
	return
}

func c10Scope(ctx *core.Ctx) []*ssa.Function {
	var out []*ssa.Function
	for _, f := range ctx.RepoFuncs() {
		p := core.FnPkgPath(f)
		switch {
		case p == core.Full("val"):
			out = append(out, f)
		case p == core.Full("node") && strings.HasSuffix(ctx.File(f.Pos()), "node/value.go"):
			out = append(out, f)
		}
	}
	return out
}

func C10(ctx *core.Ctx, r *core.Report) {
	r.Explanation = "Integer-width reasoning over every numeric conversion in the conversion front end (package val, node/value.go): a conversion whose source range is not contained in the destination range must be dominated by comparisons that confine the operand to the destination type's limits (and, for float→integer, by an integrality test), or take its operand from strconv.ParseInt/ParseUint with a matching bit size. Also: val.Conv's dispatch never yields a zero value with a nil error, and the value of a failed call is not used. Text is parsed in base 10; an error raised inside a conversion loop is tested inside that loop; floats are printed with precision -1. Not decided: string formats accepted, union member choice, enum/bits/identityref lookup."
	fns := c10Scope(ctx)
	r.Count("functions_in_scope", len(fns))
	nConv, nSafe := lossyConversions(ctx, r, fns, c10Triage)
	r.Count("numeric_conversions", nConv)
	r.Count("numeric_conversions_safe_by_type", nSafe)
	r.Floor("lossy-convert(all conversions)", nConv, 60)

	c10ConvTotal(ctx, r)
	c10FailedResultUsed(ctx, r)
	parseBaseTen(ctx, r, fns, 3)
	loopErrorTested(ctx, r, fns, 5)
	floatTextExact(ctx, r, fns, 1)
	{
		// text of XML string leaves and leaf-lists reaches the conversion as written (C19's rule on the reader)
		sub := core.NewReport("C19", r.Tier, r.Root, r.Seed)
		C19(ctx, sub)
		r.Borrow(sub, "no-lossy-text")
	}
	c10DecodedLengthHonoured(ctx, r)
	c10BitsByPosition(ctx, r)
}

// c10ConvTotal: every return of val.Conv (and node.NewValue) returns a
// non-nil error whenever it returns a nil/zero value, except the documented
// nil-in/nil-out path.
func c10ConvTotal(ctx *core.Ctx, r *core.Report) {
	fn := ctx.Fn("val", "Conv")
	if fn == nil {
		r.Fatalf("anchor val.Conv not found")
		return
	}
	// the dispatch must mention every Format constant that TypeAsFormat can
	// produce, or end in the error return: collect the set of constants compared
	// with the format parameter.
	seen := map[int64]bool{}
	if len(fn.Params) >= 1 {
		f := fn.Params[0]
		core.Instrs(fn, func(_ *ssa.BasicBlock, in ssa.Instruction) {
			if bo, ok := in.(*ssa.BinOp); ok && bo.Op == token.EQL {
				if core.IsParam(bo.X, f) {
					if c, ok := core.ConstInt(bo.Y); ok {
						seen[c] = true
					}
				}
			}
		})
	}
	// Formats that val itself does not convert are delegated to node.NewValue;
	// the fall-through must be the error return: the last return has a non-nil error.
	endsInError := false
	for _, ret := range core.Returns(fn) {
		ops := core.RetOperands(ret)
		if len(ops) == 2 && core.IsNilConst(ops[0]) {
			if _, isCall := ops[1].(*ssa.Call); isCall { // fmt.Errorf(...)
				endsInError = true
			}
		}
	}
	r.Ob("conv-total", "val.Conv/fallthrough-is-error", ctx.Pos(fn.Pos()), endsInError, "the fall-through of Conv's dispatch must return a non-nil error")
	r.Count("conv_format_cases", len(seen))
	if len(seen) < 20 {
		r.Fatalf("val.Conv dispatch has only %d format cases; anchor changed", len(seen))
	}
	// no return of a nil value with a nil error except when the input is nil
	for _, ret := range core.Returns(fn) {
		ops := core.RetOperands(ret)
		if len(ops) != 2 {
			continue
		}
		if core.IsNilConst(ops[0]) && core.IsNilConst(ops[1]) {
			// must be dominated by `val == nil`
			guarded := false
			for _, pc := range core.PathConds(ret.Block()) {
				if bo, ok := pc.V.(*ssa.BinOp); ok && bo.Op == token.EQL && pc.True && len(fn.Params) > 1 &&
					(core.IsParam(bo.X, fn.Params[1]) && core.IsNilConst(bo.Y) || core.IsParam(bo.Y, fn.Params[1]) && core.IsNilConst(bo.X)) {
					guarded = true
				}
			}
			r.Ob("conv-total", "val.Conv/nil-nil-return", ctx.Pos(ret.Pos()), guarded, "Conv returns (nil, nil) for an input that is not nil")
		}
	}
}

// c10FailedResultUsed: `v, err := f(...)`; v must not be used in code that is
// only reachable when err != nil.
func c10FailedResultUsed(ctx *core.Ctx, r *core.Report) {
	n := 0
	for _, f := range ctx.RepoFuncs() {
		p := core.FnPkgPath(f)
		if p != core.Full("val") && p != core.Full("node") && p != core.Full("nodeutil") && p != core.Full("meta") {
			continue
		}
		core.Instrs(f, func(_ *ssa.BasicBlock, in ssa.Instruction) {
			c, ok := in.(*ssa.Call)
			if !ok {
				return
			}
			tup, ok := c.Type().(*types.Tuple)
			if !ok || tup.Len() < 2 || !core.IsErrorType(tup.At(tup.Len()-1).Type()) {
				return
			}
			var errEx *ssa.Extract
			var vals []*ssa.Extract
			for _, ref := range *c.Referrers() {
				if ex, ok := ref.(*ssa.Extract); ok {
					if ex.Index == tup.Len()-1 {
						errEx = ex
					} else {
						vals = append(vals, ex)
					}
				}
			}
			if errEx == nil || len(vals) == 0 {
				return
			}
			n++
			for _, ve := range vals {
				for _, use := range *ve.Referrers() {
					ub := use.Block()
					if ub == nil {
						continue
					}
					// a phi use happens on the incoming edge, not in the phi's block
					if _, isPhi := use.(*ssa.Phi); isPhi {
						continue
					}
					if _, isDbg := use.(*ssa.DebugRef); isDbg {
						continue
					}
					for _, pc := range core.PathConds(ub) {
						bo, ok := pc.V.(*ssa.BinOp)
						if !ok {
							continue
						}
						isErr := (bo.X == ssa.Value(errEx) && core.IsNilConst(bo.Y)) || (bo.Y == ssa.Value(errEx) && core.IsNilConst(bo.X))
						if !isErr {
							continue
						}
						if (bo.Op == token.NEQ && pc.True) || (bo.Op == token.EQL && !pc.True) {
							// returning the zero value alongside the error is the normal idiom
							if ret, isRet := use.(*ssa.Return); isRet {
								ops := core.RetOperands(ret)
								if len(ops) > 0 && !core.IsNilConst(ops[len(ops)-1]) {
									continue
								}
							}
							r.Ob("failed-result-used", core.FnName(f)+"/"+core.CalleeName(c), ctx.Pos(use.Pos()), false,
								"the value result of a call is used on the branch where its error is non-nil (the error test looks inverted)")
						}
					}
				}
			}
		})
	}
	r.Ob("failed-result-used", "scope", "-", n >= 150, fmt.Sprintf("%d fallible call sites with a used value result examined in val, node, nodeutil, meta", n))
}

// conversions that are exact by a domain invariant the width analysis cannot see.
var c10Triage = map[string]string{}

// lossyConversions applies the integer-width rule to every numeric conversion
// of the given functions and returns how many it saw and how many are safe by
// type alone.
func lossyConversions(ctx *core.Ctx, r *core.Report, fns []*ssa.Function, triage map[string]string) (int, int) {
	sizes := ctx.Sizes
	nConv, nSafe := 0, 0
	for _, f := range fns {
		fname := core.FnName(f)
		core.Instrs(f, func(b *ssa.BasicBlock, in ssa.Instruction) {
			cv, ok := in.(*ssa.Convert)
			if !ok {
				return
			}
			sk, ok1 := numKindOf(cv.X.Type(), sizes)
			dk, ok2 := numKindOf(cv.Type(), sizes)
			if !ok1 || !ok2 {
				return
			}
			if _, isConst := cv.X.(*ssa.Const); isConst {
				return
			}
			nConv++
			if contains(dk, sk) {
				nSafe++
				return
			}
			key := fmt.Sprintf("%s/%s→%s", fname, core.TypeName(cv.X.Type()), core.TypeName(cv.Type()))
			pos := ctx.Pos(cv.Pos())
			// strconv.ParseInt/ParseUint(x, base, bitSize) with bitSize ≤ dst
			if ex, ok := cv.X.(*ssa.Extract); ok && ex.Index == 0 {
				if c, ok := ex.Tuple.(*ssa.Call); ok {
					if cal := core.StaticCallee(c); cal != nil {
						n := core.FnName(cal)
						if (n == "strconv.ParseInt" && dk.signed || n == "strconv.ParseUint" && !dk.signed) && !dk.float && len(c.Common().Args) == 3 {
							if bs, ok := core.ConstInt(c.Common().Args[2]); ok && int(bs) <= dk.bits && bs > 0 {
								r.Ob("lossy-convert", key, pos, true, fmt.Sprintf("operand is %s with bitSize %d", n, bs))
								return
							}
						}
					}
				}
			}
			if dk.float {
				// integer wider than the mantissa, or float64→float32
				if reason, t := triage[key]; t {
					r.Ob("lossy-convert", key, pos, true, "triaged: "+reason)
					return
				}
				r.Ob("lossy-convert", key, pos, false, fmt.Sprintf("%s → %s is not exact for all values (mantissa too short) and nothing bounds the operand", sk, dk))
				return
			}
			lo, hi, integral := guardsOn(b, cv.X, sizes)
			dlo, dhi := dk.limits()
			var problems []string
			// lower bound
			srcLoOK := !sk.float && !sk.signed // unsigned sources are ≥ 0 ≥ dlo
			if !srcLoOK {
				if !sk.float {
					slo, _ := sk.limits()
					if slo.Cmp(dlo) >= 0 {
						srcLoOK = true
					}
				}
			}
			if !srcLoOK {
				switch {
				case lo == nil:
					problems = append(problems, "no lower bound")
				case lo.v.Cmp(dlo) < 0 && !(lo.v.Cmp(new(big.Float).Sub(dlo, big.NewFloat(1))) == 0 && !lo.incl):
					problems = append(problems, fmt.Sprintf("lower bound %s is below %s's minimum %s", lo.v.Text('f', 0), dk, dlo.Text('f', 0)))
				}
			}
			srcHiOK := false
			if !sk.float {
				_, shi := sk.limits()
				if shi.Cmp(dhi) <= 0 {
					srcHiOK = true
				}
			}
			if !srcHiOK {
				lim := new(big.Float).Add(dhi, big.NewFloat(1))
				switch {
				case hi == nil:
					problems = append(problems, "no upper bound")
				case hi.incl && hi.v.Cmp(dhi) > 0:
					problems = append(problems, fmt.Sprintf("upper bound %s exceeds %s's maximum %s", hi.v.Text('f', 0), dk, dhi.Text('f', 0)))
				case !hi.incl && hi.v.Cmp(lim) > 0:
					problems = append(problems, fmt.Sprintf("upper bound <%s exceeds %s's maximum %s", hi.v.Text('f', 0), dk, dhi.Text('f', 0)))
				}
			}
			if sk.float && !integral {
				problems = append(problems, "no integrality test (x == math.Trunc(x)): fractions are truncated")
			}
			ok = len(problems) == 0
			if reason, t := triage[key]; t && !ok {
				r.Ob("lossy-convert", key, pos, true, "triaged: "+reason)
				return
			}
			msg := "bounded by dominating guards within the destination range"
			if !ok {
				msg = fmt.Sprintf("%s → %s can change the number: %s", sk, dk, strings.Join(problems, "; "))
			}
			r.Ob("lossy-convert", key, pos, ok, msg)
			if ok {
				r.Sample("lossy-convert %s at %s: %s", key, pos, msg)
			}
		})
	}
	return nConv, nSafe
}
