package rules

const (
	rGrammar   = "grammar invariant: the only caller is a parser.y action whose production fixes the object on top of the builder stack"
	rCloneDefs = "dataDefs invariant: the data-definition slice of a node never holds a *Typedef (the only Definition that is not cloneable); typedefs live in their own map and addDataDefinition is fed by the grammar's data-definition productions only"
	rAnyGuard  = "reachable for anyxml/anydata only through a deviation or refine, and both reject it first: resolver.checkDeviationTarget refuses units/default on *Any, Builder.Defaults has no *Any case; the grammar keeps default/units/type statements out of anyxml/anydata"
	rDefGuard  = "every caller tests HasDefault() first: Builder.Default (duplicate default is an error), applyDeviation add (\"default already set\"), compileType (inherits only when the leaf has none)"
	rDevGuard  = "guarded interprocedurally: resolver.checkDeviationTarget, called before any deviate is applied, returns an error unless the target kind carries every property the deviation names"
	rSubmodule = "submodule invariant: a Module whose belongsTo is set was parsed with its parent *Module (lexer.parent) and Module.setParent is only called with it"
)

var c14Triage = map[string]string{
	// ---- K1 -------------------------------------------------------------------
	`K1:meta.Any.DefaultValue/panic("anydata cannot have default value")`:                                "typestate: callers test HasDefault() (constant false for Any) first; " + rAnyGuard,
	`K1:meta.Any.addDefault/panic("anydata cannot have default value")`:                                  rAnyGuard,
	`K1:meta.Any.clearDefault/panic("anydata cannot have default value")`:                                rAnyGuard,
	`K1:meta.Any.setDefaultValue/panic("anydata cannot have default value")`:                             "compileType inherits a default only from a typedef, and an Any's type is the built-in anyType, never a typedef reference",
	`K1:meta.Any.setType/panic("cannot set type on an any type")`:                                        rGrammar + " (type statements are not accepted inside anyxml/anydata)",
	`K1:meta.Any.setUnits/panic("anydata cannot have units")`:                                            rAnyGuard,
	`K1:meta.Builder.SetRevisionDate/panic(fmt.Sprintf("%T does not support revision date", o))`:         rGrammar + " (revision-date occurs only inside import and include)",
	`K1:meta.Choice.addDefault/panic("default already set")`:                                             rDefGuard,
	`K1:meta.Leaf.addDefault/panic("default already set")`:                                               rDefGuard,
	`K1:meta.Typedef.addDefault/panic("default already set")`:                                            rDefGuard,
	`K1:meta.Leaf.setDefaultValue/panic("expected string")`:                                              "the only caller, compileType, passes Typedef.DefaultValue(), which is a string",
	`K1:meta.Typedef.setDefaultValue/panic("expected string")`:                                           "the only caller, compileType, passes Typedef.DefaultValue(), which is a string",
	`K1:meta.LeafList.setDefaultValue/panic("expected []string or string")`:                              "the only caller, compileType, passes Typedef.DefaultValue(), which is a string",
	`K1:meta.RangeNumber.getFloat64/panic("invalid number range comparison")`:                            "unreachable by construction: newRangeNumber sets exactly one of integer/unsigned/float unless min/max, and RangeNumber.Compare returns for min/max before any getter runs",
	`K1:meta.RangeNumber.getInt64/panic("invalid number range comparison")`:                              "unreachable by construction: Compare handles min/max and unsigned-only bounds before getInt64",
	`K1:meta.RangeNumber.getUnit64/panic("invalid number range comparison")`:                             "unreachable by construction: Compare handles min/max and negative bounds before getUnit64",
	`K1:meta.findResolved/panic(fmt.Sprintf("could not find resolved list for %s", SchemaPath(target)))`: "internal consistency check of the recursive-uses queue: every *Uses placeholder left in a resolved list was queued by delayRecursiveUses in the same pass (the source says: cannot be from a bad yang file)",
	`K1:parser.lexer.keyword/panic("Not a keyword")`:                                                     "callers pass token constants declared after token_ident (acceptToken's default branch and the debug dump of emitted tokens)",

	// ---- K2 -------------------------------------------------------------------
	`K2:meta.Augment.clone/def.(cloneable)`:                                 rCloneDefs,
	`K2:meta.ChoiceCase.clone/def.(cloneable)`:                              rCloneDefs,
	`K2:meta.Container.clone/def.(cloneable)`:                               rCloneDefs,
	`K2:meta.Extension.clone/def.(cloneable)`:                               rCloneDefs,
	`K2:meta.Grouping.clone/def.(cloneable)`:                                rCloneDefs,
	`K2:meta.List.clone/def.(cloneable)`:                                    rCloneDefs,
	`K2:meta.Module.clone/def.(cloneable)`:                                  rCloneDefs,
	`K2:meta.Notification.clone/def.(cloneable)`:                            rCloneDefs,
	`K2:meta.RpcInput.clone/def.(cloneable)`:                                rCloneDefs,
	`K2:meta.RpcOutput.clone/def.(cloneable)`:                               rCloneDefs,
	`K2:meta.resolver.cloneDefs/d.(cloneable)`:                              rCloneDefs,
	`K2:meta.resolver.expandAugment/orig.(cloneable)`:                       rCloneDefs,
	`K2:meta.Module.setParent/p.(*Module)`:                                  rSubmodule,
	`K2:meta.RootModule/candidate.(*Module)`:                                rSchema + ": the root of every Parent() chain of a definition attached to a module is its *Module",
	`K2:meta.SchemaPath/m.(Identifiable)`:                                   rSchema + ": every meta.Meta on a Parent() chain is a Definition, hence Identifiable",
	`K2:meta.SchemaPathNoModule/m.(Identifiable)`:                           rSchema + ": as SchemaPath",
	`K2:meta.compiler.compile/o.(Meta)`:                                     "inside `if x, ok := o.(HasConfig)`: every HasConfig implementer is a Meta (closed set of meta types; HasConfig embeds nothing sealed, so the engine cannot see it)",
	`K2:meta.compiler.compile/x.(Leafable)`:                                 "inside `if x, ok := o.(HasType)`: HasType implementers are Leaf, LeafList, Any, Typedef (all Leafable) and ReplaceDeviate, which compile() is never called with (deviations are applied, not compiled)",
	`K2:meta.compiler.findTypedef/m.Parent().(Definition)`:                  rSubmodule,
	`K2:meta.resolver.findGrouping/m.Parent().(Definition)`:                 rSubmodule,
	`K2:meta.findModuleAndIsExternal/m.parent.(*Module)`:                    rSubmodule,
	`K2:meta.resolver.applyDeviation/hasType.(HasDefaultValue)`:             rDevGuard + "; among Leafables only LeafList (taken by the HasDefaultValues branch) and Any (rejected) lack HasDefaultValue",
	`K2:meta.resolver.applyDeviation/target.(*List)`:                        rDevGuard,
	`K2:meta.resolver.applyDeviation/target.(HasMusts)`:                     rDevGuard,
	`K2:meta.resolver.applyDeviation/target.(HasDetails)[ok discarded]`:     rDevGuard,
	`K2:meta.resolver.applyDeviation/target.(HasListDetails)[ok discarded]`: rDevGuard,
	`K2:meta.resolver.applyDeviation/target.(Leafable)[ok discarded]`:       rDevGuard,
	`K2:meta.resolver.applyDeviation/target.Parent().(HasActions)`:          rSchema + ": in the `case *Rpc` branch; an rpc/action's parent is a module, container, list, grouping or augment",
	`K2:meta.resolver.applyDeviation/target.Parent().(HasNotifications)`:    rSchema + ": in the `case *Notification` branch",
	`K2:meta.resolver.applyRefinements/parent.(HasDataDefinitions)`:         "the only caller, expandUses, passes its own HasDataDefinitions parameter",
	`K2:meta.resolver.expandAugment/parent.(HasDataDefinitions)`:            "callers pass the module (resolver.module) or expandUses' HasDataDefinitions parent",
	`K2:meta.resolver.cloneDefs/copy[i].(HasWhen)`:                          "every cloneable data definition a grouping can hold (container, list, leaf, leaf-list, choice, anyxml, uses) implements HasWhen",
	`K2:parser.parser.parseModule/l.stack.peek().(*meta.Module)`:            rGrammar + ": reached only when yyParse returned 0, i.e. the start symbol module/submodule was reduced, whose first action pushes the *Module that every later *_def pop leaves at the bottom (grammar rule D3 stack balance)",
	`K2:parser.yyParserImpl.Parse/l.stack.pop().(*meta.Extension)`:          rGrammar + ": the matching push of the *Extension is in the same production's mid-rule action",

	// ---- K4 -------------------------------------------------------------------
	`K4:meta.Builder.Extension/ids[1]`: "the lexer emits token_unknown only for identifiers with exactly one ':' (isPrefixedIdent), and the two grammar actions pass that token",
}
