package rules

import (
	"fmt"
	"go/token"
	"go/types"
	"sort"
	"strconv"
	"strings"

	"golang.org/x/tools/go/ssa"

	"verif/checker/internal/core"
)

// ---------------------------------------------------------------------------
// C01 — the compiled schema equals the RFC 7950 expansion.
// C02 — every leaf's effective type is the RFC 7950 derivation.
// ---------------------------------------------------------------------------

// fields of cloned structs that are shared between the copies on purpose.
var c01SharedOK = map[string]string{
	"parent":         "set to the new parent by clone itself",
	"originalParent": "points to where the definition was written (lexical scope for typedef/grouping lookup); must be shared",
	"configPtr":      "setConfig installs a fresh *bool per node (never writes through the pointer)",
	"mandatoryPtr":   "setMandatory installs a fresh pointer per node",
	"minElementsPtr": "setMinElements installs a fresh pointer per node",
	"maxElementsPtr": "setMaxElements installs a fresh pointer per node",
	"unboundedPtr":   "setUnbounded installs a fresh pointer per node",
	"defaultVal":     "setDefault installs a fresh *string per node",
	"presence":       "string",
	"when":           "cloneDefs gives every copied node its own copy of the uses' when (rule when-per-node); a when written on the node itself is never written after parse",
	"ifs":            "if-feature expressions are evaluated, never written, after parse",
	"extensions":     "extension statements are compiled in place once: copies share the definition, which is what they must resolve to",
	"typedefs":       "typedefs are scoped definitions looked up through originalParent; they are compiled once and shared",
	"groupings":      "groupings are templates: only read after parse",
	"key":            "[]string, never written after parse",
	"keyMeta":        "recomputed by compiler.list for each list from its own children",
	"unique":         "written only by applyDeviation on the deviation's target, after expansion, addressed by path",
	"defaultVals":    "[]string; replaced, never appended, after parse",
	"augments":       "augment statements of a uses/module are templates: read and cloned, never written",
	"refines":        "refine statements are read only",
	"schemaId":       "scalar",
	"input":          "re-allocated by Rpc.clone",
	"output":         "re-allocated by Rpc.clone",
	"derived":        "identities are not cloned",
	"delegate":       "points at the resolved type (itself for non-leafref); assigned by compileType per Type copy",
}

// types whose generated clone() is never invoked while expanding a uses or an augment.
var c01NeverCloned = map[string]string{
	"Module":    "modules are loaded, not copied; no call site of clone has a *Module receiver (rule clone-receivers)",
	"Extension": "extension statements are shared between copies (field `extensions` is in the shared table)",
	"Grouping":  "groupings are templates reached through the shared `groupings` map; nested groupings are not re-instantiated",
	"Augment":   "expandAugment clones the augment's children into the target, never the augment itself",
}

// cloneFuncs discovers the clone() methods of package meta.
func cloneFuncs(ctx *core.Ctx) []*ssa.Function {
	var out []*ssa.Function
	for _, f := range ctx.RepoFuncs() {
		if core.FnPkgPath(f) == core.Full("meta") && f.Name() == "clone" && f.Signature.Recv() != nil && f.Parent() == nil {
			out = append(out, f)
		}
	}
	sort.Slice(out, func(i, j int) bool { return core.FnName(out[i]) < core.FnName(out[j]) })
	return out
}

func isRefType(t types.Type) bool {
	switch t.Underlying().(type) {
	case *types.Pointer, *types.Slice, *types.Map, *types.Interface:
		return true
	}
	return false
}

func C01(ctx *core.Ctx, r *core.Report) {
	r.Explanation = "Structure of the expansion algorithm, decided on all paths: every clone() re-allocates each reference-typed field of its struct or the field is in a frozen table of fields that are shared on purpose (with the reason why nothing writes through them after parse) — so copies of a grouping are independent; every field a uses, refine or augment statement stores is read by the expansion; the phases run in the order includes ≺ imports ≺ own uses ≺ augments ≺ deviations and, inside a uses, copy ≺ refine ≺ uses-augment ≺ end of the recursion guard; the recursion guard is set before and cleared after the recursive expansion; config is inherited from the parent when unset and config true under config false is an error. The fields clone() leaves shared are never written through after parse (no store through a shared pointer, no element store into a shared slice, no map update outside the parser/Builder), and the resolver's in-progress table that recognises a recursive uses is keyed by the grouping's identity, not its name. Not decided: that the expanded tree equals the inline tree, scoping of names across submodules/imports, order of augments from several modules."
	c01CloneIndependence(ctx, r, false)
	c01NoWriteThroughShared(ctx, r)
	c01RecursionGuardByIdentity(ctx, r)
	c01DirectiveCoverage(ctx, r)
	c01PhaseOrder(ctx, r)
	c01FeaturesAfterIncludes(ctx, r)
	c01RecursionGuard(ctx, r)
	c01ConfigInheritance(ctx, r)
	c01InsertsACopy(ctx, r)
	c02OwnPrefixIsLocal(ctx, r)
	c06RefineAppliesToTarget(ctx, r)
	impliedCasePerNode(ctx, r)
	c01SubmoduleMergeComplete(ctx, r)
	c01AugmentUsesExpandedFirst(ctx, r)
	c01CaseMembersIndexedInHolder(ctx, r)
	c11InitializeMerges(ctx, r)
	r.Count("instances:lost-update(read-modify-write of a field)", lostUpdate(ctx, r, scopeFuncs(ctx, "meta", "resolver.go", "compile.go", "builder.go", "core.go", "core_gen.go")))
	r.Count("instances:textual-order-kept(sort calls examined)", textualOrderKept(ctx, r, scopeFuncs(ctx, "meta")))
	// a refine (or any sibling) switched off by if-feature must not take the following ones with it
	if check := ctx.Fn("meta", "checkFeature"); check != nil {
		c11OffSkipsOnlyItem(ctx, r, check)
	}
	r.Count("instances:memo-key-complete(tables found)", memoKeyComplete(ctx, r, scopeFuncs(ctx, "meta", "resolver.go", "util.go", "find.go", "builder.go")))
}

// c01CloneIndependence: typeOnly restricts the report to the dtype field (C02).
func c01CloneIndependence(ctx *core.Ctx, r *core.Report, typeOnly bool) {
	n := 0
	for _, f := range cloneFuncs(ctx) {
		recvT := core.NamedOf(f.Signature.Recv().Type())
		if recvT == nil {
			continue
		}
		if reason, skip := c01NeverCloned[recvT.Obj().Name()]; skip {
			if !typeOnly {
				r.Infof("clone() of meta.%s is generated but not part of an expansion: %s", recvT.Obj().Name(), reason)
			}
			continue
		}
		st, ok := recvT.Underlying().(*types.Struct)
		if !ok {
			continue
		}
		// the local copy: an Alloc of the struct type that receives `*m`
		var cp *ssa.Alloc
		core.Instrs(f, func(_ *ssa.BasicBlock, in ssa.Instruction) {
			if al, ok := in.(*ssa.Alloc); ok && core.NamedOf(al.Type()) == recvT {
				cp = al
			}
		})
		if cp == nil {
			r.Ob("clone-independence", "meta."+recvT.Obj().Name()+".clone/copy", ctx.Pos(f.Pos()), false, "clone() does not build a copy of its receiver")
			continue
		}
		assigned := map[string]bool{}
		for _, ref := range *cp.Referrers() {
			if fa, ok := ref.(*ssa.FieldAddr); ok {
				for _, r2 := range *fa.Referrers() {
					if _, isStore := r2.(*ssa.Store); isStore {
						assigned[st.Field(fa.Field).Name()] = true
					}
				}
			}
		}
		for i := 0; i < st.NumFields(); i++ {
			fld := st.Field(i)
			if !isRefType(fld.Type()) {
				continue
			}
			if typeOnly != (fld.Name() == "dtype") {
				continue
			}
			n++
			key := "meta." + recvT.Obj().Name() + "." + fld.Name()
			if assigned[fld.Name()] {
				r.Ob("clone-independence", key, ctx.Pos(fld.Pos()), true, "re-allocated by clone()")
				continue
			}
			if reason, ok := c01SharedOK[fld.Name()]; ok {
				r.Ob("clone-independence", key, ctx.Pos(fld.Pos()), true, "shared on purpose: "+reason)
				continue
			}
			// collection fields that hold child definitions must be deep-copied
			r.Ob("clone-independence", key, ctx.Pos(fld.Pos()), false,
				"clone() leaves this reference field shared between the original and the copy: what resolve/compile later writes through it (or adds to it) for one use of the grouping shows up in every other use")
		}
	}
	if !typeOnly {
		r.Floor("clone-independence", n, 60)
	} else {
		r.Floor("clone-independence(dtype)", n, 2)
	}
}

// c01DirectiveCoverage: every field of Uses / Refine / Augment that is stored
// somewhere in package meta is loaded by a function reachable from resolve.
func c01DirectiveCoverage(ctx *core.Ctx, r *core.Report) {
	resolve := ctx.Fn("meta", "resolve")
	if resolve == nil {
		r.Fatalf("anchor meta.resolve not found")
		return
	}
	reach := ctx.Reachable(ctx.CG(), []*ssa.Function{resolve}, nil)
	loadReach := ctx.Reachable(ctx.CG(), loadRoots(ctx, r), nil)
	n := 0
	for _, t := range []string{"Uses", "Refine", "Augment"} {
		named := ctx.Named("meta", t)
		if named == nil {
			r.Fatalf("anchor meta.%s not found", t)
			continue
		}
		st := named.Underlying().(*types.Struct)
		written, read := map[string]bool{}, map[string]bool{}
		for _, f := range ctx.RepoFuncs() {
			if core.FnPkgPath(f) != core.Full("meta") {
				continue
			}
			if !loadReach.Set[f] {
				continue // e.g. generated setters nobody calls
			}
			inResolve := reach.Set[f]
			core.Instrs(f, func(_ *ssa.BasicBlock, in ssa.Instruction) {
				fa, ok := in.(*ssa.FieldAddr)
				if !ok || core.NamedOf(fa.X.Type()) != named {
					return
				}
				name := st.Field(fa.Field).Name()
				for _, ref := range *fa.Referrers() {
					switch x := ref.(type) {
					case *ssa.Store:
						if x.Addr == ssa.Value(fa) {
							written[name] = true
						}
					case *ssa.UnOp:
						if inResolve {
							read[name] = true
						}
					}
				}
			})
		}
		var names []string
		for w := range written {
			names = append(names, w)
		}
		sort.Strings(names)
		for _, fld := range names {
			switch fld {
			case "parent", "originalParent", "extensions", "schemaId", "desc", "ref", "status":
				continue // documentation / bookkeeping, not part of the expansion
			}
			n++
			r.Ob("directive-field-coverage", "meta."+t+"."+fld, ctx.Pos(named.Obj().Pos()), read[fld],
				"the statement stores "+fld+" but nothing reachable from resolve() reads it: that part of the "+strings.ToLower(t)+" is silently not applied")
		}
	}
	r.Floor("directive-field-coverage", n, 15)
}

// firstCall: the first (dominating) call in f satisfying pred.
func firstCall(f *ssa.Function, pred func(ssa.CallInstruction) bool) ssa.CallInstruction {
	var best ssa.CallInstruction
	for _, c := range core.CallSites(f) {
		if !pred(c) {
			continue
		}
		if best == nil || instrDominates(c, best) {
			best = c
		}
	}
	return best
}

func namedCall(name string) func(ssa.CallInstruction) bool {
	return func(c ssa.CallInstruction) bool {
		if cal := core.StaticCallee(c); cal != nil && core.FnName(cal) == name {
			return true
		}
		return false
	}
}

func c01PhaseOrder(ctx *core.Ctx, r *core.Report) {
	mod := ctx.Method("meta", "resolver", "module")
	if mod == nil {
		r.Fatalf("anchor meta.resolver.module not found")
		return
	}
	phases := []struct {
		name string
		pred func(ssa.CallInstruction) bool
	}{
		{"includes (copyOverIncludes)", namedCall("meta.resolver.copyOverIncludes")},
		{"imports (recursive resolver.module)", namedCall("meta.resolver.module")},
		{"own uses (resolver.enter)", namedCall("meta.resolver.enter")},
		{"module augments (expandAugment)", namedCall("meta.resolver.expandAugment")},
		{"deviations (applyDeviation)", namedCall("meta.resolver.applyDeviation")},
	}
	var prev ssa.CallInstruction
	prevName := ""
	for _, ph := range phases {
		c := firstCall(mod, ph.pred)
		if c == nil {
			r.Ob("phase-order", "meta.resolver.module/"+ph.name, ctx.Pos(mod.Pos()), false, "phase "+ph.name+" is no longer run by resolver.module")
			continue
		}
		if prev != nil {
			// every call of the earlier phase precedes: the later phase's first call is not reachable before it,
			// and control cannot flow back from the later phase to the earlier one
			ok := !instrDominates(c, prev) && !reachableAvoiding(c.Block(), prev.Block(), nil) && c.Block() != prev.Block() || (c.Block() == prev.Block() && instrIndex(prev) < instrIndex(c))
			r.Ob("phase-order", "meta.resolver.module/"+prevName+" ≺ "+ph.name, ctx.Pos(c.Pos()), ok,
				"the phases of module resolution run in another order: "+ph.name+" can run before "+prevName+" has finished (targets created by the earlier phase do not exist yet)")
		}
		prev, prevName = c, ph.name
	}
	// expandUses
	eu := ctx.Method("meta", "resolver", "expandUses")
	if eu == nil {
		r.Fatalf("anchor meta.resolver.expandUses not found")
		return
	}
	steps := []struct {
		name string
		pred func(ssa.CallInstruction) bool
	}{
		{"copy (cloneDefs)", namedCall("meta.resolver.cloneDefs")},
		{"add copies (addDefinitions)", namedCall("meta.resolver.addDefinitions")},
		{"refine (applyRefinements)", namedCall("meta.resolver.applyRefinements")},
		{"uses-augment (expandAugment)", namedCall("meta.resolver.expandAugment")},
		{"end of recursion guard (delete inProgressUses)", func(c ssa.CallInstruction) bool {
			bi, ok := c.Common().Value.(*ssa.Builtin)
			return ok && bi.Name() == "delete"
		}},
	}
	prev, prevName = nil, ""
	for _, stp := range steps {
		c := firstCall(eu, stp.pred)
		if c == nil {
			r.Ob("phase-order", "meta.resolver.expandUses/"+stp.name, ctx.Pos(eu.Pos()), false, "step "+stp.name+" is no longer part of expandUses")
			continue
		}
		if prev != nil {
			ok := (c.Block() == prev.Block() && instrIndex(prev) < instrIndex(c)) || (c.Block() != prev.Block() && !reachableAvoiding(c.Block(), prev.Block(), nil))
			r.Ob("phase-order", "meta.resolver.expandUses/"+prevName+" ≺ "+stp.name, ctx.Pos(c.Pos()), ok,
				"the steps of a uses expansion run in another order: "+stp.name+" can run before "+prevName)
		}
		prev, prevName = c, stp.name
	}
}

// c01RecursionGuard: inProgressUses[g] is set before the recursive expansion
// and deleted after it on the success path.
func c01RecursionGuard(ctx *core.Ctx, r *core.Report) {
	eu := ctx.Method("meta", "resolver", "expandUses")
	if eu == nil {
		return
	}
	var mark *ssa.MapUpdate
	var lookup *ssa.Lookup
	core.Instrs(eu, func(_ *ssa.BasicBlock, in ssa.Instruction) {
		switch x := in.(type) {
		case *ssa.MapUpdate:
			if condFieldName(x.Map) == "inProgressUses" {
				mark = x
			}
		case *ssa.Lookup:
			if condFieldName(x.X) == "inProgressUses" && x.CommaOk {
				lookup = x
			}
		}
	})
	rec := firstCall(eu, namedCall("meta.resolver.addDefinitions"))
	del := firstCall(eu, func(c ssa.CallInstruction) bool {
		bi, ok := c.Common().Value.(*ssa.Builtin)
		return ok && bi.Name() == "delete" && len(c.Common().Args) > 0 && condFieldName(c.Common().Args[0]) == "inProgressUses"
	})
	ok, msg := mark != nil && lookup != nil && rec != nil && del != nil, "the recursion guard (lookup, mark, delete on resolver.inProgressUses) is incomplete"
	if ok {
		switch {
		case !instrDominates(lookup, mark):
			ok, msg = false, "the grouping is marked in progress before it is tested"
		case !instrDominates(mark, rec):
			ok, msg = false, "the recursive expansion starts before the grouping is marked in progress: a grouping that uses itself recurses forever"
		case !instrDominates(rec, del):
			ok, msg = false, "the in-progress mark is removed before the recursive expansion"
		default:
			// every successful return passes the delete
			for _, ret := range core.Returns(eu) {
				ops := core.RetOperands(ret)
				if core.IsNilConst(ops[len(ops)-1]) && instrDominates(mark, ret) && !instrDominates(del, ret) {
					ok, msg = false, "a successful return leaves the grouping marked in progress: the next uses of it is treated as recursive and deferred forever"
				}
			}
			// the recursive branch (found in progress) must defer, not expand
			deferred := false
			dl := ctx.Method("meta", "resolver", "delayRecursiveUses")
			for _, c := range callsStatic(eu, dl, false) {
				for _, pc := range core.PathConds(c.Block()) {
					if dependsOn(pc.V, lookup, 0) && pc.True {
						deferred = true
					}
				}
			}
			if !deferred {
				ok, msg = false, "a grouping found in progress is not deferred (delayRecursiveUses)"
			}
		}
	}
	r.Ob("recursion-guard", "meta.resolver.expandUses/inProgressUses", ctx.Pos(eu.Pos()), ok, msg)
}

func c01ConfigInheritance(ctx *core.Ctx, r *core.Report) {
	comp := ctx.Method("meta", "compiler", "compile")
	inh := ctx.Method("meta", "compiler", "inheritConfig")
	if comp == nil || inh == nil {
		r.Fatalf("anchors meta.compiler.compile / inheritConfig not found")
		return
	}
	// setConfig(inheritConfig(parent)) on the unset edge
	okInherit := false
	var isSet ssa.CallInstruction
	for _, c := range core.CallSites(comp) {
		if m := core.IfaceMethod(c); m != nil && m.Name() == "IsConfigSet" {
			isSet = c
		}
	}
	for _, c := range core.CallSites(comp) {
		m := core.IfaceMethod(c)
		if m == nil || m.Name() != "setConfig" || isSet == nil {
			continue
		}
		arg := c.Common().Args[0]
		if call, ok := arg.(*ssa.Call); ok && core.IsCallTo(call, inh) {
			for _, pc := range core.PathConds(c.Block()) {
				if dependsOn(pc.V, isSet.Value(), 0) {
					// `!x.IsConfigSet()` true, or IsConfigSet false
					if _, isNot := pc.V.(*ssa.UnOp); isNot == pc.True {
						okInherit = true
					}
				}
			}
		}
	}
	r.Ob("config-inheritance", "meta.compiler.compile/inherit-when-unset", ctx.Pos(comp.Pos()), okInherit,
		"a node that does not state config must get setConfig(inheritConfig(parent)) exactly when IsConfigSet() is false")
	// config true under config false is an error
	okErr := false
	for _, ef := range errorfCalls(comp) {
		if !strings.Contains(ef.Format, "config") {
			continue
		}
		nCfg := 0
		for _, pc := range core.PathConds(ef.Call.Block()) {
			if c, ok := pc.V.(*ssa.Call); ok {
				if m := core.IfaceMethod(c); m != nil && m.Name() == "Config" {
					nCfg++
				}
			}
			if u, ok := pc.V.(*ssa.UnOp); ok {
				if c, ok := u.X.(*ssa.Call); ok {
					if m := core.IfaceMethod(c); m != nil && m.Name() == "Config" {
						nCfg++
					}
				}
			}
		}
		if nCfg >= 1 {
			okErr = true
		}
	}
	r.Ob("config-inheritance", "meta.compiler.compile/true-under-false-is-error", ctx.Pos(comp.Pos()), okErr, "config true beneath config false must be rejected")
	// inheritConfig: memoises on the ancestor and returns true at the top
	topTrue := false
	for _, ret := range core.Returns(inh) {
		if c, ok := core.RetOperands(ret)[0].(*ssa.Const); ok && c.Value != nil && c.Value.String() == "true" {
			topTrue = true
		}
	}
	recurses := len(callsStatic(inh, inh, false)) == 1
	r.Ob("config-inheritance", "meta.compiler.inheritConfig", ctx.Pos(inh.Pos()), topTrue && recurses, "inheritConfig must walk to the nearest ancestor that states config and default to true at the top")
}

func C02(ctx *core.Ctx, r *core.Report) {
	r.Explanation = "Structure of type compilation, decided on all paths: every clone() of a typed node gives the copy its own *Type, so the early return of compileType for an already compiled type cannot bypass another leaf's inheritance; on the typedef branch compileType mixes the typedef's restrictions in, inherits the default only when the leaf has none and the typedef has one, inherits units only when the leaf has none; every successful return of compileType has assigned the type's delegate (so Resolve() cannot panic); every restriction field a type statement stores is read from the base type by Type.mixin. An append whose result is stored in an object's field extends that same object's slice (never another Type's ranges/patterns with spare capacity); clone() gives a typed copy its own Type under no condition but dtype != nil; the scope handed to a prefix lookup never derives from an earlier lookup's result. Not decided: that the derived restriction set is the RFC one (mixin replaces patterns instead of accumulating them), enum/bit numbering, leafref path resolution, identity closure."
	c01CloneIndependence(ctx, r, true)
	c02AppendOwnSlice(ctx, r)
	c02CloneTypeUnconditional(ctx, r)
	c02CloneUnionMembers(ctx, r)
	c02LookupScope(ctx, r)
	c02OwnPrefixIsLocal(ctx, r)
	c02Inheritance(ctx, r)
	c02MixinCoverage(ctx, r)
	c02WhenPerNode(ctx, r)
	c02AbsolutePathFromRoot(ctx, r)
	c02RestrictedEnumKeepsValue(ctx, r)
	c02ExplicitNumberByFlag(ctx, r)
	r.Count("instances:append-aliasing(found)", appendAliasing(ctx, r, scopeFuncs(ctx, "meta")))
	r.Count("instances:visited-guard-only", visitedGuardOnly(ctx, r, scopeFuncs(ctx, "meta")))
	r.Count("instances:memo-key-complete(tables found)", memoKeyComplete(ctx, r, scopeFuncs(ctx, "meta", "compile.go", "core.go", "core_gen.go", "util.go")))
}

func c02Inheritance(ctx *core.Ctx, r *core.Report) {
	ct := ctx.Method("meta", "compiler", "compileType")
	mixin := ctx.Method("meta", "Type", "mixin")
	ft := ctx.Method("meta", "compiler", "findTypedef")
	if ct == nil || mixin == nil || ft == nil {
		r.Fatalf("anchors compiler.compileType / Type.mixin / compiler.findTypedef not found")
		return
	}
	y := ct.Params[1]
	ftc := callsStatic(ct, ft, false)
	mx := callsStatic(ct, mixin, false)
	ok := len(ftc) == 1 && len(mx) == 1 && instrDominates(ftc[0], mx[0])
	if ok {
		// tdef.dtype.mixin(y): argument is the type being compiled
		a := mx[0].Common().Args
		ok = len(a) == 2 && core.IsParam(a[1], y)
	}
	r.Ob("typedef-inheritance", "meta.compiler.compileType/mixin", ctx.Pos(ct.Pos()), ok, "on the typedef branch the typedef's type must be mixed into the type being compiled (tdef.dtype.mixin(y))")
	// default: parent.setDefaultValue guarded by !parent.HasDefault() and tdef.HasDefault()
	for _, spec := range []struct{ setter, guard, what string }{
		{"setDefaultValue", "HasDefault", "default"},
		{"setUnits", "Units", "units"},
	} {
		var set ssa.CallInstruction
		for _, c := range core.CallSites(ct) {
			if m := core.IfaceMethod(c); m != nil && m.Name() == spec.setter {
				set = c
			}
		}
		okc, msg := set != nil, "compileType no longer inherits the "+spec.what+" of the typedef"
		if okc {
			// the leaf being compiled: the Leafable parameter
			var leafParam *ssa.Parameter
			for _, p := range ct.Params {
				if n := core.NamedOf(p.Type()); n != nil && n.Obj().Name() == "Leafable" {
					leafParam = p
				}
			}
			guards, leafHasNone := 0, false
			for _, pc := range core.PathConds(set.Block()) {
				for _, c := range core.CallSites(ct) {
					isGuard := false
					if m := core.IfaceMethod(c); m != nil && m.Name() == spec.guard {
						isGuard = true
					}
					if cal := core.StaticCallee(c); cal != nil && cal.Name() == spec.guard {
						isGuard = true
					}
					if !isGuard || !dependsOn(pc.V, c.Value(), 0) {
						continue
					}
					guards++
					// is this the test that the LEAF states none, on the side where it states none?
					if leafParam == nil || !c.Common().IsInvoke() || !core.IsParam(c.Common().Value, leafParam) {
						continue
					}
					switch cond := pc.V.(type) {
					case *ssa.BinOp: // Units() == ""
						other := cond.Y
						if core.Strip(cond.Y) == c.Value() {
							other = cond.X
						}
						if sv, isStr := core.ConstString(other); isStr && sv == "" {
							if (cond.Op == token.EQL) == pc.True {
								leafHasNone = true
							}
						}
					case *ssa.UnOp: // !HasDefault()
						if cond.Op == token.NOT && pc.True {
							leafHasNone = true
						}
					default: // HasDefault() on the false edge
						if pc.V == c.Value() && !pc.True {
							leafHasNone = true
						}
					}
				}
			}
			want := 1
			if spec.setter == "setDefaultValue" {
				want = 2 // leaf has none AND typedef has one
			}
			if guards < want {
				okc, msg = false, fmt.Sprintf("the inherited %s is installed without testing that the leaf states none (explicit value must win): %d of %d guards found", spec.what, guards, want)
			} else if !leafHasNone {
				okc, msg = false, fmt.Sprintf("the typedef's %s is installed without the test that the leaf itself states none, on the side where it states none: a %s written on the leaf (or on a nearer typedef) is overwritten by the one of the typedef further away", spec.what, spec.what)
			}
			// only outside unions
			if !instrDominates(mx[0], set) {
				okc, msg = false, "the "+spec.what+" is inherited before the typedef was found"
			}
		}
		r.Ob("typedef-inheritance", "meta.compiler.compileType/"+spec.what, ctx.Pos(ct.Pos()), okc, msg)
	}
	// delegate assigned on every success path (other than the memo return for an already compiled type)
	var delegateStores []*ssa.Store
	core.Instrs(ct, func(_ *ssa.BasicBlock, in ssa.Instruction) {
		if st, ok := in.(*ssa.Store); ok {
			if fa, ok := st.Addr.(*ssa.FieldAddr); ok {
				if s, isSt := core.Deref(fa.X.Type()).Underlying().(*types.Struct); isSt && s.Field(fa.Field).Name() == "delegate" && core.IsParam(fa.X, y) {
					delegateStores = append(delegateStores, st)
				}
			}
		}
	})
	okDel := len(delegateStores) >= 2
	msgDel := fmt.Sprintf("%d stores to the type's delegate (leafref target and self)", len(delegateStores))
	nRet := 0
	for _, ret := range core.Returns(ct) {
		ops := core.RetOperands(ret)
		if !core.IsNilConst(ops[0]) {
			continue
		}
		// the memo return: dominated by `format != 0`
		memo := false
		for _, pc := range core.PathConds(ret.Block()) {
			if bo, isBo := pc.V.(*ssa.BinOp); isBo && bo.Op == token.NEQ && pc.True && isZero(bo.Y) && condFieldName(bo.X) == "format" {
				memo = true // `if int(y.format) != 0 { … return nil }`: already compiled
			}
		}
		if memo {
			continue
		}
		nRet++
		covered := false
		// the stores are the two arms of the leafref test: together they cover the return
		for _, st := range delegateStores {
			if instrDominates(st, ret) {
				covered = true
			}
		}
		if !covered && len(delegateStores) >= 2 {
			// both arms precede: no path from entry to ret avoiding all store blocks
			avoid := map[*ssa.BasicBlock]bool{}
			for _, st := range delegateStores {
				avoid[st.Block()] = true
			}
			covered = !reachAvoidingSet(ct.Blocks[0], ret.Block(), avoid)
		}
		if !covered {
			okDel, msgDel = false, "a successful return of compileType can be reached without the type's delegate having been assigned: Type.Resolve() panics (\"no delegate\") on such a type"
		}
	}
	if nRet == 0 {
		okDel, msgDel = false, "no successful return found"
	}
	r.Ob("leafref-delegate", "meta.compiler.compileType/delegate", ctx.Pos(ct.Pos()), okDel, msgDel)
}

func reachAvoidingSet(from, to *ssa.BasicBlock, avoid map[*ssa.BasicBlock]bool) bool {
	if avoid[from] {
		return false
	}
	seen := map[*ssa.BasicBlock]bool{from: true}
	q := []*ssa.BasicBlock{from}
	for len(q) > 0 {
		b := q[0]
		q = q[1:]
		if b == to {
			return true
		}
		for _, s := range b.Succs {
			if !avoid[s] && !seen[s] {
				seen[s] = true
				q = append(q, s)
			}
		}
	}
	return false
}

// c02MixinCoverage: restriction fields of Type stored by the builder are read from base in mixin.
func c02MixinCoverage(ctx *core.Ctx, r *core.Report) {
	mixin := ctx.Method("meta", "Type", "mixin")
	typeT := ctx.Named("meta", "Type")
	if mixin == nil || typeT == nil {
		return
	}
	st := typeT.Underlying().(*types.Struct)
	base := mixin.Params[0]
	readFromBase := map[string]bool{}
	core.Instrs(mixin, func(_ *ssa.BasicBlock, in ssa.Instruction) {
		fa, ok := in.(*ssa.FieldAddr)
		if !ok || !core.IsParam(fa.X, base) {
			return
		}
		for _, ref := range *fa.Referrers() {
			if u, ok := ref.(*ssa.UnOp); ok && u.Op == token.MUL {
				readFromBase[st.Field(fa.Field).Name()] = true
			}
		}
	})
	// fields the builder stores into a Type
	written := map[string]bool{}
	for _, f := range ctx.RepoFuncs() {
		if core.FnPkgPath(f) != core.Full("meta") {
			continue
		}
		recv := f.Signature.Recv()
		if recv == nil || core.NamedOf(recv.Type()) == nil || core.NamedOf(recv.Type()).Obj().Name() != "Builder" {
			continue
		}
		core.Instrs(f, func(_ *ssa.BasicBlock, in ssa.Instruction) {
			if s, ok := in.(*ssa.Store); ok {
				if fa, ok := s.Addr.(*ssa.FieldAddr); ok && core.NamedOf(fa.X.Type()) == typeT {
					written[st.Field(fa.Field).Name()] = true
				}
			}
		})
	}
	var names []string
	for w := range written {
		names = append(names, w)
	}
	sort.Strings(names)
	n := 0
	for _, fld := range names {
		switch fld {
		case "ident", "desc", "ref", "extensions":
			continue // the type statement's own name and documentation
		}
		n++
		r.Ob("mixin-coverage", "meta.Type."+fld, ctx.Pos(mixin.Pos()), readFromBase[fld],
			"a type statement can state "+fld+" but Type.mixin does not read it from the base type: a leaf using a typedef does not inherit it")
	}
	r.Floor("mixin-coverage", n, 9)
}

// c02WhenPerNode: cloneDefs hands each copied node its own *When.
func c02WhenPerNode(ctx *core.Ctx, r *core.Report) {
	cd := ctx.Method("meta", "resolver", "cloneDefs")
	if cd == nil {
		r.Fatalf("anchor meta.resolver.cloneDefs not found")
		return
	}
	when := paramNamed(cd, "when")
	ok := false
	for _, c := range core.CallSites(cd) {
		if m := core.IfaceMethod(c); m != nil && m.Name() == "setWhen" {
			a := c.Common().Args[0]
			// must not be the parameter itself: a fresh copy (Alloc) per iteration
			if !core.IsParam(a, when) {
				if _, isAlloc := a.(*ssa.Alloc); isAlloc {
					ok = true
				}
			}
		}
	}
	r.Ob("when-per-node", "meta.resolver.cloneDefs", ctx.Pos(cd.Pos()), ok,
		"the single *When of a uses statement is handed to every copied node; setWhen re-parents it each time, so all copies share one when whose parent is the last node")
}

// c01NoWriteThroughShared: the fields that clone() leaves shared may be
// replaced per node but never written through: no store in package meta goes
// through the pointer held in such a field (`*m.configPtr = c`), updates a map
// held in it after parse, or assigns an element of a slice held in it.
func c01NoWriteThroughShared(ctx *core.Ctx, r *core.Report) {
	metaPkg := ctx.TPkg("meta")
	cloned := map[*types.Named]bool{}
	for _, f := range cloneFuncs(ctx) {
		if n := core.NamedOf(f.Signature.Recv().Type()); n != nil {
			if _, skip := c01NeverCloned[n.Obj().Name()]; !skip {
				cloned[n] = true
			}
		}
	}
	// a function runs after parse when some caller of it is neither the
	// parser nor meta's Builder
	afterParse := func(f *ssa.Function) bool {
		node := ctx.CG().Nodes[f]
		if node == nil {
			return true
		}
		for _, e := range node.In {
			c := e.Caller.Func
			if core.FnPkgPath(c) == core.Full("parser") {
				continue
			}
			if core.FnPkgPath(c) == core.Full("meta") && strings.HasSuffix(ctx.File(c.Pos()), "builder.go") {
				continue
			}
			return true
		}
		return false
	}
	n := 0
	for _, f := range ctx.RepoFuncs() {
		if core.FnPkgPath(f) != core.Full("meta") || f.Name() == "clone" {
			continue
		}
		core.Instrs(f, func(_ *ssa.BasicBlock, in ssa.Instruction) {
			var through ssa.Value
			kind := ""
			switch x := in.(type) {
			case *ssa.Store:
				switch a := x.Addr.(type) {
				case *ssa.UnOp: // *ptrField = v
					through, kind = a, "store through the pointer"
				case *ssa.IndexAddr: // sliceField[i] = v
					through, kind = a.X, "element store into the slice"
				}
			case *ssa.MapUpdate:
				// maps filled while parsing are fine; only post-parse updates count
				if afterParse(f) {
					through, kind = x.Map, "map update after parse on the map"
				}
			}
			if through == nil {
				return
			}
			u, ok := through.(*ssa.UnOp)
			if !ok || u.Op != token.MUL {
				return
			}
			fa, ok := u.X.(*ssa.FieldAddr)
			if !ok {
				return
			}
			named := core.NamedOf(fa.X.Type())
			if named == nil || named.Obj().Pkg() != metaPkg || !cloned[named] {
				return
			}
			st := named.Underlying().(*types.Struct)
			fld := st.Field(fa.Field).Name()
			if _, shared := c01SharedOK[fld]; !shared {
				return // re-allocated by clone: each copy has its own
			}
			if fld == "parent" || fld == "originalParent" {
				return
			}
			if reallocatedBefore(f, fa, in) {
				return // the field was given fresh storage earlier in this function
			}
			n++
			key := core.FnName(f) + "→" + named.Obj().Name() + "." + fld
			if reason, ok := c01WriteThroughOK[key]; ok {
				r.Ob("no-write-through-shared", key, ctx.Pos(in.Pos()), true, "triaged: "+reason)
				return
			}
			r.Ob("no-write-through-shared", key, ctx.Pos(in.Pos()), false,
				kind+" held in field "+fld+", which clone() shares between the copies of a grouping: the write shows up in every other use of the grouping (and in the template)")
		})
	}
	r.Count("write-through-shared sites", n)
}

var c01WriteThroughOK = map[string]string{}

// c02AppendOwnSlice: an append whose result is stored in a field of one object
// must extend a slice of that same object (or a fresh one): appending onto
// another object's slice can write into that slice's spare capacity, which
// every other holder of it sees.
func c02AppendOwnSlice(ctx *core.Ctx, r *core.Report) {
	n := 0
	for _, f := range ctx.RepoFuncs() {
		if core.FnPkgPath(f) != core.Full("meta") {
			continue
		}
		core.Instrs(f, func(_ *ssa.BasicBlock, in ssa.Instruction) {
			c, ok := in.(*ssa.Call)
			if !ok {
				return
			}
			bi, ok := c.Common().Value.(*ssa.Builtin)
			if !ok || bi.Name() != "append" || len(c.Common().Args) < 1 {
				return
			}
			first := c.Common().Args[0]
			fu, ok := first.(*ssa.UnOp)
			if !ok {
				return
			}
			ffa, ok := fu.X.(*ssa.FieldAddr)
			if !ok {
				return
			}
			for _, ref := range *c.Referrers() {
				st, ok := ref.(*ssa.Store)
				if !ok {
					continue
				}
				dfa, ok := st.Addr.(*ssa.FieldAddr)
				if !ok {
					continue
				}
				n++
				same := sameObject(dfa.X, ffa.X) && dfa.Field == ffa.Field
				r.Ob("append-own-slice", core.FnName(f)+"/"+valueSig(dfa), ctx.Pos(c.Pos()), same,
					"the result of appending onto "+valueSig(ffa)+" is stored in "+valueSig(dfa)+": when the first slice has spare capacity the append writes into storage that other holders of it (a shared typedef's type, another leaf) also see")
			}
		})
	}
	r.Floor("append-own-slice", n, 20)
}

// reallocatedBefore: a store of a fresh make()/literal into the same field of
// the same object dominates the instruction.
func reallocatedBefore(f *ssa.Function, fa *ssa.FieldAddr, at ssa.Instruction) bool {
	found := false
	core.Instrs(f, func(_ *ssa.BasicBlock, in ssa.Instruction) {
		st, ok := in.(*ssa.Store)
		if !ok {
			return
		}
		a, ok := st.Addr.(*ssa.FieldAddr)
		if !ok || a.Field != fa.Field || !sameObject(a.X, fa.X) {
			return
		}
		switch st.Val.(type) {
		case *ssa.MakeSlice, *ssa.MakeMap, *ssa.Alloc:
			if instrDominates(in, at) {
				found = true
			}
		}
	})
	return found
}

// sameObject: the two values denote the same object: identical, or the same
// type assertion of the same value.
func sameObject(a, b ssa.Value) bool {
	if a == b {
		return true
	}
	ta, ok1 := a.(*ssa.TypeAssert)
	tb, ok2 := b.(*ssa.TypeAssert)
	if ok1 && ok2 {
		return ta.X == tb.X && types.Identical(ta.AssertedType, tb.AssertedType)
	}
	return false
}

// c02CloneTypeUnconditional: every clone() of a definition that carries a type
// gives the copy its own *Type whenever the template has one: the store of the
// fresh Type into copy.dtype is controlled by nothing but `m.dtype != nil`.
// (compileType writes the inherited default/units/format into the Type; a copy
// that keeps the template's Type makes one leaf's inheritance visible in all.)
func c02CloneTypeUnconditional(ctx *core.Ctx, r *core.Report) {
	n := 0
	for _, f := range cloneFuncs(ctx) {
		named := core.NamedOf(f.Signature.Recv().Type())
		if named == nil {
			continue
		}
		st, ok := named.Underlying().(*types.Struct)
		if !ok {
			continue
		}
		idx := -1
		for i := 0; i < st.NumFields(); i++ {
			if st.Field(i).Name() == "dtype" {
				idx = i
			}
		}
		if idx < 0 {
			continue
		}
		n++
		key := "meta." + named.Obj().Name() + ".clone/dtype"
		var store *ssa.Store
		core.Instrs(f, func(_ *ssa.BasicBlock, in ssa.Instruction) {
			if s, ok := in.(*ssa.Store); ok {
				if fa, ok := s.Addr.(*ssa.FieldAddr); ok && fa.Field == idx && core.NamedOf(fa.X.Type()) == named {
					if _, fresh := s.Val.(*ssa.Alloc); fresh {
						store = s
					}
				}
			}
		})
		if store == nil {
			r.Ob("clone-type-unconditional", key, ctx.Pos(f.Pos()), false, "clone() does not give the copy a Type of its own")
			continue
		}
		bad := ""
		for _, pc := range core.PathConds(store.Block()) {
			if !isNilTestOfField(pc.V, f.Params[0], idx) {
				bad = "the copy gets its own Type only under a further condition (" + ctx.Pos(pc.If.Pos()) + "): on the other branch it keeps the template's Type, which every other copy compiles into"
			}
		}
		r.Ob("clone-type-unconditional", key, ctx.Pos(store.Pos()), bad == "", bad)
	}
	r.Floor("clone-type-unconditional", n, 2)
}

// isNilTestOfField: v is `recv.field != nil` / `== nil`.
func isNilTestOfField(v ssa.Value, recv *ssa.Parameter, field int) bool {
	b, ok := v.(*ssa.BinOp)
	if !ok || (b.Op != token.NEQ && b.Op != token.EQL) {
		return false
	}
	x, y := b.X, b.Y
	if core.IsNilConst(x) {
		x, y = y, x
	}
	if !core.IsNilConst(y) {
		return false
	}
	u, ok := x.(*ssa.UnOp)
	if !ok {
		return false
	}
	fa, ok := u.X.(*ssa.FieldAddr)
	return ok && fa.Field == field && core.IsParam(fa.X, recv)
}

// c02LookupScope: a prefixed name is resolved relative to the definition it is
// written in: the scope handed to findModuleAndIsExternal never derives from
// the result of an earlier lookup (a scope carried from one base/typedef name
// to the next resolves the second prefix against the first name's module).
func c02LookupScope(ctx *core.Ctx, r *core.Report) {
	find := ctx.Fn("meta", "findModuleAndIsExternal")
	if find == nil {
		r.Fatalf("anchor meta.findModuleAndIsExternal not found")
		return
	}
	n := 0
	for _, f := range ctx.RepoFuncs() {
		if core.FnPkgPath(f) != core.Full("meta") {
			continue
		}
		calls := callsStatic(f, find, false)
		for i, c := range calls {
			n++
			key := core.FnName(f)
			if i > 0 {
				key += "#" + strconv.Itoa(i+1)
			}
			bad := false
			for _, other := range calls {
				if dependsOn(c.Common().Args[0], other.Value(), 0) {
					bad = true
				}
			}
			r.Ob("lookup-scope", key, ctx.Pos(c.Pos()), !bad,
				"the scope of this prefix lookup comes from the result of an earlier lookup: the prefix is resolved against the wrong module's imports")
		}
	}
	r.Floor("lookup-scope", n, 4)
}

// c01RecursionGuardByIdentity: the resolver's in-progress table, which tells a
// recursive `uses` from a fresh one, is keyed by the grouping itself. Two
// groupings in different scopes may carry the same name; a table keyed by name
// (any non-pointer key) takes the second for a recursion of the first and
// leaves its content unexpanded.
func c01RecursionGuardByIdentity(ctx *core.Ctx, r *core.Report) {
	res := ctx.Named("meta", "resolver")
	exp := ctx.Method("meta", "resolver", "expandUses")
	if res == nil || exp == nil {
		r.Fatalf("anchors meta.resolver / resolver.expandUses not found")
		return
	}
	st := res.Underlying().(*types.Struct)
	n := 0
	// the map fields of resolver that expandUses both looks up and updates
	core.Instrs(exp, func(_ *ssa.BasicBlock, in ssa.Instruction) {
		mu, ok := in.(*ssa.MapUpdate)
		if !ok {
			return
		}
		u, ok := mu.Map.(*ssa.UnOp)
		if !ok {
			return
		}
		fa, ok := u.X.(*ssa.FieldAddr)
		if !ok || core.NamedOf(fa.X.Type()) != res {
			return
		}
		mt, ok := st.Field(fa.Field).Type().Underlying().(*types.Map)
		if !ok {
			return
		}
		n++
		_, ptr := mt.Key().Underlying().(*types.Pointer)
		r.Ob("recursion-guard-by-identity", "meta.resolver."+st.Field(fa.Field).Name(), ctx.Pos(mu.Pos()), ptr,
			"the in-progress table is keyed by "+mt.Key().String()+", not by the grouping's identity: two groupings of the same name in different scopes are taken for a recursion")
	})
	r.Floor("recursion-guard-by-identity", n, 1)
}

// c01InsertsACopy: what the expansion of a template statement (an augment, a
// uses) puts into the schema is a copy made for that place, never the node
// the statement itself holds. The statement's own nodes are reachable from
// every expansion of the enclosing grouping: adopting them makes all copies
// share one set of objects (one Parent(), one compiled config).
func c01InsertsACopy(ctx *core.Ctx, r *core.Report) {
	inserters := map[string]bool{"addDataDefinition": true, "addCase": true, "addAction": true, "addNotification": true}
	n := 0
	for _, spec := range []string{"meta.resolver.expandAugment", "meta.resolver.expandUses", "meta.resolver.cloneDefs", "meta.resolver.fillInRecursiveDefs"} {
		f := ctx.Lookup(spec)
		if f == nil {
			if spec == "meta.resolver.expandAugment" || spec == "meta.resolver.cloneDefs" {
				r.Fatalf("anchor %s not found", spec)
			}
			continue
		}
		per := map[string]int{}
		for _, c := range core.CallSites(f) {
			name := ""
			var arg ssa.Value
			if m := core.IfaceMethod(c); m != nil && inserters[m.Name()] {
				name, arg = m.Name(), c.Common().Args[0]
			} else if cal := core.StaticCallee(c); cal != nil && inserters[cal.Name()] && core.FnPkgPath(cal) == core.Full("meta") {
				name, arg = cal.Name(), c.Common().Args[len(c.Common().Args)-1]
			}
			if name == "" {
				continue
			}
			n++
			per[name]++
			key := fmt.Sprintf("%s/%s#%d", core.FnName(f), name, per[name])
			verdict, what := copyOrOriginal(arg, map[ssa.Value]bool{})
			r.Ob("inserts-a-copy", key, ctx.Pos(c.Pos()), verdict == "copy",
				"the expansion inserts "+what+" into the target instead of a copy made by clone(): every expansion of the enclosing grouping then holds the same node objects (one Parent(), one config) — the copies are neither complete nor independent")
		}
	}
	r.Floor("inserts-a-copy", n, 4)
	// … and it is the copy that is then resolved (its own uses expanded), not the template:
	// entering the grouping's own node expands the template in place and leaves the copy
	// that sits in the tree with its uses unexpanded
	enter := ctx.Method("meta", "resolver", "enter")
	ne := 0
	for _, spec := range []string{"meta.resolver.expandAugment", "meta.resolver.expandUses"} {
		f := ctx.Lookup(spec)
		if f == nil || enter == nil {
			continue
		}
		for i, c := range callsStatic(f, enter, false) {
			ne++
			arg := c.Common().Args[len(c.Common().Args)-1]
			verdict, what := copyOrOriginal(arg, map[ssa.Value]bool{})
			r.Ob("inserts-a-copy", fmt.Sprintf("%s/enter#%d", core.FnName(f), i+1), ctx.Pos(c.Pos()), verdict == "copy",
				"after inserting a copy the expansion resolves "+what+" instead of that copy: the grouping's (augment's) own node is expanded in place and the copy in the tree keeps its unexpanded uses")
		}
	}
	r.Floor("inserts-a-copy(enter)", ne, 3)
}

// copyOrOriginal classifies an inserted value: "copy" (result of clone() or a
// Builder constructor, on every path), otherwise a description of what it is.
func copyOrOriginal(v ssa.Value, seen map[ssa.Value]bool) (string, string) {
	if seen[v] {
		return "copy", ""
	}
	seen[v] = true
	switch x := v.(type) {
	case *ssa.TypeAssert:
		return copyOrOriginal(x.X, seen)
	case *ssa.ChangeInterface:
		return copyOrOriginal(x.X, seen)
	case *ssa.MakeInterface:
		return copyOrOriginal(x.X, seen)
	case *ssa.Extract:
		return copyOrOriginal(x.Tuple, seen)
	case *ssa.Phi:
		for _, e := range x.Edges {
			if k, w := copyOrOriginal(e, seen); k != "copy" {
				return k, w
			}
		}
		return "copy", ""
	case *ssa.Call:
		if m := core.IfaceMethod(x); m != nil && m.Name() == "clone" {
			return "copy", ""
		}
		if cal := core.StaticCallee(x); cal != nil {
			if cal.Name() == "clone" {
				return "copy", ""
			}
			if rn := cal.Signature.Recv(); rn != nil && core.NamedOf(rn.Type()) != nil && core.NamedOf(rn.Type()).Obj().Name() == "Builder" {
				return "copy", "" // freshly built (rule builder-returns-fresh of C06)
			}
		}
		return "other", "the result of " + core.CalleeName(x)
	case *ssa.UnOp:
		if x.Op == token.MUL {
			if _, ok := x.X.(*ssa.IndexAddr); ok {
				return "original", "an element of the statement's own collection"
			}
			if al, ok := x.X.(*ssa.Alloc); ok {
				// a local variable: every value stored
				for _, ref := range *al.Referrers() {
					if st, ok := ref.(*ssa.Store); ok && st.Addr == ssa.Value(al) {
						if k, w := copyOrOriginal(st.Val, seen); k != "copy" {
							return k, w
						}
					}
				}
				return "copy", ""
			}
		}
		return "other", "a loaded value (" + x.String() + ")"
	case *ssa.Lookup:
		return "original", "an element of the statement's own collection"
	case *ssa.Parameter:
		return "param", "its own argument " + x.Name()
	}
	return "other", fmt.Sprintf("%T %s", v, v.Name())
}

// c01SubmoduleMergeComplete (C01, C14): everything a submodule defines is
// carried over into the module. (a) every collection field of meta.Module that
// can hold definitions is read from the submodule by copyOverSubmoduleData;
// (b) in each of its loops over such a collection every element is merged — the
// store/add call lies on every way round the loop, so no element is skipped
// (a skipped import, for one, is never resolved and is a nil module later).
func c01SubmoduleMergeComplete(ctx *core.Ctx, r *core.Report) {
	f := ctx.Method("meta", "resolver", "copyOverSubmoduleData")
	mod := ctx.Named("meta", "Module")
	if f == nil || mod == nil || len(f.Params) < 3 {
		r.Fatalf("anchor meta.resolver.copyOverSubmoduleData not found")
		return
	}
	sub := f.Params[2]
	st := mod.Underlying().(*types.Struct)
	// fields that belong to the (sub)module statement itself, not to what it defines
	own := map[string]string{
		"rev":           "revisions describe the submodule file itself",
		"dataDefsIndex": "index of dataDefs, rebuilt by addDataDefinition",
	}
	read := map[string]bool{}
	core.Instrs(f, func(_ *ssa.BasicBlock, in ssa.Instruction) {
		if fa, ok := in.(*ssa.FieldAddr); ok && fa.X == ssa.Value(sub) {
			read[st.Field(fa.Field).Name()] = true
		}
	})
	n := 0
	for i := 0; i < st.NumFields(); i++ {
		fld := st.Field(i)
		switch fld.Type().Underlying().(type) {
		case *types.Map, *types.Slice:
		default:
			continue
		}
		if _, skip := own[fld.Name()]; skip {
			continue
		}
		n++
		r.Ob("submodule-merge-complete", "meta.Module."+fld.Name()+"/carried-over", ctx.Pos(fld.Pos()), read[fld.Name()],
			"copyOverSubmoduleData never reads the submodule's "+fld.Name()+": what a submodule defines there is lost when it is included")
	}
	r.Floor("submodule-merge-complete", n, 12)
	// (b) every back edge of a loop over a collection of sub passes the merge
	nl := 0
	for _, h := range f.Blocks {
		body, hdr := innerLoopOf(h)
		if hdr != h || body == nil {
			continue
		}
		// what is ranged: a field of sub loaded before the loop, used by Range/len in or before the header
		ranged := ""
		for _, b := range f.Blocks {
			for _, in := range b.Instrs {
				var src ssa.Value
				switch x := in.(type) {
				case *ssa.Range:
					if b.Dominates(h) || body[b] {
						src = x.X
					}
				case *ssa.Call:
					if bi, ok := x.Common().Value.(*ssa.Builtin); ok && bi.Name() == "len" && (b.Dominates(h) || b == h) {
						src = x.Common().Args[0]
					}
				}
				if src == nil {
					continue
				}
				if u, ok := core.Strip(src).(*ssa.UnOp); ok {
					if fa, ok := u.X.(*ssa.FieldAddr); ok && fa.X == ssa.Value(sub) {
						// the loop this range belongs to: the nearest header it dominates
						if b == h || (len(h.Preds) > 0 && b.Dominates(h) && onlyLoopAfter(b, h)) {
							ranged = st.Field(fa.Field).Name()
						}
					}
				}
			}
		}
		if ranged == "" {
			continue
		}
		nl++
		// merge instructions in the body
		var merges []*ssa.BasicBlock
		for b := range body {
			for _, in := range b.Instrs {
				switch x := in.(type) {
				case *ssa.MapUpdate:
					merges = append(merges, b)
				case ssa.CallInstruction:
					name := ""
					if cal := core.StaticCallee(x); cal != nil {
						name = cal.Name()
					} else if m := core.IfaceMethod(x); m != nil {
						name = m.Name()
					}
					if strings.HasPrefix(name, "add") {
						merges = append(merges, b)
					}
				}
			}
		}
		ok := len(merges) > 0
		if ok {
			for _, p := range h.Preds {
				if !body[p] {
					continue // entry edge
				}
				dominated := false
				for _, m := range merges {
					if m.Dominates(p) {
						dominated = true
					}
				}
				if !dominated {
					ok = false
				}
			}
		}
		r.Ob("submodule-merge-complete", "meta.resolver.copyOverSubmoduleData/loop:"+ranged, ctx.Pos(h.Instrs[0].Pos()), ok,
			"an element of the submodule's "+ranged+" can go round the loop without being merged into the module: that definition is silently lost (an import skipped this way is never resolved: its module stays nil and the first reference through its prefix dereferences it)")
	}
	r.Floor("submodule-merge-complete(loops)", nl, 8)
}

// onlyLoopAfter: h is the first loop header that b dominates and that follows b
// without another loop header in between (b is h's preheader chain).
func onlyLoopAfter(b, h *ssa.BasicBlock) bool {
	x := b
	for steps := 0; steps < 4; steps++ {
		if len(x.Succs) != 1 {
			return false
		}
		x = x.Succs[0]
		if x == h {
			return true
		}
	}
	return false
}

// c02OwnPrefixIsLocal: a name written with the module's own prefix is a local
// name (RFC 7950 5.5/6.4.1): findModuleAndIsExternal answers "external" only
// where it has established that the prefix is not empty and is not the
// module's own. An own-prefixed reference reported as external is looked up
// among the module-level definitions only, and typedefs/groupings of the
// enclosing scopes are not found.
func c02OwnPrefixIsLocal(ctx *core.Ctx, r *core.Report) {
	f := ctx.Fn("meta", "findModuleAndIsExternal")
	if f == nil || len(f.Params) < 2 {
		r.Fatalf("anchor meta.findModuleAndIsExternal not found")
		return
	}
	prefix := f.Params[1]
	n := 0
	for _, ret := range core.Returns(f) {
		ops := core.RetOperands(ret)
		if len(ops) < 3 || !core.IsNilConst(ops[2]) {
			continue // failures
		}
		for _, leaf := range core.PhiLeaves(ops[1], ret.Block()) {
			c, isC := leaf.V.(*ssa.Const)
			if !isC || c.Value == nil || c.Value.String() != "true" {
				if !isC {
					n++
					r.Ob("own-prefix-is-local", fmt.Sprintf("meta.findModuleAndIsExternal/return#%d", n), ctx.Pos(ret.Pos()), false, "the external flag is not a constant on this path: cannot be decided")
				}
				continue
			}
			n++
			notOwn := false
			for _, pc := range core.PathConds(leaf.Block) {
				bo, ok := pc.V.(*ssa.BinOp)
				if !ok || (bo.Op != token.EQL && bo.Op != token.NEQ) {
					continue
				}
				var other ssa.Value
				if bo.X == ssa.Value(prefix) {
					other = bo.Y
				} else if bo.Y == ssa.Value(prefix) {
					other = bo.X
				} else {
					continue
				}
				call, isCall := core.Strip(other).(*ssa.Call)
				if !isCall {
					continue
				}
				if cal := call.Common().StaticCallee(); cal == nil || cal.Name() != "Prefix" {
					continue
				}
				if (bo.Op == token.EQL && !pc.True) || (bo.Op == token.NEQ && pc.True) {
					notOwn = true
				}
			}
			r.Ob("own-prefix-is-local", fmt.Sprintf("meta.findModuleAndIsExternal/return#%d", n), ctx.Pos(ret.Pos()), notOwn,
				"the lookup is reported as external on a path where the prefix may be the module's own: an own-prefixed name (x:percent inside module x) is then searched among the module-level definitions only and a typedef or grouping of an enclosing container, list, grouping or rpc is 'not found'")
		}
	}
	r.Floor("own-prefix-is-local", n, 1)
}
