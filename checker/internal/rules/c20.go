package rules

import (
	"fmt"
	"go/token"
	"go/types"
	"sort"
	"strings"

	"golang.org/x/tools/go/ssa"

	"verif/checker/internal/core"
)

// ---------------------------------------------------------------------------
// C20 — a compiled schema is immutable shared state.
//
// There is no synchronisation primitive in the library, so race freedom can
// only come from the absence of shared writes. Decided:
//
//  global-write     no function reachable from LOAD ∪ USE stores to a package
//                   level variable of the repository, directly or through a
//                   pointer/map/slice obtained from one (forward value flow
//                   through returns, parameters, phis, ≤ 8 call edges);
//                   sync/atomic operations are allowed.
//  use-mutates-meta no function reachable from USE stores to a field of a
//                   struct type declared in package meta (or updates a map /
//                   slice element held in such a field) unless the object was
//                   allocated in that function.
//  lazy-cache       Constraints.compiled is written only by *Constraints
//                   methods, and Browser.baseConstraints hands out a fresh
//                   *Constraints per call.
// ---------------------------------------------------------------------------

func C20(ctx *core.Ctx, r *core.Report) {
	r.Explanation = "Effect analysis over everything reachable from the load and request entry points: no store to a package-level variable of the repository (directly or through a value that flowed out of one), no store to a field of a package-meta type while merely using a compiled module, and the per-request lazy cache (Constraints.compiled) is written only on per-request objects. Absence of shared writes implies race freedom and schedule independence of the analysed code; races inside user-supplied nodes and results under interleavings are not decided. Constructors and feature-set factories return fresh objects (no package-level instance handed out twice)."
	load := loadRoots(ctx, r)
	use := useRoots(ctx, r)
	all := append(append([]*ssa.Function{}, load...), use...)
	reachAll := ctx.Reachable(ctx.CG(), all, nil)
	reachUse := ctx.Reachable(ctx.CG(), use, nil)
	r.Count("reachable_functions_load_use", len(reachAll.Set))
	r.Count("reachable_functions_use", len(reachUse.Set))

	inScope := func(f *ssa.Function) bool {
		p := core.FnPkgPath(f)
		if !core.InRepo(p) || len(f.Blocks) == 0 {
			return false
		}
		if p == core.Full("patch/xml") || p == core.Full("testdata") || strings.HasPrefix(p, core.Full("cmd")) {
			return false
		}
		if f.Name() == "init" || strings.HasPrefix(f.Name(), "init#") {
			return false
		}
		return true
	}

	c20GlobalWrites(ctx, r, reachAll, inScope)
	c20UseMutatesMeta(ctx, r, reachUse, inScope)
	c20LazyCache(ctx, r)
	c20ConstructorsFresh(ctx, r)
	c20SharedContainers(ctx, r, reachAll, inScope)
	c20GlobalsHoldNoMutableObjects(ctx, r)
	c20FieldWritesReplace(ctx, r)
	// sorting (in place) a slice a schema accessor handed out re-orders the shared module
	r.Count("instances:textual-order-kept(sort calls in node, nodeutil)", textualOrderKept(ctx, r, append(scopeFuncs(ctx, "nodeutil"), scopeFuncs(ctx, "node")...)))
}

// c20SharedContainers: a package-level variable handed by address to code
// outside the repository (a method of sync.Pool, sync.Map, bytes.Buffer,
// a map/slice helper …) is a shared mutable container that every goroutine
// using the library meets. Locks, Once and atomics are what makes sharing safe
// and are exempt; everything else is an obligation.
func c20SharedContainers(ctx *core.Ctx, r *core.Report, reach *core.Reach, inScope func(*ssa.Function) bool) {
	n, sites := 0, 0
	seen := map[string]bool{}
	for f := range reach.Set {
		if !inScope(f) {
			continue
		}
		for _, c := range core.CallSites(f) {
			cal := core.StaticCallee(c)
			if cal != nil && core.InRepo(core.FnPkgPath(cal)) {
				continue // followed by the taint analysis of global-write
			}
			for _, a := range c.Common().Args {
				root, _ := addrRoot(a)
				g, ok := root.(*ssa.Global)
				if !ok || g.Pkg == nil || !core.InRepo(g.Pkg.Pkg.Path()) {
					continue
				}
				if _, isPtr := a.Type().Underlying().(*types.Pointer); !isPtr {
					continue
				}
				sites++
				tn := core.TypeName(core.Deref(g.Type()))
				switch tn {
				case "sync.Mutex", "sync.RWMutex", "sync.Once", "sync.WaitGroup":
					continue
				case "*log.Logger", "log.Logger":
					continue // serialises its writes; safe for concurrent use by its documentation
				}
				if strings.HasPrefix(tn, "atomic.") || isAtomicCall(c) {
					continue
				}
				key := g.Pkg.Pkg.Name() + "." + g.Name()
				if seen[key] {
					continue
				}
				seen[key] = true
				n++
				reason, triaged := c20ContainerTriage[key]
				r.Ob("shared-container", key, ctx.Pos(c.Pos()), triaged,
					"package-level "+tn+" is handed by address to "+core.CalleeName(c)+": a mutable container shared by every goroutine that uses the library (what is taken from it may be handed to two of them, or recycled while still in use)"+map[bool]string{true: "; triaged: " + reason, false: ""}[triaged])
			}
		}
	}
	r.Count("global_address_call_sites", sites)
	r.Count("shared_containers", n)
}

var c20ContainerTriage = map[string]string{}

// addrRoot walks an address expression back to its base object.
// viaLoad reports whether a pointer load was crossed (the store goes through a
// pointer held in the base, not into the base variable itself).
func addrRoot(v ssa.Value) (root ssa.Value, viaLoad bool) {
	for i := 0; i < 32; i++ {
		switch x := v.(type) {
		case *ssa.FieldAddr:
			v = x.X
		case *ssa.IndexAddr:
			v = x.X
		case *ssa.UnOp:
			if x.Op == token.MUL {
				viaLoad = true
				v = x.X
				continue
			}
			return v, viaLoad
		case *ssa.ChangeType:
			v = x.X
		case *ssa.Slice:
			v = x.X
		default:
			return v, viaLoad
		}
	}
	return v, viaLoad
}

func isAtomicCall(c ssa.CallInstruction) bool {
	if cal := core.StaticCallee(c); cal != nil {
		return core.FnPkgPath(cal) == "sync/atomic" || (cal.Signature.Recv() != nil && strings.Contains(cal.Signature.Recv().Type().String(), "sync/atomic"))
	}
	return false
}

// c20GlobalWrites implements global-write.
func c20GlobalWrites(ctx *core.Ctx, r *core.Report, reach *core.Reach, inScope func(*ssa.Function) bool) {
	// 1. taint: values that may point into storage owned by a repo global.
	// A taint carries the dynamic type of the object (when known) so that type
	// assertions and dynamic dispatch that cannot succeed for it are not
	// followed, and the number of pointer hops away from the variable (the
	// object it points to = 0, objects that one holds = 1; further is not followed).
	type taint struct {
		g     *ssa.Global
		depth int
		hops  int
		dyn   types.Type
	}
	tainted := map[ssa.Value]taint{}
	var work []ssa.Value
	add := func(v ssa.Value, t taint) {
		if v == nil || t.depth > 8 || t.hops > 1 {
			return
		}
		if _, ok := tainted[v]; ok {
			return
		}
		switch v.Type().Underlying().(type) {
		case *types.Pointer, *types.Map, *types.Slice:
			if !types.IsInterface(v.Type()) {
				if _, isPtr := v.Type().Underlying().(*types.Pointer); isPtr {
					t.dyn = v.Type()
				}
			}
		case *types.Interface:
		default:
			return // scalars copied out of a global are not shared storage
		}
		tainted[v] = t
		work = append(work, v)
	}
	nGlobals := 0
	for _, p := range ctx.Pkgs {
		sp := ctx.Prog.Package(p.Types)
		if sp == nil {
			continue
		}
		for _, m := range sp.Members {
			if _, ok := m.(*ssa.Global); ok {
				nGlobals++
			}
		}
	}
	r.Count("package_level_variables", nGlobals)
	fns := []*ssa.Function{}
	for f := range reach.Set {
		if inScope(f) {
			fns = append(fns, f)
		}
	}
	sort.Slice(fns, func(i, j int) bool { return core.FnName(fns[i]) < core.FnName(fns[j]) })
	r.Count("functions_analysed_global_write", len(fns))
	inSet := map[*ssa.Function]bool{}
	for _, f := range fns {
		inSet[f] = true
	}
	for _, f := range fns {
		core.Instrs(f, func(_ *ssa.BasicBlock, in ssa.Instruction) {
			if u, ok := in.(*ssa.UnOp); ok && u.Op == token.MUL {
				if g, ok := u.X.(*ssa.Global); ok && g.Pkg != nil && core.InRepo(g.Pkg.Pkg.Path()) {
					add(u, taint{g: g})
				}
			}
		})
	}
	compatible := func(t taint, target types.Type) bool {
		if t.dyn == nil {
			return true
		}
		if types.IsInterface(target) {
			return types.Implements(t.dyn, target.Underlying().(*types.Interface))
		}
		return types.Identical(t.dyn, target)
	}
	cg := ctx.CG()
	for len(work) > 0 {
		v := work[0]
		work = work[1:]
		t := tainted[v]
		refs := v.Referrers()
		if refs == nil {
			continue
		}
		for _, ref := range *refs {
			switch x := ref.(type) {
			case *ssa.Phi:
				add(x, t)
			case *ssa.ChangeType:
				add(x, t)
			case *ssa.ChangeInterface:
				add(x, t)
			case *ssa.MakeInterface:
				add(x, t)
			case *ssa.TypeAssert:
				if compatible(t, x.AssertedType) {
					add(x, t)
				}
			case *ssa.Extract:
				add(x, t)
			case *ssa.FieldAddr:
				add(x, t)
			case *ssa.IndexAddr:
				add(x, t)
			case *ssa.Slice:
				add(x, t)
			case *ssa.UnOp:
				if x.Op == token.MUL {
					// loading a reference held inside the shared object: one hop further
					if _, isAddr := v.(*ssa.FieldAddr); isAddr {
						add(x, taint{g: t.g, depth: t.depth, hops: t.hops + 1})
					} else if _, isIdx := v.(*ssa.IndexAddr); isIdx {
						add(x, taint{g: t.g, depth: t.depth, hops: t.hops + 1})
					}
				}
			case *ssa.Lookup:
				if x.X == v {
					add(x, taint{g: t.g, depth: t.depth, hops: t.hops + 1})
				}
			case *ssa.Return:
				f := x.Parent()
				idx := -1
				for i, res := range x.Results {
					if res == v {
						idx = i
					}
				}
				if n := cg.Nodes[f]; n != nil && idx >= 0 {
					for _, e := range n.In {
						if e.Site == nil || !inSet[e.Caller.Func] {
							continue
						}
						cv := e.Site.Value()
						if cv == nil {
							continue
						}
						t2 := t
						t2.depth++
						if f.Signature.Results().Len() == 1 {
							add(cv, t2)
						} else {
							for _, rr := range *cv.Referrers() {
								if ex, ok := rr.(*ssa.Extract); ok && ex.Index == idx {
									add(ex, t2)
								}
							}
						}
					}
				}
			case ssa.CallInstruction:
				cc := x.Common()
				n := cg.Nodes[x.Parent()]
				if n == nil {
					continue
				}
				for _, e := range n.Out {
					if e.Site != x || !inSet[e.Callee.Func] {
						continue
					}
					cal := e.Callee.Func
					params := cal.Params
					off := 0
					t2 := t
					t2.depth++
					if cc.IsInvoke() {
						if cc.Value == v && len(params) > 0 && compatible(t, params[0].Type()) {
							add(params[0], t2)
						}
						off = 1
					}
					for i, a := range cc.Args {
						if a == v && i+off < len(params) && compatible(t, params[i+off].Type()) {
							add(params[i+off], t2)
						}
					}
				}
			}
		}
	}
	r.Count("values_derived_from_globals", len(tainted))

	// 2. obligations: every store / map update / delete in scope
	nStores := 0
	for _, f := range fns {
		fname := core.FnName(f)
		core.Instrs(f, func(_ *ssa.BasicBlock, in ssa.Instruction) {
			var addr ssa.Value
			kind := ""
			switch x := in.(type) {
			case *ssa.Store:
				addr, kind = x.Addr, "store"
			case *ssa.MapUpdate:
				addr, kind = x.Map, "map update"
			case ssa.CallInstruction:
				if bi, ok := x.Common().Value.(*ssa.Builtin); ok && bi.Name() == "delete" && len(x.Common().Args) > 0 {
					addr, kind = x.Common().Args[0], "map delete"
				} else {
					return
				}
			default:
				return
			}
			nStores++
			root, viaLoad := addrRoot(addr)
			var g *ssa.Global
			how := ""
			if gg, ok := root.(*ssa.Global); ok && gg.Pkg != nil && core.InRepo(gg.Pkg.Pkg.Path()) {
				g = gg
				how = "direct"
				if viaLoad {
					how = "through the pointer held in"
				}
			} else {
				// tainted anywhere along the address chain?
				for v := addr; v != nil; {
					if t, ok := tainted[v]; ok {
						g, how = t.g, fmt.Sprintf("through a value that flowed out of (≤%d call edges)", t.depth)
						break
					}
					switch y := v.(type) {
					case *ssa.FieldAddr:
						v = y.X
					case *ssa.IndexAddr:
						v = y.X
					case *ssa.UnOp:
						v = y.X
					case *ssa.ChangeType:
						v = y.X
					case *ssa.Slice:
						v = y.X
					default:
						v = nil
					}
				}
			}
			if g == nil {
				return
			}
			gname := core.Short(g.Pkg.Pkg.Path()) + "." + g.Name()
			key := gname + "←" + fname
			reason, triaged := c20GlobalTriage[key]
			msg := fmt.Sprintf("%s %s package-level variable %s in a function reachable from the load/use entry points (%s)", kind, how, gname, reach.PathTo(f))
			if triaged {
				msg = "triaged: " + reason
			}
			r.Ob("global-write", key, ctx.Pos(in.Pos()), triaged, msg)
		})
	}
	r.Count("stores_examined_global_write", nStores)
	// positive control: the analysis must still see the atomic counter
	foundAtomic := false
	if uses := ctx.Method("meta", "Builder", "Uses"); uses != nil {
		for _, cs := range core.CallSites(uses) {
			if isAtomicCall(cs) {
				for _, a := range cs.Common().Args {
					if g, ok := a.(*ssa.Global); ok && g.Name() == "uid" {
						foundAtomic = true
					}
				}
			}
		}
		// or a plain store (then the rule above reports it)
		core.Instrs(uses, func(_ *ssa.BasicBlock, in ssa.Instruction) {
			if st, ok := in.(*ssa.Store); ok {
				if g, ok := st.Addr.(*ssa.Global); ok && g.Name() == "uid" {
					foundAtomic = true
				}
			}
		})
	} else {
		r.Fatalf("anchor meta.Builder.Uses not found")
	}
	r.Ob("global-write", "control:meta.uid is updated in meta.Builder.Uses", "-", foundAtomic, "the rule's positive control (the uses counter) is no longer visible; the anchor moved")
	if nStores < 500 {
		r.Fatalf("global-write examined only %d stores; the reachable set collapsed", nStores)
	}
}

// sites where a value that flowed out of a package-level variable is written,
// confirmed by reading to be unreachable for that value.
var c20GlobalTriage = map[string]string{
	"meta.anyType←meta.Type.mixin":           "mixin's receiver/argument is compileType's y only in the typedef branch, which lies after compileType's `format != 0` early return; anyType has format set at package init (rule anytype-complete), so it never gets there",
	"meta.anyType←meta.compiler.compileType": "anyType is complete at package init (newAnyType sets format and delegate); compileType returns on `format != 0` before its first store, so the stores are never executed for it (rule anytype-complete checks the initialiser)",
}

// c20UseMutatesMeta implements use-mutates-meta.
func c20UseMutatesMeta(ctx *core.Ctx, r *core.Report, reach *core.Reach, inScope func(*ssa.Function) bool) {
	metaPkg := ctx.TPkg("meta")
	if metaPkg == nil {
		r.Fatalf("package meta not found")
		return
	}
	isMetaStruct := func(t types.Type) (*types.Named, bool) {
		n := core.NamedOf(t)
		if n == nil || n.Obj().Pkg() != metaPkg {
			return nil, false
		}
		_, ok := n.Underlying().(*types.Struct)
		return n, ok
	}
	nFns, nStores := 0, 0
	var fns []*ssa.Function
	for f := range reach.Set {
		if inScope(f) {
			fns = append(fns, f)
		}
	}
	sort.Slice(fns, func(i, j int) bool { return core.FnName(fns[i]) < core.FnName(fns[j]) })
	for _, f := range fns {
		nFns++
		fname := core.FnName(f)
		core.Instrs(f, func(_ *ssa.BasicBlock, in ssa.Instruction) {
			var addr ssa.Value
			switch x := in.(type) {
			case *ssa.Store:
				addr = x.Addr
			case *ssa.MapUpdate:
				addr = x.Map
			default:
				return
			}
			nStores++
			// find a meta struct field on the address chain
			var hit *types.Named
			var field string
			fresh := false
			for v := addr; v != nil; {
				switch y := v.(type) {
				case *ssa.FieldAddr:
					if n, ok := isMetaStruct(y.X.Type()); ok {
						hit = n
						st := n.Underlying().(*types.Struct)
						field = st.Field(y.Field).Name()
					}
					v = y.X
				case *ssa.IndexAddr:
					v = y.X
				case *ssa.UnOp:
					v = y.X
				case *ssa.ChangeType:
					v = y.X
				case *ssa.Slice:
					v = y.X
				case *ssa.Alloc:
					fresh = true
					v = nil
				default:
					v = nil
				}
			}
			if hit == nil || fresh {
				return
			}
			key := fname + "→meta." + hit.Obj().Name() + "." + field
			r.Ob("use-mutates-meta", key, ctx.Pos(in.Pos()), false,
				fmt.Sprintf("store to field %s of meta.%s in a function reachable from the request API (%s): using a compiled module must not mutate it", field, hit.Obj().Name(), reach.PathTo(f)))
		})
	}
	r.Count("functions_analysed_use", nFns)
	r.Count("stores_examined_use", nStores)
	// the rule's scope as an obligation of its own, so that a clean run is not vacuous
	r.Ob("use-mutates-meta", "scope", "-", nFns >= 600 && nStores >= 300,
		fmt.Sprintf("%d functions reachable from the request API examined, %d stores; none writes a meta struct field", nFns, nStores))

	// positive control: the same predicate must fire inside package meta's builder
	ctl := 0
	if f := ctx.Method("meta", "Builder", "Description"); f != nil {
		for _, fn := range ctx.RepoFuncs() {
			if core.FnPkgPath(fn) != core.Full("meta") {
				continue
			}
			core.Instrs(fn, func(_ *ssa.BasicBlock, in ssa.Instruction) {
				if st, ok := in.(*ssa.Store); ok {
					if fa, ok := st.Addr.(*ssa.FieldAddr); ok {
						if _, ok := isMetaStruct(fa.X.Type()); ok {
							ctl++
						}
					}
				}
			})
		}
	}
	r.Ob("use-mutates-meta", "control:meta setters are recognised", "-", ctl >= 100, fmt.Sprintf("%d stores to meta struct fields recognised inside package meta", ctl))

	// anytype-complete: the shared anyType is initialised with format and delegate
	ok := false
	if f := ctx.Fn("meta", "newAnyType"); f != nil {
		got := map[string]bool{}
		core.Instrs(f, func(_ *ssa.BasicBlock, in ssa.Instruction) {
			if st, isSt := in.(*ssa.Store); isSt {
				if fa, isFa := st.Addr.(*ssa.FieldAddr); isFa {
					if n, isM := isMetaStruct(fa.X.Type()); isM && n.Obj().Name() == "Type" {
						got[n.Underlying().(*types.Struct).Field(fa.Field).Name()] = true
					}
				}
			}
		})
		ok = got["format"] && got["delegate"]
	}
	r.Ob("anytype-complete", "meta.newAnyType", "-", ok, "the package-level 'any' type must be given its format and delegate by its initialiser, otherwise the first load writes the shared object")
}

// c20LazyCache implements lazy-cache.
func c20LazyCache(ctx *core.Ctx, r *core.Report) {
	cons := ctx.Named("node", "Constraints")
	if cons == nil {
		r.Fatalf("anchor node.Constraints not found")
		return
	}
	st, _ := cons.Underlying().(*types.Struct)
	fidx := -1
	for i := 0; st != nil && i < st.NumFields(); i++ {
		if st.Field(i).Name() == "compiled" {
			fidx = i
		}
	}
	if fidx < 0 {
		r.Fatalf("anchor node.Constraints.compiled not found")
		return
	}
	n := 0
	for _, f := range ctx.RepoFuncs() {
		core.Instrs(f, func(_ *ssa.BasicBlock, in ssa.Instruction) {
			s, ok := in.(*ssa.Store)
			if !ok {
				return
			}
			fa, ok := s.Addr.(*ssa.FieldAddr)
			if !ok || fa.Field != fidx || core.NamedOf(fa.X.Type()) != cons {
				return
			}
			n++
			recv := f.Signature.Recv()
			okRecv := recv != nil && core.NamedOf(recv.Type()) == cons
			// or a freshly allocated Constraints in a constructor
			if _, isAlloc := fa.X.(*ssa.Alloc); isAlloc {
				okRecv = true
			}
			r.Ob("lazy-cache", "writer:"+core.FnName(f), ctx.Pos(in.Pos()), okRecv, "Constraints.compiled may only be written by *Constraints methods on their own receiver")
		})
	}
	r.Floor("lazy-cache", n, 1)
	// baseConstraints returns a fresh object on every path
	bc := ctx.Method("node", "Browser", "baseConstraints")
	if bc == nil {
		r.Fatalf("anchor node.Browser.baseConstraints not found")
		return
	}
	fresh := true
	nret := 0
	for _, ret := range core.Returns(bc) {
		for _, leaf := range core.PhiLeaves(ret.Results[0], ret.Block()) {
			nret++
			if !freshAlloc(leaf.V, 0) {
				fresh = false
			}
		}
	}
	r.Ob("lazy-cache", "fresh:node.Browser.baseConstraints", ctx.Pos(bc.Pos()), fresh && nret > 0, "every Root() must get its own *Constraints: the lazily compiled order is cached in it")
}

// freshAlloc: v is a new object (Alloc, or the result of a constructor whose
// results are all fresh).
func freshAlloc(v ssa.Value, depth int) bool {
	if depth > 3 {
		return false
	}
	switch x := v.(type) {
	case *ssa.Alloc:
		return x.Heap
	case *ssa.Call:
		cal := core.StaticCallee(x)
		if cal == nil || len(cal.Blocks) == 0 {
			return false
		}
		rets := core.Returns(cal)
		if len(rets) == 0 {
			return false
		}
		for _, ret := range rets {
			for _, leaf := range core.PhiLeaves(ret.Results[0], ret.Block()) {
				if !freshAlloc(leaf.V, depth+1) {
					return false
				}
			}
		}
		return true
	}
	return false
}

// c20ConstructorsFresh: constructors hand out objects allocated by the call.
// A constructor that returns a package-level or cached object turns per-load /
// per-request state (feature sets, lexers, constraint sets, browsers) into
// process-wide shared state.
func c20ConstructorsFresh(ctx *core.Ctx, r *core.Report) {
	n := 0
	for _, pkg := range []string{"meta", "parser", "node", "xpath", "nodeutil"} {
		sp := ctx.SPkg(pkg)
		if sp == nil {
			continue
		}
		var names []string
		for name := range sp.Members {
			names = append(names, name)
		}
		sort.Strings(names)
		for _, name := range names {
			f, ok := sp.Members[name].(*ssa.Function)
			if !ok || len(f.Blocks) == 0 {
				continue
			}
			isCtor := strings.HasPrefix(name, "New") || strings.HasPrefix(name, "AllFeatures") || strings.HasPrefix(name, "Features") || name == "lex"
			if !isCtor {
				continue
			}
			res := f.Signature.Results()
			if res.Len() == 0 {
				continue
			}
			t := res.At(0).Type()
			switch t.Underlying().(type) {
			case *types.Pointer, *types.Interface:
			default:
				continue
			}
			// values (val.Value) are immutable data, not state
			if pkg == "node" && strings.HasPrefix(name, "NewValue") {
				continue
			}
			n++
			ok2, why := freshResult(f, 0, 0)
			key := pkg + "." + name
			if reason, t := c20FreshTriage[key]; t && !ok2 {
				r.Ob("constructors-fresh", key, ctx.Pos(f.Pos()), true, "triaged: "+reason)
				continue
			}
			r.Ob("constructors-fresh", key, ctx.Pos(f.Pos()), ok2,
				"the constructor does not allocate what it returns ("+why+"): every caller gets the same object, whose state is then shared between loads / requests / goroutines")
		}
	}
	r.Floor("constructors-fresh", n, 15)
}

var c20FreshTriage = map[string]string{}

// c20GlobalsHoldNoMutableObjects: a package-level variable of the library that
// holds an object whose own methods write to it (a feature set whose Initialize
// fills its maps, a builder, a cache) is one object shared by every load and
// every request of the process. The taint rule above follows a global's value
// through calls and returns, not through struct fields of per-load objects, so
// this rule looks at the variable itself: the concrete type it is initialised
// with must not be a repository struct with a method that stores to its
// receiver (or updates a map / appends to a slice held in it).
func c20GlobalsHoldNoMutableObjects(ctx *core.Ctx, r *core.Report) {
	// methods that write to their receiver, per named type
	mutators := map[*types.Named][]string{}
	for _, f := range ctx.RepoFuncs() {
		rv := f.Signature.Recv()
		if rv == nil || len(f.Params) == 0 {
			continue
		}
		n := core.NamedOf(rv.Type())
		if n == nil {
			continue
		}
		if _, isPtr := rv.Type().Underlying().(*types.Pointer); !isPtr {
			continue
		}
		recv := f.Params[0]
		writes := false
		core.Instrs(f, func(_ *ssa.BasicBlock, in ssa.Instruction) {
			switch x := in.(type) {
			case *ssa.Store:
				if fa, ok := x.Addr.(*ssa.FieldAddr); ok && fa.X == ssa.Value(recv) {
					writes = true
				}
			case *ssa.MapUpdate:
				if _, _, base, ok := mapFieldOf(x.Map); ok && base == ssa.Value(recv) {
					writes = true
				}
			}
		})
		if writes {
			mutators[n] = append(mutators[n], f.Name())
		}
	}
	concrete := func(v ssa.Value) []types.Type {
		var out []types.Type
		seen := map[ssa.Value]bool{}
		var walk func(v ssa.Value, d int)
		walk = func(v ssa.Value, d int) {
			if v == nil || seen[v] || d > 4 {
				return
			}
			seen[v] = true
			switch x := v.(type) {
			case *ssa.MakeInterface:
				walk(x.X, d)
			case *ssa.ChangeInterface:
				walk(x.X, d)
			case *ssa.Alloc:
				out = append(out, x.Type())
			case *ssa.Phi:
				for _, e := range x.Edges {
					walk(e, d)
				}
			case *ssa.Call:
				if cal := x.Common().StaticCallee(); cal != nil && len(cal.Blocks) > 0 {
					for _, ret := range core.Returns(cal) {
						ops := core.RetOperands(ret)
						if len(ops) > 0 {
							walk(ops[0], d+1)
						}
					}
					return
				}
				out = append(out, x.Type())
			default:
				out = append(out, v.Type())
			}
		}
		walk(v, 0)
		return out
	}
	n := 0
	for _, p := range ctx.Pkgs {
		path := p.Types.Path()
		if !core.InRepo(path) || path == core.Full("patch/xml") || path == core.Full("testdata") || strings.HasPrefix(path, core.Full("cmd")) {
			continue
		}
		sp := ctx.Prog.Package(p.Types)
		if sp == nil {
			continue
		}
		initFn := sp.Func("init")
		if initFn == nil {
			continue
		}
		core.Instrs(initFn, func(_ *ssa.BasicBlock, in ssa.Instruction) {
			st, ok := in.(*ssa.Store)
			if !ok {
				return
			}
			g, ok := st.Addr.(*ssa.Global)
			if !ok || g.Pkg != sp {
				return
			}
			n++
			for _, t := range concrete(st.Val) {
				named := core.NamedOf(t)
				if named == nil || named.Obj().Pkg() == nil || !core.InRepo(named.Obj().Pkg().Path()) {
					continue
				}
				if _, isPtr := t.Underlying().(*types.Pointer); !isPtr {
					continue
				}
				ms := mutators[named]
				if len(ms) == 0 {
					continue
				}
				sort.Strings(ms)
				key := core.Short(path) + "." + g.Name()
				if reason, ok := c20MutableGlobalOK[key]; ok {
					r.Ob("globals-hold-no-mutable-objects", key, ctx.Pos(g.Pos()), true, "exempt: "+reason)
					continue
				}
				r.Ob("globals-hold-no-mutable-objects", key, ctx.Pos(g.Pos()), false,
					fmt.Sprintf("package-level variable %s holds a *%s, whose own methods (%s) write to it: every load and every request of the process shares and rewrites this one object — unsynchronised writes under concurrent use, and state left by one load seen by the next", key, named.Obj().Name(), strings.Join(ms, ", ")))
			}
		})
	}
	r.Count("instances:globals-hold-no-mutable-objects(initialised globals examined)", n)
	if n < 20 {
		r.Fatalf("only %d initialised package-level variables found in the library packages", n)
	}
}

// package-level variables that hold an object with mutating methods and are safe, with the reason.
var c20MutableGlobalOK = map[string]string{
	"meta.anyType": "the shared type of anyxml/anydata nodes is complete at package init (rule anytype-complete) and no setter of *Type is ever reached with it (rule global-write follows the variable's value into every call)",
}
