package rules

import (
	"go/token"
	"go/types"
	"strings"

	"golang.org/x/tools/go/ssa"

	"verif/checker/internal/core"
)

// useRoots is the USE entry set: everything a request can reach once a schema
// is compiled.
func useRoots(ctx *core.Ctx, r *core.Report) []*ssa.Function {
	roots := resolveRoots(ctx, r, []string{
		"node.NewValue", "node.NewValues", "node.NewValuesByString", "node.EncodeKey",
		"node.NewBrowser", "node.NewBrowserSource",
		"nodeutil.ReadJSON", "nodeutil.ReadJSONIO", "nodeutil.ReadJSONValues",
		"nodeutil.JsonListReader", "nodeutil.JsonContainerReader",
		"nodeutil.ReadXMLDoc", "nodeutil.ReadXMLBlock",
		"nodeutil.WriteJSON", "nodeutil.WritePrettyJSON", "nodeutil.JSONWtr.JSON", "nodeutil.JSONWtr.Node",
		"nodeutil.WriteXML", "nodeutil.WriteXMLDoc", "nodeutil.WriteXMLFrag", "nodeutil.XMLWtr.Node",
		"xpath.Parse", "xpath.Parse2",
		"val.Conv", "val.ConvOneOf",
		"node.NewWhere", "node.NewFilterConstraint",
	})
	for _, t := range []string{"Selection", "Browser", "Constraints"} {
		ms := exportedMethods(ctx, "node", t)
		if len(ms) == 0 {
			r.Fatalf("entry type node.%s has no exported methods", t)
		}
		roots = append(roots, ms...)
	}
	nodeI := ctx.Named("node", "Node")
	if nodeI == nil {
		r.Fatalf("anchor node.Node not found")
		return roots
	}
	impls := implementersOf(ctx, nodeI.Underlying().(*types.Interface), "node", "nodeutil")
	r.Count("node_implementers", len(impls))
	for _, n := range impls {
		for i := 0; i < n.NumMethods(); i++ {
			if f := ctx.Prog.FuncValue(n.Method(i)); f != nil && n.Method(i).Exported() {
				roots = append(roots, f)
			}
		}
	}
	return roots
}

func C13(ctx *core.Ctx, r *core.Report) {
	r.Explanation = "Crash classes reachable from the request-facing API (USE entry set) in the VTA call graph: explicit panics not converted to errors (K1), unchecked type assertions not discharged by a dominating guard, the operand's static type or its dynamic type set (K2), constant/len-relative indexing without a length test (K4). Each site is one obligation; sites confirmed to be API-misuse preconditions are in a frozen triage table with a reason. Also: parallel indexing (K4b: Y[i] inside `range X` needs a length relation), every cycle of the xpath lexer's loops moves the input position, the path parser compares the number of key values with the number of key leaves before building a key, and val.Equal establishes equal formats before calling Compare. Not decided: nil dereferences outside these classes, arithmetic indexes, stack depth of structural recursion, hangs."
	roots := useRoots(ctx, r)
	e := newCrashEngine(ctx, r, roots, func(f *ssa.Function) bool {
		return c13OutOfScope(f)
	})
	sites := e.sites("K1 K2 K4")
	e.record("crash", sites, c13Triage)
	// where/filter/when text is user input: the xpath lexer must not spin on any of it
	lexerCycleAdvances(ctx, r, "xpath", e.reach, c13LexTriage, 3)
	c13KeyArity(ctx, r)
	c13EqualFormatFirst(ctx, r)
	fixedBuffer(ctx, r, e.reach, func(f *ssa.Function) bool { return c13OutOfScope(f) }, c13BufferTriage, 1)
	parallelIndex(ctx, r, e.reach, func(f *ssa.Function) bool { return c13OutOfScope(f) }, c13ParallelTriage, 5)
}

var c13ParallelTriage = map[string]string{
	"nodeutil.jsonKeyMatches/key[i] in range keyFields":              rKeyArity,
	"nodeutil.sliceAsList.findByKey/target[i] in range candidateKey": rKeyArity,
}

const rKeyArity = "the requested key is a tuple built by node.NewValues/NewValuesByString, which always has len(KeyMeta) elements, and the path parser rejects a segment with another number of key values (rule key-arity-checked re-checks that on every run); a hand-built ListRequest with a short Key is API misuse"

// c13KeyArity backs rKeyArity: in node.parseUrlPath the call that builds a
// segment's key is dominated by a comparison of the number of key strings
// with the number of key leaves.
func c13KeyArity(ctx *core.Ctx, r *core.Report) {
	f := ctx.Fn("node", "parseUrlPath")
	nv := ctx.Fn("node", "NewValuesByString")
	if f == nil || nv == nil {
		r.Fatalf("anchors node.parseUrlPath / node.NewValuesByString not found")
		return
	}
	isLen := func(v ssa.Value) bool {
		c, ok := v.(*ssa.Call)
		if !ok {
			return false
		}
		b, ok := c.Common().Value.(*ssa.Builtin)
		return ok && b.Name() == "len"
	}
	calls := callsStatic(f, nv, false)
	for _, c := range calls {
		ok := false
		for _, pc := range core.PathConds(c.Block()) {
			if b, isB := pc.V.(*ssa.BinOp); isB && isLen(b.X) && isLen(b.Y) {
				ok = true
			}
		}
		r.Ob("key-arity-checked", "node.parseUrlPath→NewValuesByString", ctx.Pos(c.Pos()), ok,
			"the key of a path segment is built without comparing the number of key values with the number of key leaves: a short key becomes a tuple padded with nil, which the list nodes dereference")
	}
	r.Floor("key-arity-checked", len(calls), 1)
}

// c13OutOfScope: code that is analysed for reachability but whose sites are
// not obligations of C13, with the reason.
func c13OutOfScope(f *ssa.Function) bool {
	p := core.FnPkgPath(f)
	switch {
	case p == core.Full("patch/xml"): // vendored encoding/xml, trusted
		return true
	case p == core.Full("fc") || p == core.Full("testdata"): // test helpers
		return true
	case strings.HasPrefix(p, core.Full("cmd")): // command line tools, not the library
		return true
	}
	name := core.FnName(f)
	for _, pre := range []string{
		"nodeutil.schema.", "nodeutil.schema2.", // schema-as-data browser: operands are compiled schema objects, not request content
		"nodeutil.trace.", "nodeutil.Dump", "nodeutil.Trace", // debugging aids
	} {
		if strings.HasPrefix(name, pre) {
			return true
		}
	}
	return false
}

// c13EqualFormatFirst backs the discharge of the type assertions inside the
// Compare methods (each asserts its argument to its own kind): val.Equal hands
// b to a.Compare only after a.Format() == b.Format() was established.
func c13EqualFormatFirst(ctx *core.Ctx, r *core.Report) {
	f := ctx.Fn("val", "Equal")
	ro := ctx.Method("node", "xpathImpl", "resolveOperator")
	if f == nil || ro == nil {
		r.Fatalf("anchors val.Equal / node.xpathImpl.resolveOperator not found")
		return
	}
	c13FormatBeforeCompare(ctx, r, f, "val.Equal")
	// the same for the relational operators of where/when/filter expressions: the literal is
	// built with the leaf's type, which for a union leaf picks a member by the literal's text
	// and may differ from the member the stored value has
	c13FormatBeforeCompare(ctx, r, ro, "node.xpathImpl.resolveOperator")
	c13WhenContext(ctx, r)
	c13WriteHasValue(ctx, r)
	c13KeyValidEveryElement(ctx, r)
	c13RowNumbersNonNegative(ctx, r)
	c13SourceChooseCannotFail(ctx, r)
	hookTestedIsHookCalled(ctx, r)
	c13LiteralScanStopsAtEnd(ctx, r)
	c13HandlersKnowTheirNode(ctx, r)
	c13ProbeHasNoSelection(ctx, r)
	c13NextStepGuarded(ctx, r)
	c13ReflectListsTestKey(ctx, r)
	c13FindCursorGuarded(ctx, r)
}

// c13WhenContext backs the triage of xpathImpl.resolvePath's
// s.Meta().(meta.HasDefinitions): the library itself evaluates expressions only on
// selections of nodes that have definitions. CheckWhen, which is run for every field
// request — also one made through a selection on the leaf itself (Find("leaf").Get()) —
// moves to the parent selection when the selection is a leaf's before it evaluates.
func c13WhenContext(ctx *core.Ctx, r *core.Report) {
	f := ctx.Method("node", "CheckWhen", "check")
	xp := ctx.Method("node", "Selection", "XPredicate")
	if f == nil || xp == nil {
		r.Fatalf("anchors node.CheckWhen.check / Selection.XPredicate not found")
		return
	}
	for _, c := range callsStatic(f, xp, false) {
		recv := c.Common().Args[0]
		// the receiver is a phi (or load) that on the leaf side carries s.parent
		ok := false
		seen := map[ssa.Value]bool{}
		var walk func(v ssa.Value)
		walk = func(v ssa.Value) {
			if v == nil || seen[v] {
				return
			}
			seen[v] = true
			switch x := v.(type) {
			case *ssa.Phi:
				for _, e := range x.Edges {
					walk(e)
				}
			case *ssa.UnOp:
				if fa, isFa := x.X.(*ssa.FieldAddr); isFa {
					if st, isSt := core.Deref(fa.X.Type()).Underlying().(*types.Struct); isSt && st.Field(fa.Field).Name() == "parent" {
						// loaded under IsLeaf(...) == true
						for _, pc := range core.PathConds(x.Block()) {
							if call, isCall := pc.V.(*ssa.Call); isCall && pc.True {
								if cal := core.StaticCallee(call); cal != nil && core.FnName(cal) == "meta.IsLeaf" {
									ok = true
								}
							}
						}
					}
				}
			}
		}
		walk(recv)
		r.Ob("guard-backing", "node.CheckWhen.check/leaf-selection-uses-parent", ctx.Pos(c.Pos()), ok,
			"a when is evaluated on the selection it was handed even when that is a selection on the leaf itself (Find(\"leaf\") then Get/Set): the expression evaluator asserts that the context node has definitions and panics on a leaf")
	}
}

// c13WriteHasValue: the public Selection.Set hands its value to the node only after
// testing it for nil — nodes dereference the value of a write request.
func c13WriteHasValue(ctx *core.Ctx, r *core.Report) {
	f := ctx.Method("node", "Selection", "Set")
	set := ctx.Method("node", "Selection", "set")
	if f == nil || set == nil || len(f.Params) < 2 {
		r.Fatalf("anchors node.Selection.Set / set not found")
		return
	}
	v := f.Params[1]
	for _, c := range callsStatic(f, set, false) {
		ok := false
		for _, pc := range core.PathConds(c.Block()) {
			if bo, isB := pc.V.(*ssa.BinOp); isB && (core.Strip(bo.X) == ssa.Value(v) || bo.X == ssa.Value(v)) && core.IsNilConst(bo.Y) {
				if (bo.Op == token.EQL && !pc.True) || (bo.Op == token.NEQ && pc.True) {
					ok = true
				}
			}
		}
		r.Ob("guard-backing", "node.Selection.Set/value-not-nil", ctx.Pos(c.Pos()), ok,
			"Selection.Set hands a nil value to the node as a write: node implementations call Value() on it (nil dereference); a missing value is a bad request")
	}
}

func c13FormatBeforeCompare(ctx *core.Ctx, r *core.Report, f *ssa.Function, name string) {
	n := 0
	for _, c := range core.CallSites(f) {
		m := core.IfaceMethod(c)
		if m == nil || m.Name() != "Compare" {
			continue
		}
		n++
		ok := false
		for _, pc := range core.PathConds(c.Block()) {
			b, isB := pc.V.(*ssa.BinOp)
			if !isB || !((b.Op == token.NEQ && !pc.True) || (b.Op == token.EQL && pc.True)) {
				continue
			}
			fx, okx := b.X.(*ssa.Call)
			fy, oky := b.Y.(*ssa.Call)
			if okx && oky {
				mx, my := core.IfaceMethod(fx), core.IfaceMethod(fy)
				if mx != nil && my != nil && mx.Name() == "Format" && my.Name() == "Format" {
					ok = true
				}
			}
		}
		r.Ob("equal-format-first", name+"→Comparable.Compare", ctx.Pos(c.Pos()), ok,
			name+" compares two values with Compare before it knows they have the same format: every Compare method asserts its argument to its own kind and panics on another")
	}
	r.Floor("equal-format-first("+name+")", n, 1)
}

var c13LexTriage = map[string]string{
	"xpath.lexer.nextToken/loop1": "the driver loop: each turn runs lexBegin, which returns itself only after an accept…() succeeded (a token was emitted and is returned on the next turn) and nil otherwise (the next turn returns the end token)",
}

var c13BufferTriage = map[string]string{
	"xpath.lexer.pushToken/tokens[head]": "the xpath lexer runs a state only when the ring is empty (nextToken) and one turn of lexBegin emits at most two tokens (an operator and its operand), so at most two of the 64 slots are ever pending",
}
