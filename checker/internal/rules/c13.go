package rules

import (
	"go/types"
	"strings"

	"golang.org/x/tools/go/ssa"

	"verif/checker/internal/core"
)

// useRoots is the USE entry set: everything a request can reach once a schema
// is compiled.
func useRoots(ctx *core.Ctx, r *core.Report) []*ssa.Function {
	roots := resolveRoots(ctx, r, []string{
		"node.NewValue", "node.NewValues", "node.NewValuesByString", "node.EncodeKey",
		"node.NewBrowser", "node.NewBrowserSource",
		"nodeutil.ReadJSON", "nodeutil.ReadJSONIO", "nodeutil.ReadJSONValues",
		"nodeutil.JsonListReader", "nodeutil.JsonContainerReader",
		"nodeutil.ReadXMLDoc", "nodeutil.ReadXMLBlock",
		"nodeutil.WriteJSON", "nodeutil.WritePrettyJSON", "nodeutil.JSONWtr.JSON", "nodeutil.JSONWtr.Node",
		"nodeutil.WriteXML", "nodeutil.WriteXMLDoc", "nodeutil.WriteXMLFrag", "nodeutil.XMLWtr.Node",
		"xpath.Parse", "xpath.Parse2",
		"val.Conv", "val.ConvOneOf",
		"node.NewWhere", "node.NewFilterConstraint",
	})
	for _, t := range []string{"Selection", "Browser", "Constraints"} {
		ms := exportedMethods(ctx, "node", t)
		if len(ms) == 0 {
			r.Fatalf("entry type node.%s has no exported methods", t)
		}
		roots = append(roots, ms...)
	}
	nodeI := ctx.Named("node", "Node")
	if nodeI == nil {
		r.Fatalf("anchor node.Node not found")
		return roots
	}
	impls := implementersOf(ctx, nodeI.Underlying().(*types.Interface), "node", "nodeutil")
	r.Count("node_implementers", len(impls))
	for _, n := range impls {
		for i := 0; i < n.NumMethods(); i++ {
			if f := ctx.Prog.FuncValue(n.Method(i)); f != nil && n.Method(i).Exported() {
				roots = append(roots, f)
			}
		}
	}
	return roots
}

func C13(ctx *core.Ctx, r *core.Report) {
	r.Explanation = "Crash classes reachable from the request-facing API (USE entry set) in the VTA call graph: explicit panics not converted to errors (K1), unchecked type assertions not discharged by a dominating guard, the operand's static type or its dynamic type set (K2), constant/len-relative indexing without a length test (K4). Each site is one obligation; sites confirmed to be API-misuse preconditions are in a frozen triage table with a reason. Not decided: nil dereferences outside these classes, arithmetic indexes, stack depth of structural recursion, hangs."
	roots := useRoots(ctx, r)
	e := newCrashEngine(ctx, r, roots, func(f *ssa.Function) bool {
		return c13OutOfScope(f)
	})
	sites := e.sites("K1 K2 K4")
	e.record("crash", sites, c13Triage)
}

// c13OutOfScope: code that is analysed for reachability but whose sites are
// not obligations of C13, with the reason.
func c13OutOfScope(f *ssa.Function) bool {
	p := core.FnPkgPath(f)
	switch {
	case p == core.Full("patch/xml"): // vendored encoding/xml, trusted
		return true
	case p == core.Full("fc") || p == core.Full("testdata"): // test helpers
		return true
	case strings.HasPrefix(p, core.Full("cmd")): // command line tools, not the library
		return true
	}
	name := core.FnName(f)
	for _, pre := range []string{
		"nodeutil.schema.", "nodeutil.schema2.", // schema-as-data browser: operands are compiled schema objects, not request content
		"nodeutil.trace.", "nodeutil.Dump", "nodeutil.Trace", // debugging aids
	} {
		if strings.HasPrefix(name, pre) {
			return true
		}
	}
	return false
}
