package rules

import (
	"fmt"
	"go/ast"
	"go/token"
	"go/types"
	"strings"

	"golang.org/x/tools/go/ssa"

	"verif/checker/internal/core"
)

// mayBeSuccess: can the error operand of this return be nil?
func mayBeSuccess(ret *ssa.Return) bool {
	ops := core.RetOperands(ret)
	if len(ops) == 0 {
		return true
	}
	e := ops[len(ops)-1]
	if !core.IsErrorType(e.Type()) {
		return true
	}
	if core.IsNilConst(e) {
		return true
	}
	for _, pc := range core.PathConds(ret.Block()) {
		if bo, ok := pc.V.(*ssa.BinOp); ok && (bo.X == e || core.Strip(bo.X) == e) && core.IsNilConst(bo.Y) {
			if (bo.Op == token.NEQ && pc.True) || (bo.Op == token.EQL && !pc.True) {
				return false
			}
		}
	}
	if c, ok := e.(*ssa.Call); ok {
		if cal := core.StaticCallee(c); cal != nil && (core.FnName(cal) == "fmt.Errorf" || core.FnName(cal) == "errors.New") {
			return false
		}
	}
	return true
}

// postConstraintsAlwaysRun (C07, C05, C12): in Selection.get and Selection.set,
// once the node's Field callback has been called, no successful return comes
// before the field post-constraints were evaluated — with-defaults=trim (the
// field post-constraint) would otherwise not see values that took another way
// out, e.g. a leaf whose value is the schema default just filled in.
func postConstraintsAlwaysRun(ctx *core.Ctx, r *core.Report) {
	nodeI := ctx.Named("node", "Node")
	post := ctx.Method("node", "Constraints", "CheckFieldPostConstraints")
	if nodeI == nil || post == nil {
		r.Fatalf("anchors node.Node / Constraints.CheckFieldPostConstraints not found")
		return
	}
	for _, name := range []string{"get", "set"} {
		f := ctx.Method("node", "Selection", name)
		if f == nil {
			r.Fatalf("anchor node.Selection.%s not found", name)
			continue
		}
		fields := invokesOf(f, false, nodeI, "Field")
		posts := callsStatic(f, post, false)
		if len(fields) != 1 || len(posts) != 1 {
			r.Ob("post-constraints-always-run", "node.Selection."+name, ctx.Pos(f.Pos()), false,
				fmt.Sprintf("expected one Node.Field call and one CheckFieldPostConstraints call, found %d and %d", len(fields), len(posts)))
			continue
		}
		n := 0
		for _, ret := range core.Returns(f) {
			if !instrDominates(fields[0].(ssa.Instruction), ret) || !mayBeSuccess(ret) {
				continue
			}
			n++
			r.Ob("post-constraints-always-run", fmt.Sprintf("node.Selection.%s/return#%d", name, n), ctx.Pos(ret.Pos()), instrDominates(posts[0].(ssa.Instruction), ret),
				"after the node's Field callback the function can return successfully without having evaluated the field post-constraints: a filter that works on the value (with-defaults=trim) never sees the values leaving this way — e.g. a schema default just filled in is reported although trim was asked for")
		}
		if n == 0 {
			r.Fatalf("Selection.%s has no successful return after Node.Field", name)
		}
	}
}

// c08CursorClimbs: in Selection.Find every leading ../ moves the cursor one
// level up from where the previous one left it: the value carried round the loop
// is Parent() of itself, not of the receiver.
func c08CursorClimbs(ctx *core.Ctx, r *core.Report) {
	f := ctx.Method("node", "Selection", "Find")
	parent := ctx.Method("node", "Selection", "Parent")
	if f == nil || parent == nil {
		r.Fatalf("anchors node.Selection.Find / Parent not found")
		return
	}
	n := 0
	for _, c := range callsStatic(f, parent, false) {
		if loopBlocks(c.Block()) == nil {
			continue
		}
		n++
		// its result feeds a phi of the loop, and its receiver is that phi
		recv := c.Common().Args[0]
		ok := false
		if c.Value() != nil {
			for _, ref := range *c.Value().Referrers() {
				if ph, isPhi := ref.(*ssa.Phi); isPhi && (recv == ssa.Value(ph) || core.Strip(recv) == ssa.Value(ph)) {
					ok = true
				}
			}
		}
		r.Ob("relative-steps-consumed", "node.Selection.Find/cursor-climbs", ctx.Pos(c.Pos()), ok,
			"a leading ../ takes the parent of something other than the selection the previous ../ arrived at (the receiver, say): two or more ../ climb one level only, and the rest of the path is resolved from the wrong node")
	}
	r.Floor("relative-steps-consumed(cursor)", n, 1)
}

// c08NavigationBeforeState: a read filter that keeps state (fc.max-node-count)
// lets navigation through before it touches that state: no store to the
// receiver precedes the IsNavigation() test.
func c08NavigationBeforeState(ctx *core.Ctx, r *core.Report) {
	regs := registeredConstraints(ctx, r)
	n := 0
	for named := range regs {
		for i := 0; i < named.NumMethods(); i++ {
			m := named.Method(i)
			if !strings.HasPrefix(m.Name(), "Check") {
				continue
			}
			f := ctx.Prog.FuncValue(m)
			if f == nil || len(f.Blocks) == 0 || len(f.Params) == 0 {
				continue
			}
			var nav ssa.CallInstruction
			for _, c := range core.CallSites(f) {
				if cal := core.StaticCallee(c); cal != nil && cal.Name() == "IsNavigation" {
					nav = c
					break
				}
			}
			if nav == nil {
				continue
			}
			recv := f.Params[0]
			bad := ""
			core.Instrs(f, func(_ *ssa.BasicBlock, in ssa.Instruction) {
				st, ok := in.(*ssa.Store)
				if !ok {
					return
				}
				fa, ok := st.Addr.(*ssa.FieldAddr)
				if !ok || fa.X != ssa.Value(recv) {
					return
				}
				if instrDominates(st, nav.(ssa.Instruction)) {
					bad = core.Deref(recv.Type()).Underlying().(*types.Struct).Field(fa.Field).Name()
				}
			})
			if _, isPtr := recv.Type().Underlying().(*types.Pointer); !isPtr {
				continue // a value receiver cannot keep state
			}
			n++
			r.Ob("navigation-exempt", "node."+named.Obj().Name()+"."+m.Name()+"/no-state-before-guard", ctx.Pos(f.Pos()), bad == "",
				"the constraint changes its own state ("+bad+") before it tests IsNavigation(): the steps Find walks through use up the budget of the query's own read filter, and the read of the found node fails or is cut short")
		}
	}
	r.Count("instances:navigation-exempt(stateful checks)", n)
}

// c08KeyTextVerbatim: the text of a key, once percent-decoded, is handed to the
// value constructor as it is: NewValuesByString passes objs[i] itself.
func c08KeyTextVerbatim(ctx *core.Ctx, r *core.Report) {
	f := ctx.Fn("node", "NewValuesByString")
	nv := ctx.Fn("node", "NewValue")
	if f == nil || nv == nil || len(f.Params) < 2 {
		r.Fatalf("anchors node.NewValuesByString / NewValue not found")
		return
	}
	objs := f.Params[1]
	n := 0
	for _, c := range callsStatic(f, nv, false) {
		n++
		arg := c.Common().Args[1]
		if mi, ok := arg.(*ssa.MakeInterface); ok {
			arg = mi.X
		}
		ok := false
		if u, isU := arg.(*ssa.UnOp); isU && u.Op == token.MUL {
			if ia, isIa := u.X.(*ssa.IndexAddr); isIa && ia.X == ssa.Value(objs) {
				ok = true
			}
		}
		what := "a transformed copy"
		if call, isCall := arg.(*ssa.Call); isCall {
			what = "the result of " + core.CalleeName(call)
		}
		r.Ob("key-text-verbatim", "node.NewValuesByString→NewValue", ctx.Pos(c.Pos()), ok,
			"the key text handed to the value constructor is "+what+", not the decoded text itself: keys that differ only in what the transformation removes (leading or trailing blanks, case) address the same entry, and an absent key finds its trimmed twin")
	}
	r.Floor("key-text-verbatim", n, 1)
}

// ineffectiveBreak (C07 and any scanner loop): an unlabeled `break` that is the
// last statement of a switch case inside a loop leaves only the switch — it does
// nothing — while it reads as "stop scanning". ParsePathExpression relies on
// leaving its loop as soon as a ')' closes a group that was never opened; with
// the test moved into the `case ')'` the loop goes on, a later '(' balances the
// count, and `a)(b` is accepted.
func ineffectiveBreak(ctx *core.Ctx, r *core.Report, pkgs ...string) int {
	n := 0
	for _, short := range pkgs {
		pp := ctx.PPkg(short)
		if pp == nil {
			continue
		}
		for _, file := range pp.Syntax {
			fname := ctx.Pos(file.Pos())
			if strings.Contains(fname, "_test.go") {
				continue
			}
			var stack []ast.Node
			ast.Inspect(file, func(nd ast.Node) bool {
				if nd == nil {
					stack = stack[:len(stack)-1]
					return true
				}
				stack = append(stack, nd)
				br, ok := nd.(*ast.BranchStmt)
				if !ok || br.Tok != token.BREAK || br.Label != nil {
					return true
				}
				// innermost breakable construct
				inLoop := false
				var clause *ast.CaseClause
				var comm *ast.CommClause
				swIdx := -1
				for i := len(stack) - 2; i >= 0; i-- {
					switch x := stack[i].(type) {
					case *ast.CaseClause:
						if clause == nil && comm == nil {
							clause = x
						}
					case *ast.CommClause:
						if clause == nil && comm == nil {
							comm = x
						}
					case *ast.SwitchStmt, *ast.TypeSwitchStmt, *ast.SelectStmt:
						if swIdx < 0 {
							swIdx = i
						}
					case *ast.ForStmt, *ast.RangeStmt:
						if swIdx < 0 {
							return true // breaks a loop: effective
						}
						inLoop = true
					case *ast.FuncLit, *ast.FuncDecl:
						i = -1
					}
					if inLoop {
						break
					}
				}
				if swIdx < 0 || !inLoop {
					return true
				}
				n++
				fn := ""
				for i := len(stack) - 1; i >= 0; i-- {
					if fd, ok := stack[i].(*ast.FuncDecl); ok {
						fn = fd.Name.Name
						break
					}
				}
				r.Ob("ineffective-break", short+"."+fn+"/break-in-switch-in-loop", ctx.Pos(br.Pos()), false,
					"this `break` sits in a switch case inside a loop: it leaves the switch only, the loop goes on. Where it is meant to stop the scan (an invalid character sequence seen), the input is accepted instead of rejected")
				return true
			})
		}
	}
	return n
}

// c06RefineAppliesToTarget (C06, C01): every property a refine statement states
// is handed to the Builder together with the refine's target as it is — the
// Builder's own dispatch knows which node kinds can carry it and reports the
// others. A call that passes a narrowed value (target.(*List)) silently drops
// the statement for the kinds the narrowing leaves out (max-elements unbounded on
// a leaf-list).
func c06RefineAppliesToTarget(ctx *core.Ctx, r *core.Report) {
	f := ctx.Method("meta", "resolver", "refine")
	if f == nil || len(f.Params) < 2 {
		r.Fatalf("anchor meta.resolver.refine not found")
		return
	}
	target := f.Params[1]
	n := 0
	for _, c := range core.CallSites(f) {
		cal := core.StaticCallee(c)
		if cal == nil || cal.Signature.Recv() == nil {
			continue
		}
		if rn := core.NamedOf(cal.Signature.Recv().Type()); rn == nil || rn.Obj().Name() != "Builder" || cal.Name() == "setErr" {
			continue
		}
		args := c.Common().Args
		if len(args) < 2 {
			continue
		}
		n++
		a := args[1]
		if mi, ok := a.(*ssa.MakeInterface); ok {
			a = mi.X
		}
		if ci, ok := a.(*ssa.ChangeInterface); ok {
			a = ci.X
		}
		// also not under a type test of the target
		narrowed := a != ssa.Value(target)
		for _, pc := range core.PathConds(c.Block()) {
			if ex, ok := pc.V.(*ssa.Extract); ok {
				if ta, ok := ex.Tuple.(*ssa.TypeAssert); ok && ta.X == ssa.Value(target) {
					narrowed = true
				}
			}
		}
		r.Ob("refine-applies-to-target", "meta.resolver.refine/"+cal.Name(), ctx.Pos(c.Pos()), !narrowed,
			"the refine's "+cal.Name()+" is applied only to some node kinds (a type test of the target) instead of being handed to the Builder with the target as it is: for the other kinds that can carry the property the statement is silently dropped")
	}
	r.Floor("refine-applies-to-target", n, 7)
}

// c06BuilderStoresVerbatim: what the grammar hands to a Builder method is already
// decoded (rule decode-once); the Builder stores its string arguments as they
// are. A string argument that reaches a schema field through a slicing or a
// trimming/replacing helper is altered a second time: quote characters that
// belong to the value are stripped.
func c06BuilderStoresVerbatim(ctx *core.Ctx, r *core.Report) {
	// functions that return a re-sliced / trimmed version of their string parameter
	var lossy func(f *ssa.Function, depth int) bool
	lossy = func(f *ssa.Function, depth int) bool {
		if f == nil || depth > 2 {
			return false
		}
		if f.Pkg != nil && f.Pkg.Pkg.Path() == "strings" {
			switch f.Name() {
			case "TrimSpace", "Trim", "TrimLeft", "TrimRight", "TrimPrefix", "TrimSuffix", "TrimFunc", "ToLower", "ToUpper", "Replace", "ReplaceAll", "Title", "Map":
				return true
			}
			return false
		}
		if strings.HasSuffix(f.Name(), "Unquote") {
			return true
		}
		if len(f.Blocks) == 0 || !core.InRepo(core.FnPkgPath(f)) {
			return false
		}
		res := f.Signature.Results()
		if res.Len() != 1 || !isStringType(res.At(0).Type()) {
			return false
		}
		hit := false
		for _, ret := range core.Returns(f) {
			for _, leaf := range core.PhiLeaves(core.RetOperands(ret)[0], ret.Block()) {
				switch x := leaf.V.(type) {
				case *ssa.Slice:
					if _, isP := x.X.(*ssa.Parameter); isP {
						hit = true
					}
				case *ssa.Call:
					if lossy(x.Common().StaticCallee(), depth+1) {
						hit = true
					}
				}
			}
		}
		return hit
	}
	n := 0
	for _, f := range scopeFuncs(ctx, "meta", "builder.go") {
		rv := f.Signature.Recv()
		if rv == nil || core.NamedOf(rv.Type()) == nil || core.NamedOf(rv.Type()).Obj().Name() != "Builder" {
			continue
		}
		var strParams []*ssa.Parameter
		for _, p := range f.Params[1:] {
			if isStringType(p.Type()) {
				strParams = append(strParams, p)
			}
		}
		if len(strParams) == 0 {
			continue
		}
		// every value stored into a field of a schema struct (store or composite literal)
		core.Instrs(f, func(_ *ssa.BasicBlock, in ssa.Instruction) {
			st, ok := in.(*ssa.Store)
			if !ok || !isStringType(st.Val.Type()) {
				return
			}
			fa, ok := st.Addr.(*ssa.FieldAddr)
			if !ok {
				return
			}
			owner := core.NamedOf(fa.X.Type())
			if owner == nil || owner.Obj().Pkg() == nil || owner.Obj().Pkg().Path() != core.Full("meta") {
				return
			}
			// does the stored string come from a parameter through a lossy step?
			var via string
			seen := map[ssa.Value]bool{}
			var walk func(v ssa.Value, d int) bool // reaches a string parameter
			walk = func(v ssa.Value, d int) bool {
				if v == nil || seen[v] || d > 6 {
					return false
				}
				seen[v] = true
				switch x := v.(type) {
				case *ssa.Parameter:
					for _, p := range strParams {
						if p == x {
							return true
						}
					}
				case *ssa.Slice:
					if walk(x.X, d+1) {
						via = "a re-slicing"
						return true
					}
				case *ssa.Call:
					cal := x.Common().StaticCallee()
					for _, a := range x.Common().Args {
						if walk(a, d+1) {
							if lossy(cal, 0) {
								via = core.CalleeName(x)
							}
							return true
						}
					}
				case *ssa.Phi:
					hit := false
					for _, e := range x.Edges {
						if walk(e, d+1) {
							hit = true
						}
					}
					return hit
				case *ssa.UnOp:
					return walk(x.X, d+1)
				case *ssa.IndexAddr:
					return walk(x.X, d+1)
				case *ssa.Extract:
					return walk(x.Tuple, d+1)
				}
				return false
			}
			if !walk(st.Val, 0) {
				return
			}
			n++
			fld := core.Deref(fa.X.Type()).Underlying().(*types.Struct).Field(fa.Field).Name()
			r.Ob("builder-stores-verbatim", core.FnName(f)+"/"+owner.Obj().Name()+"."+fld, ctx.Pos(st.Pos()), via == "",
				"the Builder alters the string it is given ("+via+") before storing it in "+owner.Obj().Name()+"."+fld+": the grammar has already decoded the argument, so characters that belong to the value (quotes inside a quoted argument) are removed")
		})
	}
	r.Floor("builder-stores-verbatim", n, 20)
}

func isStringType(t types.Type) bool {
	b, ok := t.Underlying().(*types.Basic)
	return ok && b.Info()&types.IsString != 0
}

// c06CommentTerminator: the end of a block comment is the two-character
// sequence "*/" at some position. acceptWS finds it by testing the text at the
// current position against that sequence (strings.HasPrefix/Index with the
// constant), one position at a time. Reading two single characters instead
// (`r == '*' && next() == '/'`) consumes the second one when it does not match:
// in `**/` the star that belongs to the terminator is swallowed as the failed
// look-ahead of the star before it, the comment does not end, and statements up
// to the next "*/" disappear.
func c06CommentTerminator(ctx *core.Ctx, r *core.Report) {
	f := ctx.Method("parser", "lexer", "acceptWS")
	next := ctx.Method("parser", "lexer", "next")
	if f == nil || next == nil {
		r.Fatalf("anchors parser.lexer.acceptWS / next not found")
		return
	}
	byString := false
	for _, c := range core.CallSites(f) {
		cal := core.StaticCallee(c)
		if cal == nil || cal.Pkg == nil || cal.Pkg.Pkg.Path() != "strings" {
			continue
		}
		for _, a := range c.Common().Args {
			if s, ok := core.ConstString(a); ok && s == "*/" && loopBlocks(c.Block()) != nil {
				byString = true
			}
		}
	}
	r.Ob("comment-terminator", "parser.lexer.acceptWS/matches-two-characters-at-a-position", ctx.Pos(f.Pos()), byString,
		"the block-comment scan no longer tests the text at the current position against the terminator \"*/\" as a whole")
	// no single-character look-ahead for a comment delimiter
	n := 0
	for _, c := range callsStatic(f, next, false) {
		v := c.Value()
		if v == nil || v.Referrers() == nil {
			continue
		}
		for _, ref := range *v.Referrers() {
			bo, ok := ref.(*ssa.BinOp)
			if !ok || (bo.Op != token.EQL && bo.Op != token.NEQ) {
				continue
			}
			for _, op := range []ssa.Value{bo.X, bo.Y} {
				if k, isC := core.ConstInt(op); isC && (k == '/' || k == '*') {
					n++
					r.Ob("comment-terminator", fmt.Sprintf("parser.lexer.acceptWS/single-character-lookahead#%d", n), ctx.Pos(c.Pos()), false,
						"a comment delimiter is recognised by reading one more character and comparing it: when it does not match, that character has been consumed and is never tested as the start of the delimiter itself (`**/` does not end the comment)")
				}
			}
		}
	}
}

// c09PresenceLooksThroughNestedChoice: nodeutil.Node decides which case of a
// choice is active by asking for each member of each case whether it exists. A
// member that is itself a choice exists when one of ITS cases has data: exists()
// has a branch for choices that asks Choose and looks into the chosen case.
// Without it a case that is recognisable only through data under a nested choice
// is never detected — the old case is not cleared and its nodes are not exported.
func c09PresenceLooksThroughNestedChoice(ctx *core.Ctx, r *core.Report) {
	f := ctx.Method("nodeutil", "Node", "exists")
	if f == nil {
		r.Fatalf("anchor nodeutil.Node.exists not found")
		return
	}
	choiceBranch := false
	for _, c := range core.CallSites(f) {
		name := ""
		if cal := core.StaticCallee(c); cal != nil {
			name = cal.Name()
		} else if m := core.IfaceMethod(c); m != nil {
			name = m.Name()
		}
		if name != "Choose" && name != "DoChoose" {
			continue
		}
		// under a test that the member is a choice
		for _, pc := range core.PathConds(c.Block()) {
			if call, ok := pc.V.(*ssa.Call); ok && pc.True {
				if cal := core.StaticCallee(call); cal != nil && core.FnName(cal) == "meta.IsChoice" {
					choiceBranch = true
				}
			}
			if ex, ok := pc.V.(*ssa.Extract); ok && pc.True {
				if ta, ok := ex.Tuple.(*ssa.TypeAssert); ok && strings.HasSuffix(core.TypeName(ta.AssertedType), "meta.Choice") {
					choiceBranch = true
				}
			}
		}
	}
	recursive := len(callsStatic(f, f, false)) > 0
	r.Ob("presence-looks-through-nested-choice", "nodeutil.Node.exists", ctx.Pos(f.Pos()), choiceBranch && recursive,
		"the presence test of nodeutil.Node has no branch for a case member that is itself a choice (ask Choose, then look into the chosen case): a case whose only data sits under a nested choice is not recognised as active")
}

// c09ClearClears: Selection.ClearField — what the editor uses to empty the leaves
// of the case that is being left — sends a write marked Clear with no value. A
// value (the schema default, say) written instead keeps the old case populated,
// and the next read reports the old case next to the new one.
func c09ClearClears(ctx *core.Ctx, r *core.Report) {
	f := ctx.Method("node", "Selection", "ClearField")
	set := ctx.Method("node", "Selection", "set")
	if f == nil || set == nil {
		r.Fatalf("anchors node.Selection.ClearField / set not found")
		return
	}
	clearTrue, clearOther, valStored := 0, 0, 0
	core.Instrs(f, func(_ *ssa.BasicBlock, in ssa.Instruction) {
		st, ok := in.(*ssa.Store)
		if !ok {
			return
		}
		fa, ok := st.Addr.(*ssa.FieldAddr)
		if !ok {
			return
		}
		sts, ok := core.Deref(fa.X.Type()).Underlying().(*types.Struct)
		if !ok {
			return
		}
		switch sts.Field(fa.Field).Name() {
		case "Clear":
			if c, isC := st.Val.(*ssa.Const); isC && c.Value != nil && c.Value.String() == "true" {
				clearTrue++
			} else {
				clearOther++
			}
		case "Val":
			if n := core.NamedOf(fa.X.Type()); n != nil && n.Obj().Name() == "ValueHandle" {
				valStored++
			}
		}
	})
	ok := clearTrue == 1 && clearOther == 0 && valStored == 0 && len(callsStatic(f, set, false)) == 1
	r.Ob("clear-clears", "node.Selection.ClearField", ctx.Pos(f.Pos()), ok,
		fmt.Sprintf("ClearField must send exactly one write with Clear=true and an empty value handle (Clear=true stores: %d, other Clear stores: %d, values put into the handle: %d): anything else leaves data in the leaf being cleared — a leaf of the case being left keeps a value and both cases hold data", clearTrue, clearOther, valStored))
}

// c04FoundMemberIsReported: the JSON reader reports a container or list as
// present whenever the document has a member of that name: on the found side of
// the member lookup its Child callback returns a node, or an error about the
// member's shape — never (nil, nil), which means "not there". (An object without
// members is an existing, empty container: `"c":{}` written by the writer must
// read back as c present.)
func c04FoundMemberIsReported(ctx *core.Ctx, r *core.Report) {
	jr := ctx.Fn("nodeutil", "JsonContainerReader")
	get := ctx.Fn("nodeutil", "fqkGet")
	if jr == nil || get == nil {
		r.Fatalf("anchors nodeutil.JsonContainerReader / fqkGet not found")
		return
	}
	n := 0
	for _, clo := range jr.AnonFuncs {
		res := clo.Signature.Results()
		if res.Len() != 2 || !core.IsErrorType(res.At(1).Type()) {
			continue
		}
		if nn := core.NamedOf(res.At(0).Type()); nn == nil || nn.Obj().Name() != "Node" {
			continue
		}
		if clo.Signature.Params().Len() != 1 || !strings.HasSuffix(core.TypeName(clo.Signature.Params().At(0).Type()), "ChildRequest") {
			continue
		}
		gets := callsStatic(clo, get, false)
		if len(gets) == 0 {
			continue
		}
		for _, ret := range core.Returns(clo) {
			found := false
			for _, pc := range core.PathConds(ret.Block()) {
				if ex, ok := pc.V.(*ssa.Extract); ok && pc.True && ex.Index == 1 {
					if ex.Tuple == gets[0].Value() {
						found = true
					}
				}
			}
			if !found {
				continue
			}
			n++
			ops := core.RetOperands(ret)
			// named results: look at the values flowing into them
			nothing := true
			for _, leaf := range core.PhiLeaves(ops[0], ret.Block()) {
				if !core.IsNilConst(leaf.V) {
					nothing = false
				}
			}
			failing := !mayBeSuccess(ret)
			r.Ob("found-member-is-reported", fmt.Sprintf("nodeutil.JsonContainerReader/Child/return#%d", n), ctx.Pos(ret.Pos()), !nothing || failing,
				"the document has a member for this container or list, yet the reader answers (nil, nil) — not there: an existing container with nothing set inside (`\"c\":{}`) is lost on the way in, and exporting again gives another tree")
		}
	}
	r.Floor("found-member-is-reported", n, 3)
}

// c05ListElementsIndividually: a leaf-list value is a list of values of the
// type; the range restriction is asked about each element, never about the list
// as one value (Range.CheckValue on a list answers for "all elements on the same
// side of every bound" — it rejects [3 5] for 1..5 and cannot accept [1 10] for
// 1..5|10). In fieldConstraints.checkRange every Range.CheckValue is on the
// not-a-list side of Format().IsList(), and the list side walks the elements.
func c05ListElementsIndividually(ctx *core.Ctx, r *core.Report) {
	f := ctx.Method("node", "fieldConstraints", "checkRange")
	cv := ctx.Method("meta", "Range", "CheckValue")
	if f == nil || cv == nil {
		r.Fatalf("anchors node.fieldConstraints.checkRange / meta.Range.CheckValue not found")
		return
	}
	n := 0
	for _, c := range callsStatic(f, cv, false) {
		n++
		scalar := false
		for _, pc := range core.PathConds(c.Block()) {
			if call, ok := pc.V.(*ssa.Call); ok && !pc.True {
				if cal := core.StaticCallee(call); cal != nil && cal.Name() == "IsList" {
					scalar = true
				}
			}
		}
		r.Ob("list-elements-individually", fmt.Sprintf("node.fieldConstraints.checkRange/CheckValue#%d", n), ctx.Pos(c.Pos()), scalar,
			"the range is asked about the value as a whole without the test that it is not a list: for a leaf-list the elements are not checked one by one")
	}
	// the list side visits every element with the same check
	walks := false
	for _, clo := range f.AnonFuncs {
		if len(callsStatic(clo, f, false)) > 0 {
			walks = true
		}
	}
	r.Ob("list-elements-individually", "node.fieldConstraints.checkRange/walks-elements", ctx.Pos(f.Pos()), walks && n > 0,
		"checkRange no longer applies itself to each element of a list value")
}
