package rules

import (
	"fmt"
	"go/ast"
	"go/token"
	"go/types"
	"strings"

	"golang.org/x/tools/go/ssa"

	"verif/checker/internal/core"
)

// mayBeSuccess: can the error operand of this return be nil?
func mayBeSuccess(ret *ssa.Return) bool {
	ops := core.RetOperands(ret)
	if len(ops) == 0 {
		return true
	}
	e := ops[len(ops)-1]
	if !core.IsErrorType(e.Type()) {
		return true
	}
	if core.IsNilConst(e) {
		return true
	}
	for _, pc := range core.PathConds(ret.Block()) {
		if bo, ok := pc.V.(*ssa.BinOp); ok && (bo.X == e || core.Strip(bo.X) == e) && core.IsNilConst(bo.Y) {
			if (bo.Op == token.NEQ && pc.True) || (bo.Op == token.EQL && !pc.True) {
				return false
			}
		}
	}
	if c, ok := e.(*ssa.Call); ok {
		if cal := core.StaticCallee(c); cal != nil && (core.FnName(cal) == "fmt.Errorf" || core.FnName(cal) == "errors.New") {
			return false
		}
	}
	return true
}

// postConstraintsAlwaysRun (C07, C05, C12): in Selection.get and Selection.set,
// once the node's Field callback has been called, no successful return comes
// before the field post-constraints were evaluated — with-defaults=trim (the
// field post-constraint) would otherwise not see values that took another way
// out, e.g. a leaf whose value is the schema default just filled in.
func postConstraintsAlwaysRun(ctx *core.Ctx, r *core.Report) {
	nodeI := ctx.Named("node", "Node")
	post := ctx.Method("node", "Constraints", "CheckFieldPostConstraints")
	if nodeI == nil || post == nil {
		r.Fatalf("anchors node.Node / Constraints.CheckFieldPostConstraints not found")
		return
	}
	for _, name := range []string{"get", "set"} {
		f := ctx.Method("node", "Selection", name)
		if f == nil {
			r.Fatalf("anchor node.Selection.%s not found", name)
			continue
		}
		fields := invokesOf(f, false, nodeI, "Field")
		posts := callsStatic(f, post, false)
		if len(fields) != 1 || len(posts) != 1 {
			r.Ob("post-constraints-always-run", "node.Selection."+name, ctx.Pos(f.Pos()), false,
				fmt.Sprintf("expected one Node.Field call and one CheckFieldPostConstraints call, found %d and %d", len(fields), len(posts)))
			continue
		}
		n := 0
		for _, ret := range core.Returns(f) {
			if !instrDominates(fields[0].(ssa.Instruction), ret) || !mayBeSuccess(ret) {
				continue
			}
			n++
			r.Ob("post-constraints-always-run", fmt.Sprintf("node.Selection.%s/return#%d", name, n), ctx.Pos(ret.Pos()), instrDominates(posts[0].(ssa.Instruction), ret),
				"after the node's Field callback the function can return successfully without having evaluated the field post-constraints: a filter that works on the value (with-defaults=trim) never sees the values leaving this way — e.g. a schema default just filled in is reported although trim was asked for")
		}
		if n == 0 {
			r.Fatalf("Selection.%s has no successful return after Node.Field", name)
		}
	}
}

// c08CursorClimbs: in Selection.Find every leading ../ moves the cursor one
// level up from where the previous one left it: the value carried round the loop
// is Parent() of itself, not of the receiver.
func c08CursorClimbs(ctx *core.Ctx, r *core.Report) {
	f := ctx.Method("node", "Selection", "Find")
	parent := ctx.Method("node", "Selection", "Parent")
	if f == nil || parent == nil {
		r.Fatalf("anchors node.Selection.Find / Parent not found")
		return
	}
	n := 0
	for _, c := range callsStatic(f, parent, false) {
		if loopBlocks(c.Block()) == nil {
			continue
		}
		n++
		// its result feeds a phi of the loop, and its receiver is that phi
		recv := c.Common().Args[0]
		ok := false
		if c.Value() != nil {
			for _, ref := range *c.Value().Referrers() {
				if ph, isPhi := ref.(*ssa.Phi); isPhi && (recv == ssa.Value(ph) || core.Strip(recv) == ssa.Value(ph)) {
					ok = true
				}
			}
		}
		r.Ob("relative-steps-consumed", "node.Selection.Find/cursor-climbs", ctx.Pos(c.Pos()), ok,
			"a leading ../ takes the parent of something other than the selection the previous ../ arrived at (the receiver, say): two or more ../ climb one level only, and the rest of the path is resolved from the wrong node")
	}
	r.Floor("relative-steps-consumed(cursor)", n, 1)
}

// c08NavigationBeforeState: a read filter that keeps state (fc.max-node-count)
// lets navigation through before it touches that state: no store to the
// receiver precedes the IsNavigation() test.
func c08NavigationBeforeState(ctx *core.Ctx, r *core.Report) {
	regs := registeredConstraints(ctx, r)
	n := 0
	for named := range regs {
		for i := 0; i < named.NumMethods(); i++ {
			m := named.Method(i)
			if !strings.HasPrefix(m.Name(), "Check") {
				continue
			}
			f := ctx.Prog.FuncValue(m)
			if f == nil || len(f.Blocks) == 0 || len(f.Params) == 0 {
				continue
			}
			var nav ssa.CallInstruction
			for _, c := range core.CallSites(f) {
				if cal := core.StaticCallee(c); cal != nil && cal.Name() == "IsNavigation" {
					nav = c
					break
				}
			}
			if nav == nil {
				continue
			}
			recv := f.Params[0]
			bad := ""
			core.Instrs(f, func(_ *ssa.BasicBlock, in ssa.Instruction) {
				st, ok := in.(*ssa.Store)
				if !ok {
					return
				}
				fa, ok := st.Addr.(*ssa.FieldAddr)
				if !ok || fa.X != ssa.Value(recv) {
					return
				}
				if instrDominates(st, nav.(ssa.Instruction)) {
					bad = core.Deref(recv.Type()).Underlying().(*types.Struct).Field(fa.Field).Name()
				}
			})
			if _, isPtr := recv.Type().Underlying().(*types.Pointer); !isPtr {
				continue // a value receiver cannot keep state
			}
			n++
			r.Ob("navigation-exempt", "node."+named.Obj().Name()+"."+m.Name()+"/no-state-before-guard", ctx.Pos(f.Pos()), bad == "",
				"the constraint changes its own state ("+bad+") before it tests IsNavigation(): the steps Find walks through use up the budget of the query's own read filter, and the read of the found node fails or is cut short")
		}
	}
	r.Count("instances:navigation-exempt(stateful checks)", n)
}

// c08KeyTextVerbatim: the text of a key, once percent-decoded, is handed to the
// value constructor as it is: NewValuesByString passes objs[i] itself.
func c08KeyTextVerbatim(ctx *core.Ctx, r *core.Report) {
	f := ctx.Fn("node", "NewValuesByString")
	nv := ctx.Fn("node", "NewValue")
	if f == nil || nv == nil || len(f.Params) < 2 {
		r.Fatalf("anchors node.NewValuesByString / NewValue not found")
		return
	}
	objs := f.Params[1]
	n := 0
	for _, c := range callsStatic(f, nv, false) {
		n++
		arg := c.Common().Args[1]
		if mi, ok := arg.(*ssa.MakeInterface); ok {
			arg = mi.X
		}
		ok := false
		if u, isU := arg.(*ssa.UnOp); isU && u.Op == token.MUL {
			if ia, isIa := u.X.(*ssa.IndexAddr); isIa && ia.X == ssa.Value(objs) {
				ok = true
			}
		}
		what := "a transformed copy"
		if call, isCall := arg.(*ssa.Call); isCall {
			what = "the result of " + core.CalleeName(call)
		}
		r.Ob("key-text-verbatim", "node.NewValuesByString→NewValue", ctx.Pos(c.Pos()), ok,
			"the key text handed to the value constructor is "+what+", not the decoded text itself: keys that differ only in what the transformation removes (leading or trailing blanks, case) address the same entry, and an absent key finds its trimmed twin")
	}
	r.Floor("key-text-verbatim", n, 1)
}

// ineffectiveBreak (C07 and any scanner loop): an unlabeled `break` that is the
// last statement of a switch case inside a loop leaves only the switch — it does
// nothing — while it reads as "stop scanning". ParsePathExpression relies on
// leaving its loop as soon as a ')' closes a group that was never opened; with
// the test moved into the `case ')'` the loop goes on, a later '(' balances the
// count, and `a)(b` is accepted.
func ineffectiveBreak(ctx *core.Ctx, r *core.Report, pkgs ...string) int {
	n := 0
	for _, short := range pkgs {
		pp := ctx.PPkg(short)
		if pp == nil {
			continue
		}
		for _, file := range pp.Syntax {
			fname := ctx.Pos(file.Pos())
			if strings.Contains(fname, "_test.go") {
				continue
			}
			var stack []ast.Node
			ast.Inspect(file, func(nd ast.Node) bool {
				if nd == nil {
					stack = stack[:len(stack)-1]
					return true
				}
				stack = append(stack, nd)
				br, ok := nd.(*ast.BranchStmt)
				if !ok || br.Tok != token.BREAK || br.Label != nil {
					return true
				}
				// innermost breakable construct
				inLoop := false
				var clause *ast.CaseClause
				var comm *ast.CommClause
				swIdx := -1
				for i := len(stack) - 2; i >= 0; i-- {
					switch x := stack[i].(type) {
					case *ast.CaseClause:
						if clause == nil && comm == nil {
							clause = x
						}
					case *ast.CommClause:
						if clause == nil && comm == nil {
							comm = x
						}
					case *ast.SwitchStmt, *ast.TypeSwitchStmt, *ast.SelectStmt:
						if swIdx < 0 {
							swIdx = i
						}
					case *ast.ForStmt, *ast.RangeStmt:
						if swIdx < 0 {
							return true // breaks a loop: effective
						}
						inLoop = true
					case *ast.FuncLit, *ast.FuncDecl:
						i = -1
					}
					if inLoop {
						break
					}
				}
				if swIdx < 0 || !inLoop {
					return true
				}
				n++
				fn := ""
				for i := len(stack) - 1; i >= 0; i-- {
					if fd, ok := stack[i].(*ast.FuncDecl); ok {
						fn = fd.Name.Name
						break
					}
				}
				r.Ob("ineffective-break", short+"."+fn+"/break-in-switch-in-loop", ctx.Pos(br.Pos()), false,
					"this `break` sits in a switch case inside a loop: it leaves the switch only, the loop goes on. Where it is meant to stop the scan (an invalid character sequence seen), the input is accepted instead of rejected")
				return true
			})
		}
	}
	return n
}
