package rules

import (
	"fmt"
	"go/ast"
	"go/token"
	"go/types"
	"path/filepath"
	"sort"
	"strconv"
	"strings"

	"golang.org/x/tools/go/ssa"

	"verif/checker/internal/core"
	"verif/checker/internal/yacc"
)

// ---------------------------------------------------------------------------
// C06 — nothing written in a module is lost or altered on the way into the
// schema. Grammar lint (engine D) over parser/parser.y plus builder rules.
// ---------------------------------------------------------------------------

// builderCalls lists the calls of the form <x>.builder.M(args) in an action.
type builderCall struct {
	Method string
	Call   *ast.CallExpr
}

func actionBuilderCalls(a *yacc.Action) []builderCall {
	var out []builderCall
	if a == nil || a.Body == nil {
		return nil
	}
	ast.Inspect(a.Body, func(n ast.Node) bool {
		ce, ok := n.(*ast.CallExpr)
		if !ok {
			return true
		}
		sel, ok := ce.Fun.(*ast.SelectorExpr)
		if !ok {
			return true
		}
		inner, ok := sel.X.(*ast.SelectorExpr)
		if ok && inner.Sel.Name == "builder" {
			out = append(out, builderCall{sel.Sel.Name, ce})
		}
		return true
	})
	return out
}

// rawUses: positions N such that yyD_N is passed to a builder call (directly
// or inside an expression) without going through one of the decode helpers.
func rawDollarArgs(bc builderCall, decode map[string]bool) map[int]bool {
	raw := map[int]bool{}
	var walk func(n ast.Node, decoded bool)
	walk = func(n ast.Node, decoded bool) {
		switch x := n.(type) {
		case *ast.CallExpr:
			d := decoded
			if id, ok := x.Fun.(*ast.Ident); ok && decode[id.Name] {
				d = true
			}
			for _, a := range x.Args {
				walk(a, d)
			}
			return
		case *ast.Ident:
			if strings.HasPrefix(x.Name, "yyD_") && !decoded {
				n, _ := strconv.Atoi(x.Name[4:])
				raw[n] = true
			}
			return
		}
		if n == nil {
			return
		}
		ast.Inspect(n, func(c ast.Node) bool {
			if c == n || c == nil {
				return true
			}
			switch c.(type) {
			case *ast.CallExpr, *ast.Ident:
				walk(c, decoded)
				return false
			}
			return true
		})
	}
	for _, a := range bc.Call.Args {
		walk(a, false)
	}
	return raw
}

func countStackOps(a *yacc.Action) (push, pop int) {
	if a == nil || a.Body == nil {
		return
	}
	ast.Inspect(a.Body, func(n ast.Node) bool {
		ce, ok := n.(*ast.CallExpr)
		if !ok {
			return true
		}
		sel, ok := ce.Fun.(*ast.SelectorExpr)
		if !ok {
			return true
		}
		inner, ok := sel.X.(*ast.SelectorExpr)
		if ok && inner.Sel.Name == "stack" {
			switch sel.Sel.Name {
			case "push":
				push++
			case "pop":
				pop++
			}
		}
		return true
	})
	return
}

func loadGrammar(ctx *core.Ctx, r *core.Report, rel string) *yacc.Grammar {
	g, err := yacc.Parse(filepath.Join(ctx.Repo, rel))
	if err != nil {
		r.Fatalf("cannot read grammar %s: %v", rel, err)
		return nil
	}
	nAlt, nAct, bad := 0, 0, 0
	for _, rule := range g.Rules {
		for _, alt := range rule.Alts {
			nAlt++
			acts := []*yacc.Action{alt.Action}
			for _, s := range alt.Syms {
				acts = append(acts, s.Action)
			}
			for _, a := range acts {
				if a == nil {
					continue
				}
				nAct++
				if a.Err != nil {
					bad++
					r.Fatalf("%s:%d: action of %s does not parse as Go: %v", rel, a.Line, rule.Name, a.Err)
				}
			}
		}
	}
	r.Count("grammar_nonterminals:"+rel, len(g.Rules))
	r.Count("grammar_alternatives:"+rel, nAlt)
	r.Count("grammar_actions:"+rel, nAct)
	return g
}

// lexerKeywords reads `var keywords = [...]string{...}` from parser/lexer.go.
func lexerKeywords(ctx *core.Ctx, r *core.Report) []string {
	p := ctx.PPkg("parser")
	if p == nil {
		r.Fatalf("package parser not found")
		return nil
	}
	for _, f := range p.Syntax {
		for _, d := range f.Decls {
			gd, ok := d.(*ast.GenDecl)
			if !ok || gd.Tok != token.VAR {
				continue
			}
			for _, sp := range gd.Specs {
				vs := sp.(*ast.ValueSpec)
				if len(vs.Names) == 1 && vs.Names[0].Name == "keywords" && len(vs.Values) == 1 {
					cl, ok := vs.Values[0].(*ast.CompositeLit)
					if !ok {
						continue
					}
					var out []string
					for _, e := range cl.Elts {
						if bl, ok := e.(*ast.BasicLit); ok && bl.Kind == token.STRING {
							s, _ := strconv.Unquote(bl.Value)
							out = append(out, s)
						}
					}
					return out
				}
			}
		}
	}
	r.Fatalf("anchor parser.keywords not found")
	return nil
}

// the statement keyword spelled by a kywd_* token.
func kywdSpelling(tok string) string {
	if tok == "kywd_str_plus" {
		return "+"
	}
	return strings.ReplaceAll(strings.TrimPrefix(tok, "kywd_"), "_", "-")
}

// alternatives that legitimately carry an unreferenced value, with the reason.
var c06ValueAllow = map[string]string{
	"import_body_stmt/kywd_revision token_string token_semi":  "`revision` inside import is not a YANG 1.1 statement (revision-date is); accepted and ignored for old modules",
	"include_body_stmt/kywd_revision token_string token_semi": "`revision` inside include is not a YANG 1.1 statement (revision-date is); accepted and ignored for old modules",
}

func C06(ctx *core.Ctx, r *core.Report) {
	r.Explanation = "Grammar lint over parser/parser.y (every value-carrying symbol of every production reaches the builder or $$; enumerator alternatives have actions; string tokens reach the builder only through the canonical decoder; net builder-stack effect of every production is balanced and consistent; extension keyword literals agree with the statement's keyword; lexer keyword table and %token list agree), plus builder rules (no add* error dropped, every stored field has an exported reader) and order rules (no order-sensitive effect inside iteration over a map on the load path; sibling collections keep order). Text is decoded once (tokenString/trimQuotes only on raw tokens, D8); a fallible Builder result that is pushed on the parser stack is followed by the LastErr check that abandons the parse (D9); Builder methods return freshly built objects. Not decided: the lexer's string scanning itself (escapes, indentation stripping, '+' concatenation results), comment placement."
	g := loadGrammar(ctx, r, "parser/parser.y")
	if g == nil {
		return
	}
	kw := lexerKeywords(ctx, r)
	c06TokenTables(ctx, r, g, kw)
	c06ValueDelivery(ctx, r, g)
	c06CanonicalDecode(ctx, r, g)
	c06DecodeOnce(ctx, r, g)
	c06CommentEndBehindOpener(ctx, r)
	c06BuilderErrorChecked(ctx, r, g)
	c06StackBalance(ctx, r, g)
	c06KeywordLiterals(ctx, r, g)
	c06NoSilentDiscard(ctx, r)
	c06FieldsReadable(ctx, r)
	c06MapOrder(ctx, r)
	c06ExtensionOnce(ctx, r, g)
	c06SiblingOrder(ctx, r)
	c06BuilderFresh(ctx, r)
	c06AppendKeepsOrder(ctx, r)
	r.Count("instances:textual-order-kept(sort calls examined)", textualOrderKept(ctx, r, scopeFuncs(ctx, "meta")))
	c06EscapeOnlyInDoubleQuotes(ctx, r)
	c06RefineAppliesToTarget(ctx, r)
	c06DecoderExact(ctx, r)
	// statements guarded by a feature, and units stated on a node, are part of what was written
	c11InitializeMerges(ctx, r)
	{
		sub := core.NewReport("C02", r.Tier, r.Root, r.Seed)
		c02Inheritance(ctx, sub)
		r.Borrow(sub, "typedef-inheritance")
	}
	c06CommentTerminator(ctx, r)
	c06BuilderStoresVerbatim(ctx, r)
}

// D6/D7: lexer.keywords[i] spells the i-th kywd token declared after token_semi.
func c06TokenTables(ctx *core.Ctx, r *core.Report, g *yacc.Grammar, kw []string) {
	// tokens in declaration order starting at token_ident: keywords[] is indexed by (ttype - token_ident)
	start, ok := g.TokIndex["token_ident"]
	if !ok {
		r.Fatalf("grammar: token_ident not declared")
		return
	}
	toks := g.Tokens[start:]
	if len(kw) != len(toks) {
		r.Ob("token-table", "parser.keywords/length", "parser/lexer.go", false,
			fmt.Sprintf("lexer keyword table has %d entries, grammar declares %d tokens from token_ident on: every later keyword is mis-spelled", len(kw), len(toks)))
	}
	n := 0
	for i, t := range toks {
		if !strings.HasPrefix(t.Name, "kywd_") {
			continue
		}
		n++
		got := ""
		if i < len(kw) {
			got = kw[i]
		}
		want := kywdSpelling(t.Name)
		r.Ob("token-table", "parser.keywords/"+t.Name, fmt.Sprintf("parser/parser.y:%d", t.Line), got == want,
			fmt.Sprintf("lexer spells token %s as %q, the grammar's name says %q", t.Name, got, want))
	}
	r.Floor("token-table", n, 80)
}

// D1: value delivery and enumerator alternatives.
func c06ValueDelivery(ctx *core.Ctx, r *core.Report, g *yacc.Grammar) {
	n := 0
	for _, rule := range g.Rules {
		for _, alt := range rule.Alts {
			refs, _ := alt.Action.Refs()
			for _, s := range alt.Syms {
				if s.Action != nil {
					rr, _ := s.Action.Refs()
					for k := range rr {
						refs[k] = true
					}
				}
			}
			var names []string
			for _, s := range alt.Syms {
				names = append(names, s.Name)
			}
			altKey := rule.Name + "/" + strings.Join(names, " ")
			for i, s := range alt.Syms {
				vt := g.ValueType(s.Name)
				if vt == "" || s.Action != nil {
					continue
				}
				if vt == "ext" {
					continue // an <ext> value is attached to its parent by its own production
				}
				// pass-through alternative `a : b` without action: yacc's default $$ = $1
				if len(alt.Syms) == 1 && alt.Action == nil && g.ValueType(rule.Name) == vt {
					continue
				}
				n++
				ok := refs[i+1]
				msg := ""
				if !ok {
					if reason, allowed := c06ValueAllow[altKey]; allowed {
						ok, msg = true, "allowed: "+reason
					} else {
						msg = fmt.Sprintf("the value of %s ($%d) is never used by the action: what the module wrote there is dropped", s.Name, i+1)
					}
				}
				r.Ob("value-delivery", fmt.Sprintf("%s/$%d", altKey, i+1), fmt.Sprintf("parser/parser.y:%d", alt.Line), ok, msg)
			}
		}
		// enumerator alternatives: all alternatives have the same shape except one keyword position
		if len(rule.Alts) >= 2 {
			shape := func(a *yacc.Alt) []string {
				var s []string
				for _, x := range a.Syms {
					s = append(s, x.Name)
				}
				return s
			}
			base := shape(rule.Alts[0])
			diffPos := -1
			enum := true
			for _, a := range rule.Alts[1:] {
				s := shape(a)
				if len(s) != len(base) {
					enum = false
					break
				}
				for i := range s {
					if s[i] != base[i] {
						if diffPos == -1 {
							diffPos = i
						}
						if diffPos != i || !strings.HasPrefix(s[i], "kywd_") || !strings.HasPrefix(base[i], "kywd_") {
							enum = false
						}
					}
				}
			}
			if enum && diffPos >= 0 {
				for _, a := range rule.Alts {
					n++
					has := a.Action != nil
					r.Ob("value-delivery", fmt.Sprintf("%s/enumerator:%s", rule.Name, a.Syms[diffPos].Name), fmt.Sprintf("parser/parser.y:%d", a.Line), has,
						fmt.Sprintf("alternative distinguished only by keyword %s has no action: the choice the module made is lost", a.Syms[diffPos].Name))
				}
			}
		}
	}
	r.Floor("value-delivery", n, 80)
}

// D2: a raw token_string reaches the builder only through tokenString().
func c06CanonicalDecode(ctx *core.Ctx, r *core.Report, g *yacc.Grammar) {
	decode := map[string]bool{"tokenString": true}
	n := 0
	for _, rule := range g.Rules {
		for _, alt := range rule.Alts {
			acts := []*yacc.Action{alt.Action}
			for _, s := range alt.Syms {
				acts = append(acts, s.Action)
			}
			var names []string
			for _, s := range alt.Syms {
				names = append(names, s.Name)
			}
			for _, a := range acts {
				for _, bc := range actionBuilderCalls(a) {
					raw := rawDollarArgs(bc, decode)
					var ks []int
					for k := range raw {
						ks = append(ks, k)
					}
					sort.Ints(ks)
					for i, s := range alt.Syms {
						if s.Name != "token_string" {
							continue
						}
						used := false
						for _, k := range ks {
							if k == i+1 {
								used = true
							}
						}
						// only count string tokens that this builder call consumes at all
						mentions := false
						ast.Inspect(bc.Call, func(nn ast.Node) bool {
							if id, ok := nn.(*ast.Ident); ok && id.Name == fmt.Sprintf("yyD_%d", i+1) {
								mentions = true
							}
							return true
						})
						if !mentions {
							continue
						}
						n++
						r.Ob("canonical-decode", fmt.Sprintf("%s/%s/builder.%s($%d)", rule.Name, strings.Join(names, " "), bc.Method, i+1),
							fmt.Sprintf("parser/parser.y:%d", a.Line), !used,
							fmt.Sprintf("the raw token_string $%d is handed to builder.%s without tokenString(): quotes (and nothing else) are kept in the schema, so the text does not read back as written", i+1, bc.Method))
					}
				}
			}
		}
	}
	r.Floor("canonical-decode", n, 8)
}

// D3: net builder-stack effect per non-terminal.
func c06StackBalance(ctx *core.Ctx, r *core.Report, g *yacc.Grammar) {
	eff := map[string]int{}
	known := map[string]bool{}
	altEffect := func(a *yacc.Alt) (int, bool) {
		e := 0
		p, q := countStackOps(a.Action)
		e += p - q
		for _, s := range a.Syms {
			if s.Action != nil {
				p, q := countStackOps(s.Action)
				e += p - q
				continue
			}
			if g.IsToken(s.Name) {
				continue
			}
			if s.Name == a.Rule.Name {
				// left/right recursion: consistent only if the rest nets to the same effect;
				// handled by treating the recursive symbol as the rule's own effect
				if known[s.Name] {
					e += eff[s.Name]
				} else {
					return 0, false
				}
				continue
			}
			if !known[s.Name] {
				return 0, false
			}
			e += eff[s.Name]
		}
		return e, true
	}
	for iter := 0; iter < 50; iter++ {
		progress := false
		for _, rule := range g.Rules {
			if known[rule.Name] {
				continue
			}
			for _, a := range rule.Alts {
				if e, ok := altEffect(a); ok {
					eff[rule.Name] = e
					known[rule.Name] = true
					progress = true
					break
				}
			}
		}
		if !progress {
			break
		}
	}
	n := 0
	for _, rule := range g.Rules {
		if !known[rule.Name] {
			r.Ob("stack-balance", rule.Name, fmt.Sprintf("parser/parser.y:%d", rule.Line), false, "stack effect could not be determined (no non-recursive alternative)")
			continue
		}
		want := eff[rule.Name]
		okAll := true
		var bad []string
		for _, a := range rule.Alts {
			e, ok := altEffect(a)
			if !ok || e != want {
				okAll = false
				bad = append(bad, fmt.Sprintf("alternative at line %d nets %+d, others %+d", a.Line, e, want))
			}
		}
		// a recursive list rule must not accumulate: xs : x | xs x  ⇒ effect(x) == 0
		for _, a := range rule.Alts {
			for _, s := range a.Syms {
				if s.Name == rule.Name && want != 0 {
					okAll = false
					bad = append(bad, "recursive rule with a non-zero net effect accumulates stack entries")
				}
			}
		}
		// naming convention of this grammar
		expect, hasExpect := 0, false
		switch {
		case rule.Name == "module":
			expect, hasExpect = 1, true // the module is left on the stack for the loader
		case strings.HasSuffix(rule.Name, "_def"):
			expect, hasExpect = 1, true
		case strings.HasSuffix(rule.Name, "_stmt") || strings.HasSuffix(rule.Name, "_stmts"):
			expect, hasExpect = 0, true
		}
		if reason, exc := c06StackException[rule.Name]; exc {
			hasExpect = false
			_ = reason
		}
		if hasExpect && want != expect {
			okAll = false
			bad = append(bad, fmt.Sprintf("nets %+d builder-stack entries, a %s production must net %+d", want, rule.Name, expect))
		}
		n++
		r.Ob("stack-balance", rule.Name, fmt.Sprintf("parser/parser.y:%d", rule.Line), okAll, strings.Join(bad, "; "))
	}
	r.Floor("stack-balance", n, 150)
}

// productions whose name does not follow the _def/+1, _stmt/0 convention.
var c06StackException = map[string]string{
	"deviate_stmt": "the `{ … }` body of a deviate: always follows a deviate_*_def in the same alternative and pops what that def pushed (the pair nets 0, checked through deviation_body_stmt)",
}

// D4: chkErr2(l, "<kw>", $n): the literal is the keyword of the statement.
func c06KeywordLiterals(ctx *core.Ctx, r *core.Report, g *yacc.Grammar) {
	n := 0
	for _, rule := range g.Rules {
		for _, alt := range rule.Alts {
			if alt.Action == nil || alt.Action.Body == nil || len(alt.Syms) == 0 {
				continue
			}
			first := alt.Syms[0].Name
			ast.Inspect(alt.Action.Body, func(nn ast.Node) bool {
				ce, ok := nn.(*ast.CallExpr)
				if !ok {
					return true
				}
				id, ok := ce.Fun.(*ast.Ident)
				if !ok || id.Name != "chkErr2" || len(ce.Args) != 3 {
					return true
				}
				bl, ok := ce.Args[1].(*ast.BasicLit)
				if !ok {
					return true
				}
				lit, _ := strconv.Unquote(bl.Value)
				n++
				ok2 := false
				for _, s := range alt.Syms {
					if !strings.HasPrefix(s.Name, "kywd_") {
						break
					}
					if kywdSpelling(s.Name) == lit {
						ok2 = true // `deviate not-supported` is recorded under its second keyword
					}
				}
				r.Ob("keyword-literal", rule.Name+"/"+first, fmt.Sprintf("parser/parser.y:%d", alt.Action.Line), ok2,
					fmt.Sprintf("extension on this statement is recorded under keyword %q but the statement is %q", lit, kywdSpelling(first)))
				return true
			})
		}
	}
	r.Floor("keyword-literal", n, 15)
}

// c06ExtensionOnce (D5): an extension written once appears once. The grammar
// attaches a secondary extension in unknown_stmt's own action and again through
// statement_end → chkErr2 → AddExtension, so Builder.AddExtension must not add
// an *Extension its target already holds.
func c06ExtensionOnce(ctx *core.Ctx, r *core.Report, g *yacc.Grammar) {
	// does the grammar attach twice?
	double := false
	if se := g.ByName["statement_end"]; se != nil {
		for _, alt := range se.Alts {
			for _, s := range alt.Syms {
				if s.Name == "unknown_stmt" {
					// unknown_stmt's own action calls AddExtension
					if us := g.ByName["unknown_stmt"]; us != nil {
						for _, ua := range us.Alts {
							for _, bc := range actionBuilderCalls(ua.Action) {
								if bc.Method == "AddExtension" {
									double = true
								}
							}
						}
					}
				}
			}
		}
	}
	fn := ctx.Method("meta", "Builder", "AddExtension")
	if fn == nil {
		r.Fatalf("anchor meta.Builder.AddExtension not found")
		return
	}
	// AddExtension is idempotent per object if the call of addExtension is
	// control-dependent on a comparison of the new extension with existing ones.
	dedup := false
	core.Instrs(fn, func(_ *ssa.BasicBlock, in ssa.Instruction) {
		if bo, ok := in.(*ssa.BinOp); ok && (bo.Op == token.EQL || bo.Op == token.NEQ) {
			if len(fn.Params) == 4 && (bo.X == ssa.Value(fn.Params[3]) || bo.Y == ssa.Value(fn.Params[3])) {
				dedup = true
			}
		}
	})
	ok := !double || dedup
	r.Ob("extension-once", "statement_end→chkErr2→meta.Builder.AddExtension", ctx.Pos(fn.Pos()), ok,
		"a secondary extension (description \"d\" { m:e \"x\"; }) is attached by unknown_stmt's own action and again by chkErr2, and AddExtension does not recognise the repeat: Extensions() lists it twice")
}

// c06NoSilentDiscard: error results of the add*/set* calls that insert a parsed
// definition into its parent are never dropped in package meta's builder.
func c06NoSilentDiscard(ctx *core.Ctx, r *core.Report) {
	n := 0
	for _, f := range ctx.RepoFuncs() {
		if core.FnPkgPath(f) != core.Full("meta") {
			continue
		}
		recv := f.Signature.Recv()
		if recv == nil || core.NamedOf(recv.Type()) == nil || core.NamedOf(recv.Type()).Obj().Name() != "Builder" {
			continue
		}
		core.Instrs(f, func(_ *ssa.BasicBlock, in ssa.Instruction) {
			c, ok := in.(*ssa.Call)
			if !ok {
				return
			}
			res := c.Common().Signature().Results()
			if res.Len() != 1 || !core.IsErrorType(res.At(0).Type()) {
				return
			}
			name := ""
			if m := core.IfaceMethod(c); m != nil {
				name = m.Name()
			} else if cal := core.StaticCallee(c); cal != nil {
				name = cal.Name()
			}
			if !strings.HasPrefix(name, "add") {
				return
			}
			n++
			used := len(*c.Referrers()) > 0
			r.Ob("no-silent-discard", core.FnName(f)+"/"+name, ctx.Pos(c.Pos()), used,
				fmt.Sprintf("the error of %s is dropped: a duplicate or misplaced definition silently disappears instead of failing the load", name))
		})
	}
	r.Floor("no-silent-discard", n, 10)
}

// c06FieldsReadable: every field of a schema struct that the builder (or the
// grammar through it) stores can be read back through an exported method.
func c06FieldsReadable(ctx *core.Ctx, r *core.Report) {
	metaPkg := ctx.TPkg("meta")
	if metaPkg == nil {
		return
	}
	type fkey struct {
		t *types.Named
		i int
	}
	written := map[fkey]string{} // by Builder methods (directly or via unexported setters they call)
	read := map[fkey]bool{}      // by exported methods/functions of package meta
	fieldOf := func(fa *ssa.FieldAddr) (fkey, bool) {
		n := core.NamedOf(fa.X.Type())
		if n == nil || n.Obj().Pkg() != metaPkg {
			return fkey{}, false
		}
		if _, ok := n.Underlying().(*types.Struct); !ok {
			return fkey{}, false
		}
		return fkey{n, fa.Field}, true
	}
	// writers: Builder methods and the unexported set*/add* methods they reach (1 level)
	builderFns := map[*ssa.Function]bool{}
	for _, f := range ctx.RepoFuncs() {
		if core.FnPkgPath(f) != core.Full("meta") {
			continue
		}
		recv := f.Signature.Recv()
		if recv != nil && core.NamedOf(recv.Type()) != nil && core.NamedOf(recv.Type()).Obj().Name() == "Builder" {
			builderFns[f] = true
		}
	}
	cg := ctx.CG()
	writers := map[*ssa.Function]bool{}
	for f := range builderFns {
		writers[f] = true
		if n := cg.Nodes[f]; n != nil {
			for _, e := range n.Out {
				c := e.Callee.Func
				if core.FnPkgPath(c) == core.Full("meta") && c.Object() != nil && !c.Object().Exported() {
					writers[c] = true
				}
			}
		}
	}
	for f := range writers {
		core.Instrs(f, func(_ *ssa.BasicBlock, in ssa.Instruction) {
			if st, ok := in.(*ssa.Store); ok {
				if fa, ok := st.Addr.(*ssa.FieldAddr); ok {
					if k, ok := fieldOf(fa); ok {
						if _, seen := written[k]; !seen {
							written[k] = core.FnName(f)
						}
					}
				}
			}
		})
	}
	// readers: exported methods and functions of package meta (transitively through unexported helpers, 2 levels)
	var readers []*ssa.Function
	seen := map[*ssa.Function]bool{}
	var addReader func(f *ssa.Function, depth int)
	addReader = func(f *ssa.Function, depth int) {
		if seen[f] || depth > 2 || len(f.Blocks) == 0 {
			return
		}
		seen[f] = true
		readers = append(readers, f)
		if n := cg.Nodes[f]; n != nil {
			for _, e := range n.Out {
				c := e.Callee.Func
				if core.FnPkgPath(c) == core.Full("meta") {
					addReader(c, depth+1)
				}
			}
		}
	}
	for _, f := range ctx.RepoFuncs() {
		if core.FnPkgPath(f) != core.Full("meta") || f.Object() == nil || !f.Object().Exported() || builderFns[f] {
			continue
		}
		// setters are not readers
		if strings.HasPrefix(f.Name(), "Set") {
			continue
		}
		addReader(f, 0)
	}
	for _, f := range readers {
		core.Instrs(f, func(_ *ssa.BasicBlock, in ssa.Instruction) {
			switch x := in.(type) {
			case *ssa.FieldAddr:
				// a load (not only a store) through this address
				for _, ref := range *x.Referrers() {
					if u, ok := ref.(*ssa.UnOp); ok && u.Op == token.MUL {
						if k, ok := fieldOf(x); ok {
							read[k] = true
						}
					}
					if _, ok := ref.(*ssa.Range); ok {
						if k, ok := fieldOf(x); ok {
							read[k] = true
						}
					}
				}
			case *ssa.Field:
				n := core.NamedOf(x.X.Type())
				if n != nil && n.Obj().Pkg() == metaPkg {
					read[fkey{n, x.Field}] = true
				}
			}
		})
	}
	// consumers: functions reachable from meta.Compile that load the field
	consumed := map[fkey]bool{}
	if cf := ctx.Fn("meta", "Compile"); cf != nil {
		cr := ctx.Reachable(ctx.CG(), []*ssa.Function{cf}, nil)
		for f := range cr.Set {
			if core.FnPkgPath(f) != core.Full("meta") || len(f.Blocks) == 0 {
				continue
			}
			core.Instrs(f, func(_ *ssa.BasicBlock, in ssa.Instruction) {
				if x, ok := in.(*ssa.FieldAddr); ok {
					for _, ref := range *x.Referrers() {
						if u, ok := ref.(*ssa.UnOp); ok && u.Op == token.MUL {
							if k, ok := fieldOf(x); ok {
								consumed[k] = true
							}
						}
					}
				}
			})
		}
	} else {
		r.Fatalf("anchor meta.Compile not found")
	}
	var keys []fkey
	for k := range written {
		keys = append(keys, k)
	}
	sort.Slice(keys, func(i, j int) bool {
		if keys[i].t.Obj().Name() != keys[j].t.Obj().Name() {
			return keys[i].t.Obj().Name() < keys[j].t.Obj().Name()
		}
		return keys[i].i < keys[j].i
	})
	n := 0
	for _, k := range keys {
		st := k.t.Underlying().(*types.Struct)
		fname := st.Field(k.i).Name()
		key := "meta." + k.t.Obj().Name() + "." + fname
		if reason, skip := c06FieldSkip[key]; skip {
			r.Ob("field-readable", key, ctx.Pos(st.Field(k.i).Pos()), true, "not schema content: "+reason)
			continue
		}
		n++
		if st.Field(k.i).Exported() {
			r.Ob("field-readable", key, ctx.Pos(st.Field(k.i).Pos()), true, "exported field")
			continue
		}
		if !read[k] && consumed[k] {
			r.Ob("field-readable", key, ctx.Pos(st.Field(k.i).Pos()), true, "consumed by the resolve/compile phase, whose result is readable")
			continue
		}
		r.Ob("field-readable", key, ctx.Pos(st.Field(k.i).Pos()), read[k],
			fmt.Sprintf("field is stored by %s but no exported method of package meta ever loads it: what the module wrote there cannot be read back", written[k]))
	}
	r.Floor("field-readable", n, 150)
}

// fields the builder stores that are bookkeeping, not statement content.
var c06FieldSkip = map[string]string{
	"meta.Builder.LastErr":       "the builder's own error slot (exported field)",
	"meta.Uses.schemaId":         "internal counter, not a statement argument",
	"meta.Import.loader":         "loader callback handed in by the parser",
	"meta.Include.loader":        "loader callback handed in by the parser",
	"meta.Module.featureSet":     "load option, not module text",
	"meta.Import.parent":         "back pointer",
	"meta.Include.parent":        "back pointer",
	"meta.AddDeviate.parent":     "back pointer",
	"meta.ReplaceDeviate.parent": "back pointer",
	"meta.DeleteDeviate.parent":  "back pointer",
}

// c06MapOrder: on the load path, an iteration over a map must not have an
// order-sensitive effect (append to a slice that outlives the loop, first
// match returned) unless the result is sorted afterwards.
func c06MapOrder(ctx *core.Ctx, r *core.Report) {
	roots := loadRoots(ctx, r)
	reach := ctx.Reachable(ctx.CG(), roots, nil)
	// functions that append to a slice field of an object that is NOT one of
	// their own parameters (so the callee's effect lands on some third object:
	// calling it per map element makes that object's slice order follow map order)
	appendsField := map[*ssa.Function]string{}
	for _, f := range ctx.RepoFuncs() {
		p := core.FnPkgPath(f)
		if p != core.Full("meta") && p != core.Full("parser") {
			continue
		}
		core.Instrs(f, func(_ *ssa.BasicBlock, in ssa.Instruction) {
			c, ok := in.(*ssa.Call)
			if !ok {
				return
			}
			if bi, ok := c.Common().Value.(*ssa.Builtin); ok && bi.Name() == "append" {
				for _, ref := range *c.Referrers() {
					if st, ok := ref.(*ssa.Store); ok {
						if fa, ok := st.Addr.(*ssa.FieldAddr); ok {
							root, _ := addrRoot(fa.X)
							if _, isParam := root.(*ssa.Parameter); isParam {
								continue
							}
							if _, isAlloc := root.(*ssa.Alloc); isAlloc {
								continue
							}
							if n := core.NamedOf(fa.X.Type()); n != nil {
								if sst, ok := n.Underlying().(*types.Struct); ok {
									appendsField[f] = n.Obj().Name() + "." + sst.Field(fa.Field).Name()
								}
							}
						}
					}
				}
			}
		})
	}
	// transitive closure over static calls inside the repo (≤ 3 levels)
	reachesForeign := func(f *ssa.Function) (string, bool) {
		seen := map[*ssa.Function]bool{}
		type item struct {
			f   *ssa.Function
			d   int
			via string
		}
		q := []item{{f, 0, core.FnName(f)}}
		for len(q) > 0 {
			it := q[0]
			q = q[1:]
			if seen[it.f] || it.d > 3 {
				continue
			}
			seen[it.f] = true
			if fld, ok := appendsField[it.f]; ok {
				return it.via + ", which appends to " + fld + " of an object other than its arguments", true
			}
			for _, cs := range core.CallSites(it.f) {
				if cal := core.StaticCallee(cs); cal != nil && core.InRepo(core.FnPkgPath(cal)) {
					q = append(q, item{cal, it.d + 1, it.via + " → " + core.FnName(cal)})
				}
			}
		}
		return "", false
	}
	nLoops := 0
	for _, f := range ctx.RepoFuncs() {
		p := core.FnPkgPath(f)
		if !reach.Set[f] || (p != core.Full("meta") && p != core.Full("parser")) {
			continue
		}
		core.Instrs(f, func(_ *ssa.BasicBlock, in ssa.Instruction) {
			rg, ok := in.(*ssa.Range)
			if !ok {
				return
			}
			if _, isMap := rg.X.Type().Underlying().(*types.Map); !isMap {
				return
			}
			nLoops++
			// loop body = blocks dominated by the true successor of the block that tests Next's ok
			var bodyHead *ssa.BasicBlock
			for _, ref := range *rg.Referrers() {
				nx, ok := ref.(*ssa.Next)
				if !ok {
					continue
				}
				for _, r2 := range *nx.Referrers() {
					if ex, ok := r2.(*ssa.Extract); ok && ex.Index == 0 {
						for _, r3 := range *ex.Referrers() {
							if ifi, ok := r3.(*ssa.If); ok {
								bodyHead = ifi.Block().Succs[0]
							}
						}
					}
				}
			}
			if bodyHead == nil {
				return
			}
			var effects []string
			for _, b := range f.Blocks {
				if !bodyHead.Dominates(b) {
					continue
				}
				for _, ins := range b.Instrs {
					switch x := ins.(type) {
					case *ssa.Call:
						if bi, ok := x.Common().Value.(*ssa.Builtin); ok && bi.Name() == "append" {
							effects = append(effects, "append at "+ctx.Pos(x.Pos()))
						} else if cal := core.StaticCallee(x); cal != nil && core.InRepo(core.FnPkgPath(cal)) {
							if how, ok := reachesForeign(cal); ok {
								effects = append(effects, "call of "+how)
							}
						}
					case *ssa.Return:
						// first match returned: a non-constant, non-error result
						for _, v := range core.RetOperands(x) {
							if _, isConst := v.(*ssa.Const); !isConst && !core.IsErrorType(v.Type()) {
								if _, isBool := v.Type().Underlying().(*types.Basic); !isBool {
									effects = append(effects, "returns the first match at "+ctx.Pos(x.Pos()))
								}
							}
						}
					}
				}
			}
			// sorted afterwards?
			sorted := false
			core.Instrs(f, func(_ *ssa.BasicBlock, i2 ssa.Instruction) {
				if c, ok := i2.(*ssa.Call); ok {
					if cal := core.StaticCallee(c); cal != nil && (core.FnPkgPath(cal) == "sort" || core.FnPkgPath(cal) == "slices") {
						sorted = true
					}
				}
			})
			key := core.FnName(f) + "/range " + exprOfRange(ctx, rg)
			if len(effects) == 0 {
				r.Ob("map-order", key, ctx.Pos(rg.Pos()), true, "no order-sensitive effect in the loop body")
				return
			}
			if sorted {
				r.Ob("map-order", key, ctx.Pos(rg.Pos()), true, "result is sorted in the same function")
				return
			}
			if reason, ok := c06MapOrderTriage[key]; ok {
				r.Ob("map-order", key, ctx.Pos(rg.Pos()), true, "triaged: "+reason)
				return
			}
			r.Ob("map-order", key, ctx.Pos(rg.Pos()), false,
				"iteration over a map has an order-sensitive effect ("+strings.Join(uniq(effects), "; ")+"): the compiled schema depends on Go's random map order and differs between loads of the same text")
		})
	}
	r.Floor("map-order(loops over maps on the load path)", nLoops, 10)
}

var c06MapOrderTriage = map[string]string{
	"meta.compiler.compile/range x.Actions()":       "the elements are *Rpc: compile's `case *Identity` (the only path to compiler.identity) is not taken for them and their subtrees hold no identities (path-insensitive report)",
	"meta.compiler.compile/range x.Cases()":         "the elements are *ChoiceCase: compile's `case *Identity` is not taken for them (path-insensitive report)",
	"meta.compiler.compile/range x.Notifications()": "the elements are *Notification: compile's `case *Identity` is not taken for them (path-insensitive report)",
	"meta.compiler.compile/range x.Typedefs()":      "the elements are *Typedef: compile's `case *Identity` is not taken for them; identityref bases are appended to the typedef's own Type (path-insensitive report)",
	"meta.resolver.module/range byName":             "each imported module is loaded and resolved against its own tree (r.module(i.module) only touches i.module); the shared state is the loadedModules cache and the re-keyed imports map, both insensitive to order",
}

func uniq(ss []string) []string {
	seen := map[string]bool{}
	var out []string
	for _, s := range ss {
		if !seen[s] {
			seen[s] = true
			out = append(out, s)
		}
	}
	if len(out) > 3 {
		out = append(out[:3], "…")
	}
	return out
}

// exprOfRange renders the ranged expression from source.
func exprOfRange(ctx *core.Ctx, rg *ssa.Range) string {
	_, file := ctx.FileOf(rg.Pos())
	if file == nil {
		return rg.X.Name()
	}
	var out string
	ast.Inspect(file, func(n ast.Node) bool {
		if rs, ok := n.(*ast.RangeStmt); ok && rs.For <= rg.Pos() && rg.Pos() <= rs.Body.Lbrace {
			if rs.X.Pos() <= rg.Pos()+1 || true {
				s := types.ExprString(rs.X)
				if out == "" || rs.For > 0 {
					out = s
				}
			}
		}
		return true
	})
	if out == "" {
		return rg.X.Name()
	}
	return out
}

// c06SiblingOrder (8a): a keyed collection of sibling definitions filled at
// parse time must have an ordered witness (a slice of the same elements in the
// same struct), otherwise textual order is lost. One obligation per collection
// field name, so a *new* map-only collection is a new violation.
func c06SiblingOrder(ctx *core.Ctx, r *core.Report) {
	metaPkg := ctx.TPkg("meta")
	if metaPkg == nil {
		return
	}
	defI := ctx.Named("meta", "Definition")
	type occ struct {
		strukt  string
		ordered bool
	}
	byField := map[string][]occ{}
	names := metaPkg.Scope().Names()
	sort.Strings(names)
	for _, nme := range names {
		tn, ok := metaPkg.Scope().Lookup(nme).(*types.TypeName)
		if !ok {
			continue
		}
		st, ok := tn.Type().Underlying().(*types.Struct)
		if !ok || !tn.Exported() {
			continue
		}
		// schema objects only (they have a Parent in the schema tree)
		if metaI := ctx.Named("meta", "Meta"); metaI == nil || !types.Implements(types.NewPointer(tn.Type()), metaI.Underlying().(*types.Interface)) {
			continue
		}
		for i := 0; i < st.NumFields(); i++ {
			f := st.Field(i)
			mt, ok := f.Type().Underlying().(*types.Map)
			if !ok {
				continue
			}
			// values are schema definitions of package meta
			vn := core.NamedOf(mt.Elem())
			if vn == nil || vn.Obj().Pkg() != metaPkg {
				continue
			}
			if _, isStruct := vn.Underlying().(*types.Struct); !isStruct && !(defI != nil && types.Identical(vn, defI)) {
				continue
			}
			ordered := false
			for j := 0; j < st.NumFields(); j++ {
				if sl, ok := st.Field(j).Type().Underlying().(*types.Slice); ok {
					if types.Identical(sl.Elem(), mt.Elem()) {
						ordered = true
					}
				}
			}
			byField[f.Name()] = append(byField[f.Name()], occ{nme, ordered})
		}
	}
	var fields []string
	for f := range byField {
		fields = append(fields, f)
	}
	sort.Strings(fields)
	for _, f := range fields {
		var missing []string
		for _, o := range byField[f] {
			if !o.ordered {
				missing = append(missing, o.strukt)
			}
		}
		r.Ob("sibling-order", "meta.*."+f, "meta/core.go", len(missing) == 0,
			fmt.Sprintf("collection %s is kept only as a map in %s: the textual order of these sibling definitions is lost", f, strings.Join(missing, ", ")))
	}
	r.Floor("sibling-order", len(fields), 8)
}

// c06BuilderFresh: every Builder method that creates a schema object returns
// an object allocated by that call. A builder that hands out a cached or
// shared object makes two statements of the module one object: what is written
// on one of them (invert-match, error-message, description …) alters the other.
func c06BuilderFresh(ctx *core.Ctx, r *core.Report) {
	metaPkg := ctx.TPkg("meta")
	n := 0
	for _, f := range exportedMethods(ctx, "meta", "Builder") {
		res := f.Signature.Results()
		if res.Len() != 1 {
			continue
		}
		named := core.NamedOf(res.At(0).Type())
		if named == nil || named.Obj().Pkg() != metaPkg {
			continue
		}
		if _, isPtr := res.At(0).Type().(*types.Pointer); !isPtr {
			continue
		}
		n++
		ok, why := freshResult(f, 0, 0)
		if reason, t := c06FreshTriage[core.FnName(f)]; t && !ok {
			r.Ob("builder-returns-fresh", core.FnName(f), ctx.Pos(f.Pos()), true, "triaged: "+reason)
			continue
		}
		r.Ob("builder-returns-fresh", core.FnName(f), ctx.Pos(f.Pos()), ok,
			"the builder does not create a new object for each statement ("+why+"): two statements share one schema object and overwrite each other's substatements")
	}
	r.Floor("builder-returns-fresh", n, 30)
}

var c06FreshTriage = map[string]string{}

// D8: text is decoded once. tokenString/trimQuotes strip one pair of quotes;
// they are applied to raw tokens only, never to the value of a non-terminal
// whose own action has already decoded it (a description that starts and ends
// with a quote character would lose them).
func c06DecodeOnce(ctx *core.Ctx, r *core.Report, g *yacc.Grammar) {
	// non-terminals whose value is already decoded text: some alternative's action applies a decoder
	decoders := map[string]bool{"tokenString": true, "trimQuotes": true}
	decoded := map[string]bool{}
	for _, rule := range g.Rules {
		for _, alt := range rule.Alts {
			if alt.Action == nil || alt.Action.Body == nil {
				continue
			}
			ast.Inspect(alt.Action.Body, func(n ast.Node) bool {
				if as, ok := n.(*ast.AssignStmt); ok && len(as.Lhs) == 1 {
					if id, ok := as.Lhs[0].(*ast.Ident); ok && id.Name == "yyVAL_" {
						ast.Inspect(as.Rhs[0], func(m ast.Node) bool {
							if c, ok := m.(*ast.CallExpr); ok {
								if f, ok := c.Fun.(*ast.Ident); ok && decoders[f.Name] {
									decoded[rule.Name] = true
								}
							}
							return true
						})
					}
				}
				return true
			})
		}
	}
	n := 0
	for _, rule := range g.Rules {
		for _, alt := range rule.Alts {
			acts := []*yacc.Action{alt.Action}
			for _, s := range alt.Syms {
				acts = append(acts, s.Action)
			}
			var names []string
			for _, s := range alt.Syms {
				names = append(names, s.Name)
			}
			for _, a := range acts {
				if a == nil || a.Body == nil {
					continue
				}
				ast.Inspect(a.Body, func(nn ast.Node) bool {
					c, ok := nn.(*ast.CallExpr)
					if !ok || len(c.Args) != 1 {
						return true
					}
					f, ok := c.Fun.(*ast.Ident)
					if !ok || !decoders[f.Name] {
						return true
					}
					id, ok := c.Args[0].(*ast.Ident)
					if !ok || !strings.HasPrefix(id.Name, "yyD_") {
						return true
					}
					k, err := strconv.Atoi(strings.TrimPrefix(id.Name, "yyD_"))
					if err != nil || k < 1 || k > len(alt.Syms) {
						return true
					}
					sym := alt.Syms[k-1].Name
					n++
					r.Ob("decode-once", fmt.Sprintf("%s/%s/%s($%d)", rule.Name, strings.Join(names, " "), f.Name, k),
						fmt.Sprintf("parser/parser.y:%d", a.Line), !decoded[sym],
						fmt.Sprintf("%s is applied to $%d, the value of %s, which that non-terminal's own action has already decoded: text that itself begins and ends with a quote character loses it", f.Name, k, sym))
					return true
				})
			}
		}
	}
	r.Count("decoded_nonterminals", len(decoded))
	r.Floor("decode-once", n, 6)
}

// D9: a builder call that pushes what it built on the parser's stack is
// followed, in the same action, by the check of Builder.LastErr that abandons
// the parse (chkErr … goto ret1). Builder methods return nil on failure; a nil
// on the stack is what the actions of the nested statements then work on.
func c06BuilderErrorChecked(ctx *core.Ctx, r *core.Report, g *yacc.Grammar) {
	n := 0
	for _, rule := range g.Rules {
		for _, alt := range rule.Alts {
			acts := []*yacc.Action{alt.Action}
			for _, s := range alt.Syms {
				acts = append(acts, s.Action)
			}
			var names []string
			for _, s := range alt.Syms {
				names = append(names, s.Name)
			}
			for _, a := range acts {
				if a == nil || a.Body == nil {
					continue
				}
				// stack.push(l.builder.X(...)) or x := l.builder.X(...); …push(x)
				pushesBuilt := false
				var method string
				var at token.Pos
				ast.Inspect(a.Body, func(nn ast.Node) bool {
					c, ok := nn.(*ast.CallExpr)
					if !ok {
						return true
					}
					sel, ok := c.Fun.(*ast.SelectorExpr)
					if !ok || sel.Sel.Name != "push" {
						return true
					}
					for _, arg := range c.Args {
						ast.Inspect(arg, func(m ast.Node) bool {
							if ce, ok := m.(*ast.CallExpr); ok {
								if s2, ok := ce.Fun.(*ast.SelectorExpr); ok {
									if inner, ok := s2.X.(*ast.SelectorExpr); ok && inner.Sel.Name == "builder" {
										pushesBuilt, method, at = true, s2.Sel.Name, c.End()
									}
								}
							}
							return true
						})
					}
					return true
				})
				if !pushesBuilt || !builderFallible(ctx, method) {
					continue
				}
				n++
				checked := false
				ast.Inspect(a.Body, func(nn ast.Node) bool {
					ifs, ok := nn.(*ast.IfStmt)
					if !ok || ifs.Pos() < at {
						return true
					}
					c, ok := ifs.Cond.(*ast.CallExpr)
					if !ok {
						return true
					}
					if id, ok := c.Fun.(*ast.Ident); ok && (id.Name == "chkErr" || id.Name == "chkErr2") {
						// the body leaves the parse
						for _, st := range ifs.Body.List {
							if br, ok := st.(*ast.BranchStmt); ok && br.Tok == token.GOTO {
								checked = true
							}
						}
					}
					return true
				})
				r.Ob("builder-error-checked", fmt.Sprintf("%s/%s/builder.%s", rule.Name, strings.Join(names, " "), method),
					fmt.Sprintf("parser/parser.y:%d", a.Line), checked,
					fmt.Sprintf("the result of builder.%s is pushed on the stack and the action does not stop the parse when the builder failed: the builder returns nil then, and the nested statements are applied to a nil parent", method))
			}
		}
	}
	r.Floor("builder-error-checked", n, 30)
}

// builderFallible: the meta.Builder method records an error (calls setErr,
// directly or through another Builder method).
func builderFallible(ctx *core.Ctx, method string) bool {
	f := ctx.Method("meta", "Builder", method)
	if f == nil {
		return true // unknown: treat as fallible
	}
	seen := map[*ssa.Function]bool{}
	var walk func(g *ssa.Function, depth int) bool
	walk = func(g *ssa.Function, depth int) bool {
		if seen[g] || depth > 3 {
			return false
		}
		seen[g] = true
		for _, c := range core.CallSites(g) {
			cal := core.StaticCallee(c)
			if cal == nil {
				continue
			}
			if core.FnName(cal) == "meta.Builder.setErr" {
				return true
			}
			if cal.Signature.Recv() != nil && core.TypeName(core.Deref(cal.Signature.Recv().Type())) == "meta.Builder" && walk(cal, depth+1) {
				return true
			}
		}
		return false
	}
	return walk(f, 0)
}

// c06AppendKeepsOrder: the Builder (and the add* methods it calls) receive the
// statements of a module in the order they are written. A collection kept in a
// slice preserves that order only if every addition is an append at the end:
// a store into an element of the field's slice, or a copy() that shifts its
// elements, inserts somewhere else and the textual order is gone.
func c06AppendKeepsOrder(ctx *core.Ctx, r *core.Report) {
	inMetaStruct := func(v ssa.Value) (string, bool) {
		u, ok := core.Strip(v).(*ssa.UnOp)
		if !ok || u.Op != token.MUL {
			// a re-slice of the field: x.rev[at+1:]
			if sl, isSl := core.Strip(v).(*ssa.Slice); isSl {
				u2, ok2 := core.Strip(sl.X).(*ssa.UnOp)
				if !ok2 || u2.Op != token.MUL {
					return "", false
				}
				u = u2
			} else {
				return "", false
			}
		}
		fa, ok := u.X.(*ssa.FieldAddr)
		if !ok {
			return "", false
		}
		n := core.NamedOf(fa.X.Type())
		if n == nil || n.Obj().Pkg() == nil || n.Obj().Pkg().Path() != core.Full("meta") {
			return "", false
		}
		st := core.Deref(fa.X.Type()).Underlying().(*types.Struct)
		if _, isSlice := st.Field(fa.Field).Type().Underlying().(*types.Slice); !isSlice {
			return "", false
		}
		return n.Obj().Name() + "." + st.Field(fa.Field).Name(), true
	}
	nAppend := 0
	for _, f := range scopeFuncs(ctx, "meta", "builder.go", "core_gen.go", "core.go") {
		// the resolver re-orders on purpose (popDataDefinitions etc.); this rule is about parse time
		isBuilder := false
		if rv := f.Signature.Recv(); rv != nil {
			if n := core.NamedOf(rv.Type()); n != nil && n.Obj().Name() == "Builder" {
				isBuilder = true
			}
		}
		if !isBuilder && !strings.HasPrefix(f.Name(), "add") {
			continue
		}
		core.Instrs(f, func(_ *ssa.BasicBlock, in ssa.Instruction) {
			switch x := in.(type) {
			case *ssa.Store:
				if ia, ok := x.Addr.(*ssa.IndexAddr); ok {
					if fld, ok := inMetaStruct(ia.X); ok {
						r.Ob("append-keeps-order", core.FnName(f)+"/"+fld+"/element-store", ctx.Pos(x.Pos()), false,
							"a statement is placed into the middle of "+fld+" (element store) instead of being appended: the collection no longer has the order in which the statements were written")
					}
				}
			case *ssa.Call:
				b, ok := x.Common().Value.(*ssa.Builtin)
				if !ok {
					return
				}
				switch b.Name() {
				case "copy":
					if fld, ok := inMetaStruct(x.Common().Args[0]); ok {
						r.Ob("append-keeps-order", core.FnName(f)+"/"+fld+"/shift", ctx.Pos(x.Pos()), false,
							"the elements of "+fld+" are shifted with copy() to insert a statement at another place than the end: the collection no longer has the order in which the statements were written")
					}
				case "append":
					if fld, ok := inMetaStruct(x.Common().Args[0]); ok {
						nAppend++
						// appended value goes back to the same field
						_ = fld
					}
				}
			}
		})
	}
	r.Ob("append-keeps-order", "meta.Builder/additions-are-appends", "meta/builder.go", nAppend >= 10,
		fmt.Sprintf("%d appends to slice fields of schema objects found at parse time (expected at least 10)", nAppend))
	r.Count("instances:append-keeps-order(appends)", nAppend)
}

// c06EscapeOnlyInDoubleQuotes: RFC 7950 6.1.3 — only a double-quoted string has
// backslash escapes; within single quotes a backslash is an ordinary character.
// In lexer.acceptString every "skip the next character" (a next() whose result is
// discarded) is therefore under the test that the string began with a double quote.
func c06EscapeOnlyInDoubleQuotes(ctx *core.Ctx, r *core.Report) {
	f := ctx.Method("parser", "lexer", "acceptString")
	next := ctx.Method("parser", "lexer", "next")
	if f == nil || next == nil {
		r.Fatalf("anchors parser.lexer.acceptString / next not found")
		return
	}
	n := 0
	for _, c := range callsStatic(f, next, false) {
		v := c.Value()
		used := false
		if v != nil && v.Referrers() != nil {
			for _, ref := range *v.Referrers() {
				if _, dbg := ref.(*ssa.DebugRef); !dbg {
					used = true
				}
			}
		}
		if used {
			continue
		}
		n++
		dq, bs := false, false
		for _, pc := range core.PathConds(c.Block()) {
			bo, ok := pc.V.(*ssa.BinOp)
			if !ok {
				continue
			}
			cv, isC := core.ConstInt(bo.Y)
			if !isC {
				cv, isC = core.ConstInt(bo.X)
			}
			if !isC {
				continue
			}
			holds := (bo.Op == token.EQL && pc.True) || (bo.Op == token.NEQ && !pc.True)
			if cv == '"' && holds {
				dq = true
			}
			if cv == '\\' && holds {
				bs = true
			}
		}
		r.Ob("escape-only-in-double-quotes", fmt.Sprintf("parser.lexer.acceptString/skip#%d", n), ctx.Pos(c.Pos()), dq && bs,
			"a character is skipped while scanning a string without the tests that the previous character is a backslash AND that the string began with a double quote: inside single quotes a backslash is an ordinary character (RFC 7950 6.1.3), so '…\\' would not end at its closing quote and the following statements are swallowed or the module is rejected")
	}
	r.Floor("escape-only-in-double-quotes", n, 1)
}
