package rules

import (
	"fmt"
	"go/token"
	"go/types"
	"strings"

	"golang.org/x/tools/go/ssa"

	"verif/checker/internal/core"
)

// c11FeaturesConjunctive: a definition with several if-feature statements is
// present only when all of them are true (RFC 7950 7.20.2). checkFeature
// therefore answers with a constant on every path — false as soon as one
// statement is false, true after the last — never with the verdict a loop
// happened to compute last.
func c11FeaturesConjunctive(ctx *core.Ctx, r *core.Report) {
	f := ctx.Fn("meta", "checkFeature")
	if f == nil {
		r.Fatalf("anchor meta.checkFeature not found")
		return
	}
	n := 0
	for _, ret := range core.Returns(f) {
		ops := core.RetOperands(ret)
		for _, leaf := range core.PhiLeaves(ops[0], ret.Block()) {
			n++
			_, isConst := leaf.V.(*ssa.Const)
			r.Ob("features-conjunctive", fmt.Sprintf("meta.checkFeature/verdict#%d", n), ctx.Pos(ret.Pos()), isConst,
				"checkFeature returns the verdict of whichever if-feature statement it looked at last instead of `false` as soon as one is false: with several if-feature statements on one definition an earlier false one is overridden by a later true one")
		}
	}
	r.Floor("features-conjunctive", n, 2)
}

// c12SplitDropsParent: the selection made for the other side of an edit
// (Selection.Split) has no parent: begin/end notifications bubble up the parent
// chain, and the ancestors of the tree that is only read must not be told.
func c12SplitDropsParent(ctx *core.Ctx, r *core.Report) {
	f := ctx.Method("node", "Selection", "Split")
	if f == nil {
		r.Fatalf("anchor node.Selection.Split not found")
		return
	}
	ok := false
	core.Instrs(f, func(_ *ssa.BasicBlock, in ssa.Instruction) {
		st, isSt := in.(*ssa.Store)
		if !isSt || !core.IsNilConst(st.Val) {
			return
		}
		if fa, isFa := st.Addr.(*ssa.FieldAddr); isFa {
			if sts, isS := core.Deref(fa.X.Type()).Underlying().(*types.Struct); isS && sts.Field(fa.Field).Name() == "parent" {
				if _, isAlloc := fa.X.(*ssa.Alloc); isAlloc {
					ok = true
				}
			}
		}
	})
	r.Ob("who-may-notify", "node.Selection.Split/fork-has-no-parent", ctx.Pos(f.Pos()), ok,
		"the selection forked for the other side of an edit keeps the parent chain of the tree it was forked from: BeginEdit/EndEdit bubble up that chain, so ancestors of the tree that is merely read (UpsertInto from a found selection) are told an edit begins and ends")
}

// c12EndEditUnconditional: in the deferred function that pairs beginEdit, the
// call of endEdit lies on every path — also when the edit itself failed: the
// nodes were told begin and must be told end.
func c12EndEditUnconditional(ctx *core.Ctx, r *core.Report) {
	end := ctx.Method("node", "Selection", "endEdit")
	begin := ctx.Method("node", "Selection", "beginEdit")
	if end == nil || begin == nil {
		r.Fatalf("anchors node.Selection.beginEdit / endEdit not found")
		return
	}
	n := 0
	for _, f := range scopeFuncs(ctx, "node") {
		if f.Parent() == nil || len(callsStatic(f.Parent(), begin, false)) == 0 {
			continue
		}
		if _, isDeferred := closureIsDeferred(f.Parent(), f); !isDeferred {
			continue
		}
		cs := callsStatic(f, end, false)
		if len(cs) == 0 {
			continue
		}
		n++
		ok := true
		for _, ret := range core.Returns(f) {
			dom := false
			for _, c := range cs {
				if instrDominates(c.(ssa.Instruction), ret) {
					dom = true
				}
			}
			if !dom {
				ok = false
			}
		}
		r.Ob("end-follows-begin", core.FnName(f)+"/endEdit-on-every-path", ctx.Pos(f.Pos()), ok,
			"the deferred function can finish without calling endEdit (when the edit failed, say): every node that was told BeginEdit is then never told EndEdit")
	}
	r.Floor("end-follows-begin(deferred closures)", n, 2)
}

// errorTestedBeforeNextCall (C12): in Selection.get and Selection.set the error a
// node callback returned is tested before anything else is called: a later call
// whose error lands in the same variable would replace it, and the edit goes on
// as if the callback had succeeded.
func errorTestedBeforeNextCall(ctx *core.Ctx, r *core.Report) {
	nodeI := ctx.Named("node", "Node")
	if nodeI == nil {
		r.Fatalf("anchor node.Node not found")
		return
	}
	for _, name := range []string{"get", "set"} {
		f := ctx.Method("node", "Selection", name)
		if f == nil {
			r.Fatalf("anchor node.Selection.%s not found", name)
			continue
		}
		for _, c := range invokesOf(f, false, nodeI, "Field") {
			ev := errResult(c)
			ok := ev != nil
			culprit := ""
			if ok {
				for _, c2 := range core.CallSites(f) {
					if c2 == c || !instrDominates(c.(ssa.Instruction), c2.(ssa.Instruction)) {
						continue
					}
					if _, isB := c2.Common().Value.(*ssa.Builtin); isB {
						continue
					}
					// c2 must run only where ev == nil was established
					tested := false
					for _, pc := range core.PathConds(c2.Block()) {
						if bo, isBo := pc.V.(*ssa.BinOp); isBo && dependsOn(bo, ev, 0) && (core.IsNilConst(bo.Y) || core.IsNilConst(bo.X)) {
							if (bo.Op == token.NEQ && !pc.True) || (bo.Op == token.EQL && pc.True) {
								tested = true
							}
						}
					}
					if !tested {
						ok = false
						culprit = core.CalleeName(c2)
					}
				}
			}
			r.Ob("errors-surface", "node.Selection."+name+"/Field-error-tested-first", ctx.Pos(c.Pos()), ok,
				"after the node's Field callback "+culprit+" is called without the callback's error having been tested: an error of the callback can be replaced by the later call's result (a schema default filled in, nil error) and the edit continues, writing the default and the following leaves")
		}
	}
}

// c13KeyValidEveryElement: nodeutil's isKeyValid — the test the list nodes rely on
// before they index or dereference a key tuple — looks at every element: a key
// tuple with any element missing (a JSON entry that carries only its first key)
// is no key.
func c13KeyValidEveryElement(ctx *core.Ctx, r *core.Report) {
	f := ctx.Fn("nodeutil", "isKeyValid")
	if f == nil || len(f.Params) < 1 {
		r.Fatalf("anchor nodeutil.isKeyValid not found")
		return
	}
	// a nil test of an element indexed by a loop variable
	ok := false
	core.Instrs(f, func(b *ssa.BasicBlock, in ssa.Instruction) {
		bo, isBo := in.(*ssa.BinOp)
		if !isBo || (bo.Op != token.EQL && bo.Op != token.NEQ) || !core.IsNilConst(bo.Y) {
			return
		}
		u, isU := core.Strip(bo.X).(*ssa.UnOp)
		if !isU {
			return
		}
		ia, isIa := u.X.(*ssa.IndexAddr)
		if !isIa || ia.X != ssa.Value(f.Params[0]) {
			return
		}
		if _, isConst := ia.Index.(*ssa.Const); !isConst && loopBlocks(b) != nil {
			ok = true
		}
	})
	r.Ob("guard-backing", "nodeutil.isKeyValid/every-element", ctx.Pos(f.Pos()), ok,
		"isKeyValid no longer tests every element of the key tuple for nil: the list nodes dereference key[i] after it said the key is valid, so an entry that carries only some of its keys is a nil dereference (or is silently appended)")
}

// c13FindCursorGuarded: each ../ of Find dereferences the cursor (Parent() reads
// s.parent): the loop tests that there is a parent before it climbs.
func c13FindCursorGuarded(ctx *core.Ctx, r *core.Report) {
	f := ctx.Method("node", "Selection", "Find")
	parent := ctx.Method("node", "Selection", "Parent")
	if f == nil || parent == nil {
		r.Fatalf("anchors node.Selection.Find / Parent not found")
		return
	}
	for _, c := range callsStatic(f, parent, false) {
		lb := loopBlocks(c.Block())
		if lb == nil {
			continue
		}
		recv := c.Common().Args[0]
		ok := false
		for _, pc := range core.PathConds(c.Block()) {
			bo, isBo := pc.V.(*ssa.BinOp)
			if !isBo || !lb[pc.If.Block()] {
				continue
			}
			if !core.IsNilConst(bo.Y) && !core.IsNilConst(bo.X) {
				continue
			}
			// s.parent != nil  or  s != nil, on the cursor of this iteration
			v := bo.X
			if core.IsNilConst(bo.X) {
				v = bo.Y
			}
			if u, isU := core.Strip(v).(*ssa.UnOp); isU {
				if fa, isFa := u.X.(*ssa.FieldAddr); isFa && fa.X == recv {
					v = recv
				}
			}
			if v == recv && ((bo.Op == token.NEQ && pc.True) || (bo.Op == token.EQL && !pc.True)) {
				ok = true
			}
		}
		r.Ob("guard-backing", "node.Selection.Find/parent-tested-each-step", ctx.Pos(c.Pos()), ok,
			"a leading ../ climbs without the test, in that same iteration, that the selection reached so far has a parent: two more ../ than there are ancestors call Parent() on a nil selection")
	}
}

// c14EveryBaseCompiled: compiler.identity compiles every base it finds, whatever
// module it is in, before it goes on: that recursion is what meets the
// "in progress" mark of an identity again when a derivation cycle exists — also
// one whose every edge crosses a module boundary.
func c14EveryBaseCompiled(ctx *core.Ctx, r *core.Report) {
	f := ctx.Method("meta", "compiler", "identity")
	compile := ctx.Method("meta", "compiler", "compile")
	if f == nil || compile == nil {
		r.Fatalf("anchors meta.compiler.identity / compile not found")
		return
	}
	cs := callsStatic(f, compile, false)
	n := 0
	for _, h := range f.Blocks {
		body, hdr := innerLoopOf(h)
		if hdr != h || body == nil {
			continue
		}
		var inLoop []ssa.CallInstruction
		for _, c := range cs {
			if body[c.Block()] {
				inLoop = append(inLoop, c)
			}
		}
		if len(inLoop) == 0 {
			continue
		}
		n++
		ok := true
		for _, p := range h.Preds {
			if !body[p] {
				continue
			}
			dom := false
			for _, c := range inLoop {
				if c.Block().Dominates(p) {
					dom = true
				}
			}
			if !dom {
				ok = false
			}
		}
		r.Ob("guard-backing", "meta.compiler.identity/every-base-compiled", ctx.Pos(inLoop[0].Pos()), ok,
			"a base identity can be linked without being compiled in turn (a base in another module, say): a derivation cycle whose edges all cross module boundaries is then never met by the in-progress mark, the module loads, and FindIdentity recurses without end")
	}
	if n == 0 {
		r.Fatalf("compiler.identity: the loop over base identities that compiles each base was not found")
	}
}

// c14AnyRejectedByDeviationCheck backs the triage of Any.setUnits/addDefault/setType:
// checkDeviationTarget tests the target for *Any and the verdict takes part in the
// decision (Any is Leafable only formally).
func c14AnyRejectedByDeviationCheck(ctx *core.Ctx, r *core.Report) {
	f := ctx.Method("meta", "resolver", "checkDeviationTarget")
	if f == nil {
		return // reported by guard-backing
	}
	ok := false
	core.Instrs(f, func(_ *ssa.BasicBlock, in ssa.Instruction) {
		ta, isTa := in.(*ssa.TypeAssert)
		if !isTa || !ta.CommaOk || !strings.HasSuffix(core.TypeName(ta.AssertedType), "meta.Any") {
			return
		}
		for _, ref := range *ta.Referrers() {
			if ex, isEx := ref.(*ssa.Extract); isEx && ex.Index == 1 && ex.Referrers() != nil {
				for _, r2 := range *ex.Referrers() {
					if _, dbg := r2.(*ssa.DebugRef); !dbg {
						ok = true
					}
				}
			}
		}
	})
	r.Ob("guard-backing", "meta.resolver.checkDeviationTarget/rejects-any", ctx.Pos(f.Pos()), ok,
		"checkDeviationTarget no longer tests whether the target is anydata/anyxml: a deviation stating units, default or type on such a node reaches Any.setUnits/addDefault/setType, which panic")
}

// sliceHighGuarded (C15): a slice expression x[lo:hi] with a computed hi is
// dominated by a comparison of that same hi with the length of x (or with a
// constant, for a constant x). A guard on some other quantity (the level, when
// the bound is twice the level) does not protect the expression: the pretty
// writer's indentation is padding[0:2*lvl].
func sliceHighGuarded(ctx *core.Ctx, r *core.Report, fns []*ssa.Function) int {
	n := 0
	for _, f := range fns {
		core.Instrs(f, func(b *ssa.BasicBlock, in ssa.Instruction) {
			sl, ok := in.(*ssa.Slice)
			if !ok || sl.High == nil {
				return
			}
			if _, isConst := sl.High.(*ssa.Const); isConst {
				return
			}
			if !isStringType(sl.X.Type()) {
				if _, isSl := sl.X.Type().Underlying().(*types.Slice); !isSl {
					return
				}
			}
			n++
			guarded := false
			// same value compared with something, on a dominating branch or as the loop condition
			for _, pc := range core.PathConds(b) {
				bo, isBo := pc.V.(*ssa.BinOp)
				if !isBo {
					continue
				}
				switch bo.Op {
				case token.LSS, token.LEQ, token.GTR, token.GEQ, token.NEQ, token.EQL:
				default:
					continue
				}
				if core.Strip(bo.X) == core.Strip(sl.High) || core.Strip(bo.Y) == core.Strip(sl.High) || sameArith(bo.X, sl.High) || sameArith(bo.Y, sl.High) {
					guarded = true
				}
			}
			// hi = len(x) - k, or a value derived from len(x)/an index search on x is in range by construction
			if derivesFromLenOf(sl.High, sl.X, 0) {
				guarded = true
			}
			r.Ob("slice-bound-guarded", fmt.Sprintf("%s/slice#%d", core.FnName(f), n), ctx.Pos(sl.Pos()), guarded,
				"the upper bound of this slice expression is computed, and no dominating comparison tests that same value against the length (a guard on a related quantity — the nesting level, when the bound is twice the level — does not cover it): out of range for large inputs, e.g. pretty printing beyond 43 levels")
		})
	}
	return n
}

func sameArith(a, b ssa.Value) bool {
	x, ok1 := core.Strip(a).(*ssa.BinOp)
	y, ok2 := core.Strip(b).(*ssa.BinOp)
	if !ok1 || !ok2 || x.Op != y.Op {
		return false
	}
	eq := func(p, q ssa.Value) bool {
		if core.Strip(p) == core.Strip(q) {
			return true
		}
		cp, okp := core.ConstInt(p)
		cq, okq := core.ConstInt(q)
		return okp && okq && cp == cq
	}
	return (eq(x.X, y.X) && eq(x.Y, y.Y)) || (eq(x.X, y.Y) && eq(x.Y, y.X))
}

func derivesFromLenOf(v, x ssa.Value, d int) bool {
	if d > 4 {
		return false
	}
	switch y := core.Strip(v).(type) {
	case *ssa.Call:
		if b, ok := y.Common().Value.(*ssa.Builtin); ok && b.Name() == "len" {
			return true
		}
		if cal := y.Common().StaticCallee(); cal != nil && cal.Pkg != nil && (cal.Pkg.Pkg.Path() == "strings" || cal.Pkg.Pkg.Path() == "bytes") && strings.HasPrefix(cal.Name(), "Index") {
			return true
		}
	case *ssa.BinOp:
		return derivesFromLenOf(y.X, x, d+1) || derivesFromLenOf(y.Y, x, d+1)
	case *ssa.Phi:
		for _, e := range y.Edges {
			if derivesFromLenOf(e, x, d+1) {
				return true
			}
		}
	}
	return false
}

// c16LiteralExact: a number written in a where/when/filter expression is parsed
// as an integer unless it has a fraction: ParseFloat on a whole number above 2^53
// yields a neighbouring number, and the comparison is then made with the wrong one.
func c16LiteralExact(ctx *core.Ctx, r *core.Report) {
	f := ctx.Fn("xpath", "num")
	if f == nil {
		r.Fatalf("anchor xpath.num not found")
		return
	}
	n := 0
	for _, c := range core.CallSites(f) {
		cal := core.StaticCallee(c)
		if cal == nil || core.FnName(cal) != "strconv.ParseFloat" {
			continue
		}
		n++
		ok := false
		for _, pc := range core.PathConds(c.Block()) {
			if call, isCall := pc.V.(*ssa.Call); isCall && pc.True {
				if cc := core.StaticCallee(call); cc != nil && cc.Pkg != nil && cc.Pkg.Pkg.Path() == "strings" && strings.HasPrefix(cc.Name(), "Contains") {
					ok = true
				}
			}
			// or only after an integer parse failed
			if bo, isBo := pc.V.(*ssa.BinOp); isBo && (core.IsNilConst(bo.Y) || core.IsNilConst(bo.X)) {
				for _, c2 := range core.CallSites(f) {
					if cc := core.StaticCallee(c2); cc != nil && (core.FnName(cc) == "strconv.ParseInt" || core.FnName(cc) == "strconv.ParseUint") {
						if ev := errResult(c2); ev != nil && dependsOn(bo, ev, 0) {
							ok = true
						}
					}
				}
			}
		}
		r.Ob("literal-exact", "xpath.num/ParseFloat", ctx.Pos(c.Pos()), ok,
			"every numeric literal of an expression is parsed as float64, also whole numbers: above 2^53 the literal becomes a neighbouring number before it is converted to the leaf's 64-bit type, so =, < and > compare with the wrong value")
	}
	if n == 0 {
		r.Ob("literal-exact", "xpath.num/ParseFloat", ctx.Pos(f.Pos()), true, "no float parse")
	}
}

// c18HandlerFollowsContainer: the slice-backed list handler of nodeutil.Node keeps
// the slice it works on (sliceAsList.src). Whenever it makes a new slice (append,
// delete by re-slicing) it stores it there on every path — also when it hands it
// to the owner's update callback: ReplaceFrom deletes and inserts through the
// same handler, and the insert would append to the slice as it was before.
func c18HandlerFollowsContainer(ctx *core.Ctx, r *core.Report) {
	sl := ctx.Named("nodeutil", "sliceAsList")
	if sl == nil {
		r.Fatalf("anchor nodeutil.sliceAsList not found")
		return
	}
	n := 0
	for _, f := range scopeFuncs(ctx, "nodeutil", "node_slice.go") {
		rv := f.Signature.Recv()
		if rv == nil || core.NamedOf(rv.Type()) != sl || len(f.Params) == 0 {
			continue
		}
		recv := f.Params[0]
		for _, c := range core.CallSites(f) {
			cal := core.StaticCallee(c)
			if cal == nil || (core.FnName(cal) != "reflect.Append" && core.FnName(cal) != "reflect.AppendSlice") {
				continue
			}
			n++
			// stores of that value into recv.src
			var stores []*ssa.Store
			core.Instrs(f, func(_ *ssa.BasicBlock, in ssa.Instruction) {
				st, ok := in.(*ssa.Store)
				if !ok {
					return
				}
				fa, ok := st.Addr.(*ssa.FieldAddr)
				if !ok || fa.X != ssa.Value(recv) {
					return
				}
				if core.Deref(recv.Type()).Underlying().(*types.Struct).Field(fa.Field).Name() == "src" && valueDependsOn(st.Val, c.Value(), map[ssa.Value]bool{}) {
					stores = append(stores, st)
				}
			})
			ok := true
			for _, ret := range core.Returns(f) {
				if !instrDominates(c.(ssa.Instruction), ret) {
					continue
				}
				dom := false
				for _, st := range stores {
					if instrDominates(st, ret) {
						dom = true
					}
				}
				if !dom {
					ok = false
				}
			}
			r.Ob("handler-follows-container", core.FnName(f)+"/"+cal.Name(), ctx.Pos(c.Pos()), ok && len(stores) > 0,
				"the list handler makes a new slice here but can return without having stored it as the slice it works on (src): the next operation through the same handler — the insert of a ReplaceFrom after its delete — works on the slice as it was before, so an entry is duplicated or comes back")
		}
	}
	r.Floor("handler-follows-container", n, 2)
	// and struct fields are addressed by their full index path (promoted fields of embedded structs)
	m := 0
	for _, f := range scopeFuncs(ctx, "nodeutil", "node_struct.go") {
		core.Instrs(f, func(_ *ssa.BasicBlock, in ssa.Instruction) {
			ia, ok := in.(*ssa.IndexAddr)
			if !ok {
				return
			}
			u, ok := core.Strip(ia.X).(*ssa.UnOp)
			if !ok {
				return
			}
			fa, ok := u.X.(*ssa.FieldAddr)
			if !ok {
				return
			}
			if n := core.NamedOf(fa.X.Type()); n != nil && n.Obj().Name() == "StructField" && n.Obj().Pkg() != nil && n.Obj().Pkg().Path() == "reflect" {
				if core.Deref(fa.X.Type()).Underlying().(*types.Struct).Field(fa.Field).Name() == "Index" {
					m++
					r.Ob("handler-follows-container", core.FnName(f)+"/StructField.Index[i]", ctx.Pos(ia.Pos()), false,
						"a struct field is addressed by one element of its index path instead of the whole path (FieldByIndex): for a field promoted from an embedded struct that is the embedded struct itself, so clearing the field zeroes all its siblings")
				}
			}
		})
	}
	r.Count("instances:handler-follows-container(partial index paths)", m)
}

// c19DecoderStrict: the XML reader decodes with the decoder's strict defaults.
// Lenient/HTML settings (Strict=false, AutoClose, Entity) make the decoder close
// elements named like HTML void elements (link, base, meta, input, …) by itself:
// a schema node of such a name loses its content and ends its parent early.
func c19DecoderStrict(ctx *core.Ctx, r *core.Report) {
	n := 0
	for _, f := range scopeFuncs(ctx, "nodeutil") {
		core.Instrs(f, func(_ *ssa.BasicBlock, in ssa.Instruction) {
			st, ok := in.(*ssa.Store)
			if !ok {
				return
			}
			fa, ok := st.Addr.(*ssa.FieldAddr)
			if !ok {
				return
			}
			nn := core.NamedOf(fa.X.Type())
			if nn == nil || nn.Obj().Name() != "Decoder" || nn.Obj().Pkg() == nil || !strings.HasSuffix(nn.Obj().Pkg().Path(), "xml") {
				return
			}
			fld := core.Deref(fa.X.Type()).Underlying().(*types.Struct).Field(fa.Field).Name()
			if fld == "Strict" || fld == "AutoClose" || fld == "Entity" {
				n++
				r.Ob("decoder-strict", core.FnName(f)+"/Decoder."+fld, ctx.Pos(st.Pos()), false,
					"the XML reader changes the decoder's "+fld+" setting: with the lenient/HTML settings elements named like HTML void elements (link, base, meta, input, …) are closed by the decoder itself, their content is lost and their end tag closes the parent, silently")
			}
		})
	}
	r.Ob("decoder-strict", "nodeutil/scanned", "nodeutil/xml_rdr.go", ctx.Fn("nodeutil", "ReadXMLDoc") != nil, "anchor nodeutil.ReadXMLDoc not found")
}

// c19KeysFoundIndependently: in XmlNode.Next each key leaf of an entry is looked up
// among all children of the entry: the writers emit children in the order they
// are declared, which need not be the order of the key statement, so a search
// that starts where the previous key was found misses keys.
func c19KeysFoundIndependently(ctx *core.Ctx, r *core.Report) {
	f := ctx.Method("nodeutil", "XmlNode", "Next")
	find := ctx.Method("nodeutil", "XmlNode", "Find")
	if f == nil || find == nil {
		r.Fatalf("anchors nodeutil.XmlNode.Next / Find not found")
		return
	}
	for i, c := range callsStatic(f, find, false) {
		start := c.Common().Args[1]
		k, isC := core.ConstInt(start)
		r.Ob("keys-found-independently", fmt.Sprintf("nodeutil.XmlNode.Next/Find#%d", i+1), ctx.Pos(c.Pos()), isC && k == 0,
			"the search for a key leaf of a list entry does not start at the entry's first child (it continues from where the previous key was found): when the key statement orders the leaves differently from their declaration — the order both writers emit — the key is 'missing' and the library cannot read its own output")
	}
	r.Ob("keys-found-independently", "nodeutil.XmlNode.Next", ctx.Pos(f.Pos()), true, "")
}

// c19CarriageReturnEscaped: the patched encoder writes a carriage return in text
// as &#xD; — an XML parser turns a literal CR (and CR LF) into LF, so anything
// else does not read back as written.
func c19CarriageReturnEscaped(ctx *core.Ctx, r *core.Report) {
	f := ctx.Fn("patch/xml", "escapeText")
	esc := globalVar(ctx, "patch/xml", "escCR")
	if f == nil || esc == nil {
		r.Fatalf("anchors patch/xml.escapeText / escCR not found")
		return
	}
	ok := false
	core.Instrs(f, func(b *ssa.BasicBlock, in ssa.Instruction) {
		u, isU := in.(*ssa.UnOp)
		if !isU || u.X != ssa.Value(esc) {
			return
		}
		// loaded on the side where the rune is '\r'
		for _, pc := range core.PathConds(b) {
			if bo, isBo := pc.V.(*ssa.BinOp); isBo && bo.Op == token.EQL && pc.True {
				if k, isC := core.ConstInt(bo.Y); isC && k == '\r' {
					ok = true
				}
			}
		}
		// switch on a rune compiles to a chain of ==: the load may sit in the block reached by the true edge
		for _, p := range b.Preds {
			if ifi, isIf := p.Instrs[len(p.Instrs)-1].(*ssa.If); isIf && p.Succs[0] == b {
				if bo, isBo := ifi.Cond.(*ssa.BinOp); isBo && bo.Op == token.EQL {
					if k, isC := core.ConstInt(bo.Y); isC && k == '\r' {
						ok = true
					}
				}
			}
		}
	})
	r.Ob("text-through-encoder", "patch/xml.escapeText/carriage-return", ctx.Pos(f.Pos()), ok,
		"escapeText no longer writes a carriage return as &#xD; (its own case, escCR): a literal CR is normalised to LF by every XML parser, so text containing CR or CR LF does not come back as written")
}

// c15IdentityrefPrefixByModuleOnly: RFC 7951 6.8 — an identityref value carries
// the module name of its identity whenever that module differs from the leaf's;
// it is part of the value, not of the member-name qualification, and does not
// depend on the writer's QualifyNamespace option. In writeValue (and the XML
// writer's getStringValue) the prefixing is conditioned on the module comparison
// alone.
func c15IdentityrefPrefixByModuleOnly(ctx *core.Ctx, r *core.Report) {
	wv := ctx.Method("nodeutil", "JSONWtr", "writeValue")
	if wv == nil {
		r.Fatalf("anchor nodeutil.JSONWtr.writeValue not found")
		return
	}
	n := 0
	for _, f := range withClosures(wv) {
		for _, c := range core.CallSites(f) {
			cal := core.StaticCallee(c)
			if cal == nil || core.FnName(cal) != "fmt.Sprint" {
				continue
			}
			// the module:name concatenation: one of the variadic args is the constant ":"
			isPrefixing := false
			core.Instrs(f, func(_ *ssa.BasicBlock, in ssa.Instruction) {
				if mi, ok := in.(*ssa.MakeInterface); ok && mi.Block() == c.Block() {
					if s, isC := core.ConstString(mi.X); isC && s == ":" {
						isPrefixing = true
					}
				}
			})
			if !isPrefixing {
				continue
			}
			n++
			option := ""
			for _, pc := range core.PathConds(c.Block()) {
				var walk func(v ssa.Value, d int)
				walk = func(v ssa.Value, d int) {
					if v == nil || d > 4 {
						return
					}
					switch x := v.(type) {
					case *ssa.UnOp:
						if fa, ok := x.X.(*ssa.FieldAddr); ok {
							if nn := core.NamedOf(fa.X.Type()); nn != nil && nn.Obj().Name() == "JSONWtr" {
								option = core.Deref(fa.X.Type()).Underlying().(*types.Struct).Field(fa.Field).Name()
							}
						}
						walk(x.X, d+1)
					case *ssa.BinOp:
						walk(x.X, d+1)
						walk(x.Y, d+1)
					case *ssa.Phi:
						for _, e := range x.Edges {
							walk(e, d+1)
						}
					}
				}
				walk(pc.V, 0)
			}
			r.Ob("identityref-prefix-by-module-only", core.FnName(f)+"/module-prefix", ctx.Pos(c.Pos()), option == "" || option == "_out",
				"the module prefix of an identityref value is written only when the writer option "+option+" is set: RFC 7951 makes the prefix part of the value whenever the identity's module differs from the leaf's, so with the default options `animals:cat` is written as `cat` and reads back as another (or no) identity")
		}
	}
	r.Floor("identityref-prefix-by-module-only", n, 1)
}

// c14LexerPosInBounds: the YANG lexer's position moves past the text only through
// next() (which stops at the end) or by the length of something it has just
// matched at the position (strings.HasPrefix … true) or after a bounds test.
// Error reporting (Position) indexes the input up to pos: a bare pos++ that can
// run one past the end turns "text ends inside a string" into an index panic.
func c14LexerPosInBounds(ctx *core.Ctx, r *core.Report) {
	lx := ctx.Named("parser", "lexer")
	if lx == nil {
		r.Fatalf("anchor parser.lexer not found")
		return
	}
	n := 0
	for _, f := range scopeFuncs(ctx, "parser", "lexer.go") {
		if f.Name() == "next" || f.Name() == "backup" {
			continue
		}
		core.Instrs(f, func(b *ssa.BasicBlock, in ssa.Instruction) {
			st, ok := in.(*ssa.Store)
			if !ok {
				return
			}
			fa, ok := st.Addr.(*ssa.FieldAddr)
			if !ok || core.NamedOf(fa.X.Type()) != lx {
				return
			}
			if core.Deref(fa.X.Type()).Underlying().(*types.Struct).Field(fa.Field).Name() != "pos" {
				return
			}
			bo, ok := core.Strip(st.Val).(*ssa.BinOp)
			if !ok || bo.Op != token.ADD {
				return
			}
			n++
			guarded := false
			for _, pc := range core.PathConds(b) {
				switch x := pc.V.(type) {
				case *ssa.Call:
					if cal := core.StaticCallee(x); cal != nil && pc.True && (core.FnName(cal) == "strings.HasPrefix" || cal.Name() == "isNextToken" || cal.Name() == "acceptToken") {
						guarded = true
					}
				case *ssa.BinOp:
					// a comparison that involves the position and the input's length, or the character at pos
					mentionsLen, mentionsPos := false, false
					var walk func(v ssa.Value, d int)
					walk = func(v ssa.Value, d int) {
						if v == nil || d > 5 {
							return
						}
						switch y := v.(type) {
						case *ssa.Call:
							if bi, ok := y.Common().Value.(*ssa.Builtin); ok && bi.Name() == "len" {
								mentionsLen = true
							}
						case *ssa.UnOp:
							if fa2, ok := y.X.(*ssa.FieldAddr); ok && core.NamedOf(fa2.X.Type()) == lx {
								if core.Deref(fa2.X.Type()).Underlying().(*types.Struct).Field(fa2.Field).Name() == "pos" {
									mentionsPos = true
								}
							}
							walk(y.X, d+1)
						case *ssa.BinOp:
							walk(y.X, d+1)
							walk(y.Y, d+1)
						case *ssa.Lookup:
							walk(y.X, d+1)
							walk(y.Index, d+1)
							mentionsLen = true // indexing input[pos] succeeded: pos < len
						case *ssa.IndexAddr:
							walk(y.Index, d+1)
							mentionsLen = true
						}
					}
					walk(x, 0)
					if mentionsLen && mentionsPos {
						guarded = true
					}
				}
			}
			r.Ob("lexer-pos-in-bounds", core.FnName(f)+"/pos+=", ctx.Pos(st.Pos()), guarded,
				"the lexer's position is advanced directly, without next() and without a test that the text goes on: at the end of the input it ends one past it, and the error path (Position) then indexes the input out of range — text that stops right after a backslash in a double-quoted string panics instead of being rejected")
		})
	}
	r.Floor("lexer-pos-in-bounds", n, 2)
}

// c05PatternsNotWidened: a value must match the patterns of every level of the
// typedef chain (RFC 7950 9.4.5). The checker (fieldConstraints.patternCheck)
// accepts a string as soon as ONE pattern of the list matches — a recorded known
// finding, pinned by the suite — so the list a type carries must never mix levels:
// Type.mixin may hand the typedef's patterns down only to a type that states none.
// Appending them to the derived type's own patterns would let a value through
// that fails the leaf's own pattern but matches an inherited one.
func c05PatternsNotWidened(ctx *core.Ctx, r *core.Report) {
	mixin := ctx.Method("meta", "Type", "mixin")
	pc := ctx.Method("node", "fieldConstraints", "patternCheck")
	if mixin == nil || pc == nil {
		r.Fatalf("anchors meta.Type.mixin / node.fieldConstraints.patternCheck not found")
		return
	}
	// is the checker disjunctive? (a success return inside its loop)
	disjunctive := false
	for _, ret := range core.Returns(pc) {
		if loopBlocks(ret.Block()) != nil || hasLoopPred(ret.Block()) {
			ops := core.RetOperands(ret)
			if len(ops) > 0 && core.IsNilConst(ops[len(ops)-1]) {
				disjunctive = true
			}
		}
	}
	appends := false
	pos := ctx.Pos(mixin.Pos())
	core.Instrs(mixin, func(_ *ssa.BasicBlock, in ssa.Instruction) {
		c, ok := in.(*ssa.Call)
		if !ok {
			return
		}
		if b, ok := c.Common().Value.(*ssa.Builtin); !ok || b.Name() != "append" {
			return
		}
		for _, a := range c.Common().Args {
			if u, ok := core.Strip(a).(*ssa.UnOp); ok {
				if fa, ok := u.X.(*ssa.FieldAddr); ok {
					if core.Deref(fa.X.Type()).Underlying().(*types.Struct).Field(fa.Field).Name() == "patterns" {
						appends = true
						pos = ctx.Pos(c.Pos())
					}
				}
			}
		}
	})
	r.Ob("patterns-not-widened", "meta.Type.mixin/patterns", pos, !(appends && disjunctive),
		"Type.mixin merges the typedef's patterns into the derived type's own list while the checker accepts a value on any one matching pattern: a value that fails the leaf's own pattern but matches an inherited one (or fails to match an inherited invert-match pattern) is accepted and stored")
}

func hasLoopPred(b *ssa.BasicBlock) bool {
	for _, p := range b.Preds {
		if loopBlocks(p) != nil {
			return true
		}
	}
	return false
}

// c11DeleteRequiresMatch: RFC 7950 7.20.3.2 — a `deviate delete` names the value
// it deletes and that argument MUST match the target's. In applyDeviation units
// are cleared (setUnits("")) and the default is cleared (clearDefault) only on
// the side of the comparison where the two are equal; the other side is the error.
func c11DeleteRequiresMatch(ctx *core.Ctx, r *core.Report) {
	f := ctx.Method("meta", "resolver", "applyDeviation")
	if f == nil {
		r.Fatalf("anchor meta.resolver.applyDeviation not found")
		return
	}
	n := 0
	for _, c := range core.CallSites(f) {
		m := core.IfaceMethod(c)
		if m == nil {
			continue
		}
		what := ""
		switch m.Name() {
		case "setUnits":
			if s, ok := core.ConstString(c.Common().Args[0]); ok && s == "" {
				what = "units"
			}
		case "clearDefault":
			what = "default"
		}
		if what == "" {
			continue
		}
		n++
		onEqual := false
		for _, pc := range core.PathConds(c.Block()) {
			switch x := pc.V.(type) {
			case *ssa.BinOp:
				if isStringType(x.X.Type()) && ((x.Op == token.EQL && pc.True) || (x.Op == token.NEQ && !pc.True)) {
					if _, isEmpty := core.ConstString(x.Y); !isEmpty {
						onEqual = true
					}
				}
			case *ssa.Call:
				if cal := core.StaticCallee(x); cal != nil && strings.Contains(cal.Name(), "Equal") && pc.True {
					onEqual = true
				}
			}
		}
		r.Ob("delete-requires-match", "meta.resolver.applyDeviation/delete-"+what, ctx.Pos(c.Pos()), onEqual,
			"deviate delete removes the target's "+what+" without being on the side of the comparison where the deviate's argument equals the target's value: a matching argument is refused (or any argument is accepted) — RFC 7950 7.20.3.2 requires the argument to match")
	}
	r.Floor("delete-requires-match", n, 2)
}

// c14ImportRememberedAsAsked backs the visited guard of resolver.module for
// imports: the table of loaded modules is looked up by the name the import asks
// for, so the loaded module is entered under that name before the recursion — a
// module answering to another name would otherwise be loaded again for every
// import of it, without end when the imports form a cycle.
func c14ImportRememberedAsAsked(ctx *core.Ctx, r *core.Report) {
	f := ctx.Method("meta", "resolver", "module")
	if f == nil {
		r.Fatalf("anchor meta.resolver.module not found")
		return
	}
	rec := callsStatic(f, f, false)
	ok := false
	core.Instrs(f, func(_ *ssa.BasicBlock, in ssa.Instruction) {
		mu, isMu := in.(*ssa.MapUpdate)
		if !isMu {
			return
		}
		_, fld, _, isField := mapFieldOf(mu.Map)
		if !isField || fld != "loadedModules" {
			return
		}
		if !strings.HasSuffix(paramFieldChain(mu.Key), ".moduleName") {
			return
		}
		for _, c := range rec {
			if instrDominates(mu, c.(ssa.Instruction)) {
				ok = true
			}
		}
	})
	r.Ob("guard-backing", "meta.resolver.module/import-remembered-under-requested-name", ctx.Pos(f.Pos()), ok && len(rec) > 0,
		"an imported module is remembered only under the name it declares while the table is looked up by the name the import asks for: when the two differ the module is loaded and resolved again for every import of it — for ever, if its own imports lead back")
}

// c14SingleDefaultGuard backs the triage of Leaf/Choice/Typedef.addDefault's
// "default already set" panic for deviations: applyDeviation hands several
// defaults to addDefault only after testing that the target takes several.
func c14SingleDefaultGuard(ctx *core.Ctx, r *core.Report) {
	f := ctx.Method("meta", "resolver", "applyDeviation")
	if f == nil {
		return
	}
	for _, c := range core.CallSites(f) {
		if m := core.IfaceMethod(c); m == nil || m.Name() != "addDefault" {
			continue
		}
		// the slice whose elements are handed to addDefault
		var defaults ssa.Value
		if u, ok := core.Strip(c.Common().Args[0]).(*ssa.UnOp); ok {
			if ia, ok := u.X.(*ssa.IndexAddr); ok {
				defaults = ia.X
			}
		}
		guarded := false
		core.Instrs(f, func(b *ssa.BasicBlock, in ssa.Instruction) {
			ifi, ok := in.(*ssa.If)
			if !ok {
				return
			}
			bo, ok := ifi.Cond.(*ssa.BinOp)
			if !ok || bo.Op != token.GTR {
				return
			}
			if k, isC := core.ConstInt(bo.Y); !isC || k != 1 {
				return
			}
			lc, ok := bo.X.(*ssa.Call)
			if !ok || defaults == nil || len(lc.Common().Args) != 1 || lc.Common().Args[0] != defaults {
				return
			}
			// more than one: an error return
			t := b.Succs[0]
			if ret, isRet := t.Instrs[len(t.Instrs)-1].(*ssa.Return); isRet && !mayBeSuccess(ret) {
				guarded = true
			}
		})
		r.Ob("guard-backing", "meta.resolver.applyDeviation/several-defaults-only-where-allowed", ctx.Pos(c.Pos()), guarded,
			"deviate add hands every default it states to addDefault without a test `more than one default → error` for targets that hold a single one: a second default on a leaf is the panic \"default already set\"")
	}
}

// c13NextStepGuarded: xpathImpl.resolvePath reads its step argument at once
// (seg.Ident). Wherever it calls itself with the next step of the expression
// (seg.Next, nextSeg), that step was tested for nil on the way — an expression
// may end on a container or a list.
func c13NextStepGuarded(ctx *core.Ctx, r *core.Report) {
	f := ctx.Method("node", "xpathImpl", "resolvePath")
	if f == nil {
		r.Fatalf("anchor node.xpathImpl.resolvePath not found")
		return
	}
	n := 0
	for _, c := range callsStatic(f, f, false) {
		n++
		arg := c.Common().Args[1]
		chain := paramFieldChain(arg)
		guarded := false
		for _, pc := range core.PathConds(c.Block()) {
			bo, ok := pc.V.(*ssa.BinOp)
			if !ok || (!core.IsNilConst(bo.Y) && !core.IsNilConst(bo.X)) {
				continue
			}
			v := bo.X
			if core.IsNilConst(bo.X) {
				v = bo.Y
			}
			if paramFieldChain(v) == chain {
				// the recursion is on the side where the step is not nil
				if (bo.Op == token.NEQ && pc.True) || (bo.Op == token.EQL && !pc.True) {
					guarded = true
				}
			}
		}
		// the list branch returns early when there is no next step and no expression
		if !guarded {
			core.Instrs(f, func(b *ssa.BasicBlock, in ssa.Instruction) {
				ifi, ok := in.(*ssa.If)
				if !ok || !b.Dominates(c.Block()) {
					return
				}
				var mentions func(v ssa.Value, d int) bool
				mentions = func(v ssa.Value, d int) bool {
					if v == nil || d > 4 {
						return false
					}
					switch x := v.(type) {
					case *ssa.BinOp:
						if (core.IsNilConst(x.Y) && paramFieldChain(x.X) == chain) || (core.IsNilConst(x.X) && paramFieldChain(x.Y) == chain) {
							return true
						}
						return mentions(x.X, d+1) || mentions(x.Y, d+1)
					case *ssa.Phi:
						for _, e := range x.Edges {
							if mentions(e, d+1) {
								return true
							}
						}
					}
					return false
				}
				if mentions(ifi.Cond, 0) {
					guarded = true
				}
			})
		}
		r.Ob("guard-backing", fmt.Sprintf("node.xpathImpl.resolvePath/next-step-tested#%d", n), ctx.Pos(c.Pos()), guarded,
			"resolvePath calls itself with the expression's next step ("+chain+") without having tested it for nil: an expression that ends on a container (where=c) dereferences the missing step")
	}
	r.Floor("guard-backing(resolvePath recursion)", n, 2)
}

// c13ReflectListsTestKey: the reflection-backed list nodes (Reflect.listSlice,
// Reflect.listMap) look an entry up by key or create one under a key only after
// isKeyValid said the key tuple is complete; an incomplete key is a bad request.
func c13ReflectListsTestKey(ctx *core.Ctx, r *core.Report) {
	ikv := ctx.Fn("nodeutil", "isKeyValid")
	if ikv == nil {
		r.Fatalf("anchor nodeutil.isKeyValid not found")
		return
	}
	n := 0
	for _, name := range []string{"listSlice", "listMap"} {
		f := ctx.Method("nodeutil", "Reflect", name)
		if f == nil {
			r.Fatalf("anchor nodeutil.Reflect.%s not found", name)
			continue
		}
		for _, clo := range withClosures(f)[1:] {
			if clo.Signature.Params().Len() != 1 || !strings.HasSuffix(core.TypeName(clo.Signature.Params().At(0).Type()), "ListRequest") {
				continue
			}
			n++
			cs := callsStatic(clo, ikv, false)
			ok := len(cs) > 0
			for _, c := range cs {
				// the invalid side returns an error
				bad := false
				for _, ref := range *c.Value().Referrers() {
					ifi, isIf := ref.(*ssa.If)
					if !isIf {
						if u, isU := ref.(*ssa.UnOp); isU && u.Op == token.NOT {
							for _, r2 := range *u.Referrers() {
								if i2, ok2 := r2.(*ssa.If); ok2 {
									t := i2.Block().Succs[0]
									if ret, isRet := t.Instrs[len(t.Instrs)-1].(*ssa.Return); isRet && !mayBeSuccess(ret) {
										bad = true
									}
								}
							}
						}
						continue
					}
					e := ifi.Block().Succs[1]
					if ret, isRet := e.Instrs[len(e.Instrs)-1].(*ssa.Return); isRet && !mayBeSuccess(ret) {
						bad = true
					}
				}
				if !bad {
					ok = false
				}
			}
			r.Ob("guard-backing", "nodeutil.Reflect."+name+"/key-tested", ctx.Pos(clo.Pos()), ok,
				"the list node uses the key of a request without isKeyValid → bad request: a JSON entry that lacks (some of) its key leaves is a nil dereference, or is matched by row and merged into another entry")
		}
	}
	r.Floor("guard-backing(reflect list nodes)", n, 2)
}

// c07LeadingGroupKept: expandPaths multiplies the paths read so far with the
// paths of a group. Read so far may be nothing — the expression starts with the
// group — and nothing times anything is nothing: the function has a branch for
// the empty case that takes over the group's paths.
func c07LeadingGroupKept(ctx *core.Ctx, r *core.Report) {
	f := ctx.Method("node", "PathMatchExpression", "expandPaths")
	if f == nil || len(f.Params) < 1 {
		r.Fatalf("anchor node.PathMatchExpression.expandPaths not found")
		return
	}
	ok := false
	core.Instrs(f, func(_ *ssa.BasicBlock, in ssa.Instruction) {
		ifi, isIf := in.(*ssa.If)
		if !isIf {
			return
		}
		bo, isBo := ifi.Cond.(*ssa.BinOp)
		if !isBo || (bo.Op != token.EQL && bo.Op != token.NEQ && bo.Op != token.GTR) {
			return
		}
		if k, isC := core.ConstInt(bo.Y); !isC || k != 0 {
			return
		}
		if lc, isCall := bo.X.(*ssa.Call); isCall {
			if bi, isB := lc.Common().Value.(*ssa.Builtin); isB && bi.Name() == "len" && strings.HasSuffix(paramFieldChain(lc.Common().Args[0]), ".paths") && strings.HasPrefix(paramFieldChain(lc.Common().Args[0]), f.Params[0].Name()+".") {
				ok = true
			}
		}
	})
	r.Ob("leading-group-kept", "node.PathMatchExpression.expandPaths", ctx.Pos(f.Pos()), ok,
		"expandPaths has no case for an expression that has no paths yet: a group at the very start (fields=(a;b)) is multiplied with nothing and vanishes — the read comes back unfiltered")
}

// c13HandlersKnowTheirNode: the container/list handlers of nodeutil.Node call back
// into their node (ref.NewObject, ref.options …). Every handler value that is
// built stores that node: a composite literal that leaves `ref` out is a nil
// dereference the first time the handler has to create something.
func c13HandlersKnowTheirNode(ctx *core.Ctx, r *core.Report) {
	n := 0
	for _, f := range scopeFuncs(ctx, "nodeutil") {
		core.Instrs(f, func(_ *ssa.BasicBlock, in ssa.Instruction) {
			al, ok := in.(*ssa.Alloc)
			if !ok || al.Comment != "complit" {
				return
			}
			named := core.NamedOf(al.Type())
			if named == nil || named.Obj().Pkg() == nil || named.Obj().Pkg().Path() != core.Full("nodeutil") {
				return
			}
			st, ok := named.Underlying().(*types.Struct)
			if !ok {
				return
			}
			hasRef := false
			for i := 0; i < st.NumFields(); i++ {
				if st.Field(i).Name() == "ref" {
					if p, isPtr := st.Field(i).Type().(*types.Pointer); isPtr {
						if nn := core.NamedOf(p); nn != nil && nn.Obj().Name() == "Node" {
							hasRef = true
						}
					}
				}
			}
			if !hasRef {
				return
			}
			n++
			_, set := fieldStores(al, st)["ref"]
			r.Ob("guard-backing", core.FnName(f)+"/"+named.Obj().Name()+"{ref}", ctx.Pos(al.Pos()), set,
				"a "+named.Obj().Name()+" is built without its node (ref): it calls back into the node when it has to create a child, which is then a nil dereference (an edit that creates a container under a map-backed nodeutil.Node)")
		})
	}
	r.Floor("guard-backing(handler literals)", n, 3)
}

// c13ProbeHasNoSelection: nodeutil.Node.exists asks its own Child/Field callbacks
// with a request that carries no selection; the callbacks reached that way test
// the selection for nil before reading through it.
func c13ProbeHasNoSelection(ctx *core.Ctx, r *core.Report) {
	f := ctx.Method("nodeutil", "Node", "DoGetChild")
	if f == nil {
		r.Fatalf("anchor nodeutil.Node.DoGetChild not found")
		return
	}
	n := 0
	core.Instrs(f, func(b *ssa.BasicBlock, in ssa.Instruction) {
		fa, ok := in.(*ssa.FieldAddr)
		if !ok {
			return
		}
		// a field of *Selection read through r.Selection
		if nn := core.NamedOf(fa.X.Type()); nn == nil || nn.Obj().Name() != "Selection" {
			return
		}
		if !strings.HasSuffix(paramFieldChain(fa.X), ".Selection") {
			return
		}
		n++
		guarded := false
		for _, pc := range core.PathConds(b) {
			bo, isBo := pc.V.(*ssa.BinOp)
			if !isBo || !core.IsNilConst(bo.Y) || !strings.HasSuffix(paramFieldChain(bo.X), ".Selection") {
				continue
			}
			if (bo.Op == token.NEQ && pc.True) || (bo.Op == token.EQL && !pc.True) {
				guarded = true
			}
		}
		r.Ob("guard-backing", fmt.Sprintf("nodeutil.Node.DoGetChild/selection-tested#%d", n), ctx.Pos(fa.Pos()), guarded,
			"DoGetChild reads through the request's selection without testing it: the presence probe of nodeutil.Node.exists sends a request without one, so a list inside a case makes every read of the container panic")
	})
	r.Floor("guard-backing(DoGetChild selection reads)", n, 1)
}

// c08FoundPathContinuesSelection: the Path of a selection Find returns for a leaf,
// action or notification continues the path of the selection reached so far
// (Parent: p.Path): the parsed segments are a chain that starts at the schema node
// of the start selection and has neither its ancestors nor its list keys.
func c08FoundPathContinuesSelection(ctx *core.Ctx, r *core.Report) {
	f := ctx.Method("node", "Selection", "findSlice")
	if f == nil {
		r.Fatalf("anchor node.Selection.findSlice not found")
		return
	}
	n := 0
	core.Instrs(f, func(_ *ssa.BasicBlock, in ssa.Instruction) {
		st, ok := in.(*ssa.Store)
		if !ok {
			return
		}
		fa, ok := st.Addr.(*ssa.FieldAddr)
		if !ok {
			return
		}
		nn := core.NamedOf(fa.X.Type())
		if nn == nil || nn.Obj().Name() != "Selection" || core.Deref(fa.X.Type()).Underlying().(*types.Struct).Field(fa.Field).Name() != "Path" {
			return
		}
		if _, isAlloc := fa.X.(*ssa.Alloc); !isAlloc {
			return
		}
		n++
		// the stored path is a new Path literal whose Parent is a selection's Path
		ok2 := false
		if al, isAl := core.Strip(st.Val).(*ssa.Alloc); isAl {
			if pst, isS := core.Deref(al.Type()).Underlying().(*types.Struct); isS {
				if pv, has := fieldStores(al, pst)["Parent"]; has && strings.HasSuffix(paramFieldChain(pv), ".Path") {
					ok2 = true
				}
			}
		}
		r.Ob("found-path-continues-selection", fmt.Sprintf("node.Selection.findSlice/leaf-path#%d", n), ctx.Pos(st.Pos()), ok2,
			"the selection returned for a leaf, action or notification gets the parsed segment as its path instead of a path below the selection reached so far: taken from a start selection that is not the root, its path has lost the ancestors and list keys and no longer identifies the location")
	})
	r.Floor("found-path-continues-selection", n, 1)
	// and a step that is neither a data node with children nor a leaf-like node is refused
	refused := false
	for _, ef := range errorfCalls(f) {
		b := ef.Call.Block()
		// reached where the step is not a list or container (false side) and not leaf/action/notification
		conds := 0
		for _, pc := range core.PathConds(b) {
			if call, ok := pc.V.(*ssa.Call); ok && !pc.True {
				if cal := core.StaticCallee(call); cal != nil && (cal.Name() == "IsList" || cal.Name() == "IsContainer") {
					conds++
				}
			}
		}
		if conds >= 2 {
			refused = true
		}
	}
	r.Ob("found-path-continues-selection", "node.Selection.findSlice/non-data-step-refused", ctx.Pos(f.Pos()), refused,
		"a path step that names a choice or a case falls through every branch of findSlice: Find answers with the parent selection and no error, as if the path had ended there")
}

// c16ExpressionWalkedOnce: resolvePath walks the steps that follow the one it is
// given (it recurses for containers and list entries); XFind calls it once for
// the whole expression instead of once per step.
func c16ExpressionWalkedOnce(ctx *core.Ctx, r *core.Report) {
	f := ctx.Method("node", "Selection", "XFind")
	rp := ctx.Method("node", "xpathImpl", "resolvePath")
	if f == nil || rp == nil {
		r.Fatalf("anchors node.Selection.XFind / xpathImpl.resolvePath not found")
		return
	}
	cs := callsStatic(f, rp, false)
	ok := len(cs) == 1 && loopBlocks(cs[0].Block()) == nil
	r.Ob("expression-walked-once", "node.Selection.XFind", ctx.Pos(f.Pos()), ok,
		"XFind calls resolvePath for every step of the expression although resolvePath already walks the following steps itself: an expression of three or more steps is resolved twice and fails with 'not found in xpath'")
}

// c18MapHandlerIndexDropped: the map-backed list handler of nodeutil.Node walks
// the map in the order of a sorted copy of its keys (mapAsList.index). Every
// method that changes the map (SetMapIndex) drops that copy before it returns,
// and a walk that starts over (First) builds it again — otherwise a later walk
// through the same list node misses the new entry, or stops at a deleted key and
// loses every entry behind it.
func c18MapHandlerIndexDropped(ctx *core.Ctx, r *core.Report) {
	mal := ctx.Named("nodeutil", "mapAsList")
	if mal == nil {
		r.Fatalf("anchor nodeutil.mapAsList not found")
		return
	}
	n := 0
	for _, f := range scopeFuncs(ctx, "nodeutil", "node_map.go") {
		rv := f.Signature.Recv()
		if rv == nil || core.NamedOf(rv.Type()) != mal || len(f.Params) == 0 {
			continue
		}
		recv := f.Params[0]
		for _, c := range core.CallSites(f) {
			cal := core.StaticCallee(c)
			if cal == nil || core.FnName(cal) != "reflect.Value.SetMapIndex" {
				continue
			}
			n++
			var drops []*ssa.Store
			core.Instrs(f, func(_ *ssa.BasicBlock, in ssa.Instruction) {
				st, ok := in.(*ssa.Store)
				if !ok || !core.IsNilConst(st.Val) {
					return
				}
				if fa, ok := st.Addr.(*ssa.FieldAddr); ok && fa.X == ssa.Value(recv) && core.Deref(recv.Type()).Underlying().(*types.Struct).Field(fa.Field).Name() == "index" {
					drops = append(drops, st)
				}
			})
			ok := len(drops) > 0
			for _, ret := range core.Returns(f) {
				if !instrDominates(c.(ssa.Instruction), ret) {
					continue
				}
				dom := false
				for _, d := range drops {
					if instrDominates(d, ret) {
						dom = true
					}
				}
				if !dom {
					ok = false
				}
			}
			r.Ob("cache-dropped-on-mutation", core.FnName(f)+"/index", ctx.Pos(c.Pos()), ok,
				"the map is changed here and the method can return with the handler's sorted copy of the keys still in place: a later walk through the same list node misses the inserted entry, or stops at the deleted key and loses every entry behind it")
		}
	}
	r.Floor("cache-dropped-on-mutation(mapAsList)", n, 2)
}

// c11DeviateFieldsFilled: every field of a deviate statement that applyDeviation
// reads is written somewhere by the Builder (or its add*/set* helpers): a field
// that is only ever read means the statement it stands for cannot be written in a
// module at all (`unique` inside a deviate was refused by Builder.Unique while
// applyDeviation had the code to apply it).
func c11DeviateFieldsFilled(ctx *core.Ctx, r *core.Report) {
	n := 0
	for _, tn := range []string{"AddDeviate", "ReplaceDeviate", "DeleteDeviate"} {
		named := ctx.Named("meta", tn)
		if named == nil {
			r.Fatalf("anchor meta.%s not found", tn)
			continue
		}
		st := named.Underlying().(*types.Struct)
		read, written := map[string]bool{}, map[string]bool{}
		for _, f := range scopeFuncs(ctx, "meta") {
			isApply := strings.HasSuffix(core.FnName(f), "resolver.applyDeviation") || strings.HasSuffix(core.FnName(f), "resolver.checkDeviationTarget")
			// an unexported setter nobody calls fills nothing in
			called := true
			if n := ctx.CG().Nodes[f]; n != nil && len(n.In) == 0 && !f.Object().Exported() {
				called = false
			}
			if !called && !isApply {
				continue
			}
			core.Instrs(f, func(_ *ssa.BasicBlock, in ssa.Instruction) {
				fa, ok := in.(*ssa.FieldAddr)
				if !ok || core.NamedOf(fa.X.Type()) != named {
					return
				}
				name := st.Field(fa.Field).Name()
				for _, ref := range *fa.Referrers() {
					switch y := ref.(type) {
					case *ssa.Store:
						// a copy made by clone() fills nothing in
						if y.Addr == ssa.Value(fa) && f.Name() != "clone" {
							written[name] = true
						}
					case *ssa.UnOp:
						if isApply {
							read[name] = true
						}
					}
				}
			})
		}
		for i := 0; i < st.NumFields(); i++ {
			name := st.Field(i).Name()
			if !read[name] {
				continue
			}
			n++
			r.Ob("deviation-field-coverage", "meta."+tn+"."+name+"/filled", ctx.Pos(st.Field(i).Pos()), written[name],
				"applying a deviation reads "+tn+"."+name+" but nothing ever stores it: the corresponding statement cannot be written inside that deviate (the Builder refuses or drops it), so the deviation cannot be expressed")
		}
	}
	r.Floor("deviation-field-coverage(filled)", n, 12)
}

// c02RestrictedEnumKeepsValue: RFC 7950 9.6.4.2 — when a type restricts an
// enumeration typedef, the enums it names keep the values they have in the
// typedef. In compileType the numbering loop consults the typedef's compiled
// enum list (by label) before it falls back to the written value or the next
// free number.
func c02RestrictedEnumKeepsValue(ctx *core.Ctx, r *core.Report) {
	f := ctx.Method("meta", "compiler", "compileType")
	if f == nil {
		r.Fatalf("anchor meta.compiler.compileType not found")
		return
	}
	// the store of Enum.Id … in the loop over y.enums depends on a ByLabel lookup in an inherited list
	ok := false
	for _, c := range core.CallSites(f) {
		cal := core.StaticCallee(c)
		if cal == nil || cal.Name() != "ByLabel" || loopBlocks(c.Block()) == nil {
			continue
		}
		// its receiver comes from the typedef's type (field enum of a *Type reached from findTypedef's result)
		// the looked-up enum flows into the numbering
		if c.Value() != nil {
			for _, ref := range *c.Value().Referrers() {
				if ex, isEx := ref.(*ssa.Extract); isEx && ex.Index == 0 && ex.Referrers() != nil && len(*ex.Referrers()) > 0 {
					ok = true
				}
			}
		}
	}
	r.Ob("restricted-enum-keeps-value", "meta.compiler.compileType/enum-numbering", ctx.Pos(f.Pos()), ok,
		"the numbering of enums no longer looks an enum up in the typedef being restricted: `type e { enum b; }` over `typedef e { enum a { value 5; } enum b; }` numbers b from 0 instead of keeping 6, so stored numbers and on-the-wire ids name other enums")
}
