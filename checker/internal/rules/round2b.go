package rules

import (
	"fmt"
	"go/token"
	"go/types"
	"strings"

	"golang.org/x/tools/go/ssa"

	"verif/checker/internal/core"
)

// c11FeaturesConjunctive: a definition with several if-feature statements is
// present only when all of them are true (RFC 7950 7.20.2). checkFeature
// therefore answers with a constant on every path — false as soon as one
// statement is false, true after the last — never with the verdict a loop
// happened to compute last.
func c11FeaturesConjunctive(ctx *core.Ctx, r *core.Report) {
	f := ctx.Fn("meta", "checkFeature")
	if f == nil {
		r.Fatalf("anchor meta.checkFeature not found")
		return
	}
	n := 0
	for _, ret := range core.Returns(f) {
		ops := core.RetOperands(ret)
		for _, leaf := range core.PhiLeaves(ops[0], ret.Block()) {
			n++
			_, isConst := leaf.V.(*ssa.Const)
			r.Ob("features-conjunctive", fmt.Sprintf("meta.checkFeature/verdict#%d", n), ctx.Pos(ret.Pos()), isConst,
				"checkFeature returns the verdict of whichever if-feature statement it looked at last instead of `false` as soon as one is false: with several if-feature statements on one definition an earlier false one is overridden by a later true one")
		}
	}
	r.Floor("features-conjunctive", n, 2)
}

// c12SplitDropsParent: the selection made for the other side of an edit
// (Selection.Split) has no parent: begin/end notifications bubble up the parent
// chain, and the ancestors of the tree that is only read must not be told.
func c12SplitDropsParent(ctx *core.Ctx, r *core.Report) {
	f := ctx.Method("node", "Selection", "Split")
	if f == nil {
		r.Fatalf("anchor node.Selection.Split not found")
		return
	}
	ok := false
	core.Instrs(f, func(_ *ssa.BasicBlock, in ssa.Instruction) {
		st, isSt := in.(*ssa.Store)
		if !isSt || !core.IsNilConst(st.Val) {
			return
		}
		if fa, isFa := st.Addr.(*ssa.FieldAddr); isFa {
			if sts, isS := core.Deref(fa.X.Type()).Underlying().(*types.Struct); isS && sts.Field(fa.Field).Name() == "parent" {
				if _, isAlloc := fa.X.(*ssa.Alloc); isAlloc {
					ok = true
				}
			}
		}
	})
	r.Ob("who-may-notify", "node.Selection.Split/fork-has-no-parent", ctx.Pos(f.Pos()), ok,
		"the selection forked for the other side of an edit keeps the parent chain of the tree it was forked from: BeginEdit/EndEdit bubble up that chain, so ancestors of the tree that is merely read (UpsertInto from a found selection) are told an edit begins and ends")
}

// c12EndEditUnconditional: in the deferred function that pairs beginEdit, the
// call of endEdit lies on every path — also when the edit itself failed: the
// nodes were told begin and must be told end.
func c12EndEditUnconditional(ctx *core.Ctx, r *core.Report) {
	end := ctx.Method("node", "Selection", "endEdit")
	begin := ctx.Method("node", "Selection", "beginEdit")
	if end == nil || begin == nil {
		r.Fatalf("anchors node.Selection.beginEdit / endEdit not found")
		return
	}
	n := 0
	for _, f := range scopeFuncs(ctx, "node") {
		if f.Parent() == nil || len(callsStatic(f.Parent(), begin, false)) == 0 {
			continue
		}
		if _, isDeferred := closureIsDeferred(f.Parent(), f); !isDeferred {
			continue
		}
		cs := callsStatic(f, end, false)
		if len(cs) == 0 {
			continue
		}
		n++
		ok := true
		for _, ret := range core.Returns(f) {
			dom := false
			for _, c := range cs {
				if instrDominates(c.(ssa.Instruction), ret) {
					dom = true
				}
			}
			if !dom {
				ok = false
			}
		}
		r.Ob("end-follows-begin", core.FnName(f)+"/endEdit-on-every-path", ctx.Pos(f.Pos()), ok,
			"the deferred function can finish without calling endEdit (when the edit failed, say): every node that was told BeginEdit is then never told EndEdit")
	}
	r.Floor("end-follows-begin(deferred closures)", n, 2)
}

// errorTestedBeforeNextCall (C12): in Selection.get and Selection.set the error a
// node callback returned is tested before anything else is called: a later call
// whose error lands in the same variable would replace it, and the edit goes on
// as if the callback had succeeded.
func errorTestedBeforeNextCall(ctx *core.Ctx, r *core.Report) {
	nodeI := ctx.Named("node", "Node")
	if nodeI == nil {
		r.Fatalf("anchor node.Node not found")
		return
	}
	for _, name := range []string{"get", "set"} {
		f := ctx.Method("node", "Selection", name)
		if f == nil {
			r.Fatalf("anchor node.Selection.%s not found", name)
			continue
		}
		for _, c := range invokesOf(f, false, nodeI, "Field") {
			ev := errResult(c)
			ok := ev != nil
			culprit := ""
			if ok {
				for _, c2 := range core.CallSites(f) {
					if c2 == c || !instrDominates(c.(ssa.Instruction), c2.(ssa.Instruction)) {
						continue
					}
					if _, isB := c2.Common().Value.(*ssa.Builtin); isB {
						continue
					}
					// c2 must run only where ev == nil was established
					tested := false
					for _, pc := range core.PathConds(c2.Block()) {
						if bo, isBo := pc.V.(*ssa.BinOp); isBo && dependsOn(bo, ev, 0) && (core.IsNilConst(bo.Y) || core.IsNilConst(bo.X)) {
							if (bo.Op == token.NEQ && !pc.True) || (bo.Op == token.EQL && pc.True) {
								tested = true
							}
						}
					}
					if !tested {
						ok = false
						culprit = core.CalleeName(c2)
					}
				}
			}
			r.Ob("errors-surface", "node.Selection."+name+"/Field-error-tested-first", ctx.Pos(c.Pos()), ok,
				"after the node's Field callback "+culprit+" is called without the callback's error having been tested: an error of the callback can be replaced by the later call's result (a schema default filled in, nil error) and the edit continues, writing the default and the following leaves")
		}
	}
}

// c13KeyValidEveryElement: nodeutil's isKeyValid — the test the list nodes rely on
// before they index or dereference a key tuple — looks at every element: a key
// tuple with any element missing (a JSON entry that carries only its first key)
// is no key.
func c13KeyValidEveryElement(ctx *core.Ctx, r *core.Report) {
	f := ctx.Fn("nodeutil", "isKeyValid")
	if f == nil || len(f.Params) < 1 {
		r.Fatalf("anchor nodeutil.isKeyValid not found")
		return
	}
	// a nil test of an element indexed by a loop variable
	ok := false
	core.Instrs(f, func(b *ssa.BasicBlock, in ssa.Instruction) {
		bo, isBo := in.(*ssa.BinOp)
		if !isBo || (bo.Op != token.EQL && bo.Op != token.NEQ) || !core.IsNilConst(bo.Y) {
			return
		}
		u, isU := core.Strip(bo.X).(*ssa.UnOp)
		if !isU {
			return
		}
		ia, isIa := u.X.(*ssa.IndexAddr)
		if !isIa || ia.X != ssa.Value(f.Params[0]) {
			return
		}
		if _, isConst := ia.Index.(*ssa.Const); !isConst && loopBlocks(b) != nil {
			ok = true
		}
	})
	r.Ob("guard-backing", "nodeutil.isKeyValid/every-element", ctx.Pos(f.Pos()), ok,
		"isKeyValid no longer tests every element of the key tuple for nil: the list nodes dereference key[i] after it said the key is valid, so an entry that carries only some of its keys is a nil dereference (or is silently appended)")
}

// c13FindCursorGuarded: each ../ of Find dereferences the cursor (Parent() reads
// s.parent): the loop tests that there is a parent before it climbs.
func c13FindCursorGuarded(ctx *core.Ctx, r *core.Report) {
	f := ctx.Method("node", "Selection", "Find")
	parent := ctx.Method("node", "Selection", "Parent")
	if f == nil || parent == nil {
		r.Fatalf("anchors node.Selection.Find / Parent not found")
		return
	}
	for _, c := range callsStatic(f, parent, false) {
		lb := loopBlocks(c.Block())
		if lb == nil {
			continue
		}
		recv := c.Common().Args[0]
		ok := false
		for _, pc := range core.PathConds(c.Block()) {
			bo, isBo := pc.V.(*ssa.BinOp)
			if !isBo || !lb[pc.If.Block()] {
				continue
			}
			if !core.IsNilConst(bo.Y) && !core.IsNilConst(bo.X) {
				continue
			}
			// s.parent != nil  or  s != nil, on the cursor of this iteration
			v := bo.X
			if core.IsNilConst(bo.X) {
				v = bo.Y
			}
			if u, isU := core.Strip(v).(*ssa.UnOp); isU {
				if fa, isFa := u.X.(*ssa.FieldAddr); isFa && fa.X == recv {
					v = recv
				}
			}
			if v == recv && ((bo.Op == token.NEQ && pc.True) || (bo.Op == token.EQL && !pc.True)) {
				ok = true
			}
		}
		r.Ob("guard-backing", "node.Selection.Find/parent-tested-each-step", ctx.Pos(c.Pos()), ok,
			"a leading ../ climbs without the test, in that same iteration, that the selection reached so far has a parent: two more ../ than there are ancestors call Parent() on a nil selection")
	}
}

// c14EveryBaseCompiled: compiler.identity compiles every base it finds, whatever
// module it is in, before it goes on: that recursion is what meets the
// "in progress" mark of an identity again when a derivation cycle exists — also
// one whose every edge crosses a module boundary.
func c14EveryBaseCompiled(ctx *core.Ctx, r *core.Report) {
	f := ctx.Method("meta", "compiler", "identity")
	compile := ctx.Method("meta", "compiler", "compile")
	if f == nil || compile == nil {
		r.Fatalf("anchors meta.compiler.identity / compile not found")
		return
	}
	cs := callsStatic(f, compile, false)
	n := 0
	for _, h := range f.Blocks {
		body, hdr := innerLoopOf(h)
		if hdr != h || body == nil {
			continue
		}
		var inLoop []ssa.CallInstruction
		for _, c := range cs {
			if body[c.Block()] {
				inLoop = append(inLoop, c)
			}
		}
		if len(inLoop) == 0 {
			continue
		}
		n++
		ok := true
		for _, p := range h.Preds {
			if !body[p] {
				continue
			}
			dom := false
			for _, c := range inLoop {
				if c.Block().Dominates(p) {
					dom = true
				}
			}
			if !dom {
				ok = false
			}
		}
		r.Ob("guard-backing", "meta.compiler.identity/every-base-compiled", ctx.Pos(inLoop[0].Pos()), ok,
			"a base identity can be linked without being compiled in turn (a base in another module, say): a derivation cycle whose edges all cross module boundaries is then never met by the in-progress mark, the module loads, and FindIdentity recurses without end")
	}
	if n == 0 {
		r.Fatalf("compiler.identity: the loop over base identities that compiles each base was not found")
	}
}

// c14AnyRejectedByDeviationCheck backs the triage of Any.setUnits/addDefault/setType:
// checkDeviationTarget tests the target for *Any and the verdict takes part in the
// decision (Any is Leafable only formally).
func c14AnyRejectedByDeviationCheck(ctx *core.Ctx, r *core.Report) {
	f := ctx.Method("meta", "resolver", "checkDeviationTarget")
	if f == nil {
		return // reported by guard-backing
	}
	ok := false
	core.Instrs(f, func(_ *ssa.BasicBlock, in ssa.Instruction) {
		ta, isTa := in.(*ssa.TypeAssert)
		if !isTa || !ta.CommaOk || !strings.HasSuffix(core.TypeName(ta.AssertedType), "meta.Any") {
			return
		}
		for _, ref := range *ta.Referrers() {
			if ex, isEx := ref.(*ssa.Extract); isEx && ex.Index == 1 && ex.Referrers() != nil {
				for _, r2 := range *ex.Referrers() {
					if _, dbg := r2.(*ssa.DebugRef); !dbg {
						ok = true
					}
				}
			}
		}
	})
	r.Ob("guard-backing", "meta.resolver.checkDeviationTarget/rejects-any", ctx.Pos(f.Pos()), ok,
		"checkDeviationTarget no longer tests whether the target is anydata/anyxml: a deviation stating units, default or type on such a node reaches Any.setUnits/addDefault/setType, which panic")
}
