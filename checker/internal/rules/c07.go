package rules

import (
	"fmt"
	"go/token"
	"go/types"
	"sort"
	"strings"

	"golang.org/x/tools/go/ssa"

	"verif/checker/internal/core"
)

// ---------------------------------------------------------------------------
// C07 — query parameters return exactly the defined projection.
// ---------------------------------------------------------------------------

// functions that turn parameter text into constraints.
var c07ParamFuncs = []string{
	"node.BuildConstraints", "node.findIntParam", "node.NewListRange", "node.NewFieldsMatcher", "node.NewExcludeFieldsMatcher",
	"node.NewContentConstraint", "node.NewWithDefaultsConstraint", "node.NewWhere", "node.NewFilterConstraint",
	"node.Selection.Constrain", "node.ParsePathExpression",
}

// constraint types that are base constraints or key on something other than
// navigation, with the reason they need no IsNavigation guard.
var c07NavExempt = map[string]string{
	"node.CheckWhen":        "base constraint: a false `when` hides the node from navigation as well",
	"node.fieldConstraints": "base constraint: acts only on values being written",
	"node.Where":            "applies only to entries of the request's base list (r.Base.Meta == r.Meta), which navigation requests never are",
	"node.xpathFilter":      "notification filter: there is no navigation on the notify path",
}

// registeredConstraints discovers the types handed to Constraints.AddConstraint
// anywhere in package node.
func registeredConstraints(ctx *core.Ctx, r *core.Report) map[*types.Named]types.Type {
	add := ctx.Method("node", "Constraints", "AddConstraint")
	out := map[*types.Named]types.Type{}
	if add == nil {
		r.Fatalf("anchor node.Constraints.AddConstraint not found")
		return out
	}
	for _, f := range ctx.RepoFuncs() {
		if core.FnPkgPath(f) != core.Full("node") {
			continue
		}
		for _, c := range callsStatic(f, add, true) {
			a := c.Common().Args
			v := a[len(a)-1]
			if mi, ok := v.(*ssa.MakeInterface); ok {
				if n := core.NamedOf(mi.X.Type()); n != nil {
					out[n] = mi.X.Type()
				}
			} else if ci, ok := v.(*ssa.ChangeInterface); ok {
				// a value that is already an interface (NotifyFilterConstraint): resolve its dynamic types
				_ = ci
			}
		}
	}
	// xpathFilter is registered through the NotifyFilterConstraint interface value
	if n := ctx.Named("node", "xpathFilter"); n != nil {
		out[n] = n
	}
	return out
}

func C07(ctx *core.Ctx, r *core.Report) {
	r.Explanation = "How parameter text becomes constraints, decided on all paths: every error of a parameter parser flows into the error BuildConstraints/Constrain/Find return and every parser can fail; every recognised key installs a constraint under its own id; a constraint that keeps state in its receiver has a pointer receiver and is registered by pointer; every parameter constraint lets navigation requests through first; no registered constraint type has a method that merely resembles a constraint interface method; no constraint check can reach an edit. The counting constraint (fc.max-node-count) counts in the container post-constraint, i.e. containers that exist and passed every filter, and has the highest priority number among the post-constraints. Not decided: that the projection is the defined one (depth counting, field-path matching, window bounds, intersections)."
	regs := registeredConstraints(ctx, r)
	r.Count("registered_constraint_types", len(regs))
	if len(regs) < 8 {
		r.Fatalf("only %d constraint types discovered at AddConstraint sites", len(regs))
	}

	// 1. parameter errors surface
	n := 0
	for _, spec := range c07ParamFuncs {
		f := ctx.Lookup(spec)
		if f == nil {
			r.Fatalf("parameter function %s not found", spec)
			continue
		}
		for _, c := range core.CallSites(f) {
			if _, isDefer := c.(*ssa.Defer); isDefer {
				continue
			}
			res := c.Common().Signature().Results()
			if res.Len() == 0 || !core.IsErrorType(res.At(res.Len()-1).Type()) {
				continue
			}
			if cal := core.StaticCallee(c); cal != nil && core.FnName(cal) == "fmt.Errorf" {
				continue
			}
			n++
			key := core.FnName(f) + "/" + core.CalleeName(c)
			ev := errResult(c)
			switch {
			case ev == nil || len(*ev.Referrers()) == 0:
				r.Ob("param-errors-surface", key, ctx.Pos(c.Pos()), false, "the error is dropped: an invalid parameter value is silently ignored and the unfiltered answer is returned")
			case !flowsToReturn(ev, 0, map[ssa.Value]bool{}) && !errReplaced(f, ev):
				r.Ob("param-errors-surface", key, ctx.Pos(c.Pos()), false, "the error is only compared with nil and never returned: an invalid parameter value is silently ignored")
			default:
				r.Ob("param-errors-surface", key, ctx.Pos(c.Pos()), true, "")
			}
		}
		// a parser whose error result is nil on every return cannot reject anything
		if res := f.Signature.Results(); res.Len() > 0 && core.IsErrorType(res.At(res.Len()-1).Type()) && f.Name() != "BuildConstraints" {
			canFail := false
			for _, ret := range core.Returns(f) {
				ops := core.RetOperands(ret)
				if !core.IsNilConst(ops[len(ops)-1]) {
					canFail = true
				}
			}
			r.Ob("parser-can-fail", core.FnName(f), ctx.Pos(f.Pos()), canFail, "every return of this parser has a nil error: no parameter text is ever rejected")
		}
	}
	r.Floor("param-errors-surface", n, 12)

	c07KeysInstall(ctx, r)
	c07Stateful(ctx, r, regs)
	c07NavigationExempt(ctx, r, regs)
	c07NearMiss(ctx, r, regs)
	c07NoWrites(ctx, r, regs)
	c07Accumulate(ctx, r)
	noValueTextEquality(ctx, r)
	c07DepthFromBase(ctx, r)
	postConstraintsAlwaysRun(ctx, r)
	c07TargetBeforeUse(ctx, r)
	c07EditBaseIsRequestBase(ctx, r)
	c07AlternativesFlushed(ctx, r)
	c07ConstraintsKeepNoTally(ctx, r)
	c07LeadingGroupKept(ctx, r)
	r.Count("instances:append-aliasing(found)", appendAliasing(ctx, r, scopeFuncs(ctx, "node")))
	r.Count("instances:ineffective-break(found)", ineffectiveBreak(ctx, r, "node"))
	c08NavigationBeforeState(ctx, r)
}

// errReplaced: the error is tested and, when non-nil, replaced by another
// non-nil error that is returned (NewListRange returns its own sentinel).
func errReplaced(f *ssa.Function, ev ssa.Value) bool {
	res := f.Signature.Results()
	if res.Len() == 0 || !core.IsErrorType(res.At(res.Len()-1).Type()) {
		return false
	}
	for _, ret := range core.Returns(f) {
		ops := core.RetOperands(ret)
		if core.IsNilConst(ops[len(ops)-1]) {
			continue
		}
		for _, pc := range core.PathConds(ret.Block()) {
			if dependsOn(pc.V, ev, 0) {
				return true
			}
		}
	}
	return false
}

// c07KeysInstall: each key looked up in the parameter map installs a
// constraint registered under that key.
func c07KeysInstall(ctx *core.Ctx, r *core.Report) {
	f := ctx.Fn("node", "BuildConstraints")
	add := ctx.Method("node", "Constraints", "AddConstraint")
	fip := ctx.Fn("node", "findIntParam")
	if f == nil || add == nil || fip == nil {
		r.Fatalf("anchors node.BuildConstraints / AddConstraint / findIntParam not found")
		return
	}
	installed := map[string][]ssa.CallInstruction{}
	for _, c := range callsStatic(f, add, false) {
		if id, ok := core.ConstString(c.Common().Args[1]); ok {
			installed[id] = append(installed[id], c)
		}
	}
	var keys []string
	keyPos := map[string]token.Pos{}
	keyVal := map[string]ssa.Value{}
	core.Instrs(f, func(_ *ssa.BasicBlock, in ssa.Instruction) {
		if lk, ok := in.(*ssa.Lookup); ok {
			if k, ok := core.ConstString(lk.Index); ok {
				keys = append(keys, k)
				keyPos[k] = lk.Pos()
				keyVal[k] = lk
			}
		}
		if c, ok := in.(*ssa.Call); ok && core.IsCallTo(c, fip) {
			if k, ok := core.ConstString(c.Common().Args[1]); ok {
				keys = append(keys, k)
				keyPos[k] = c.Pos()
				keyVal[k] = c
			}
		}
	})
	sort.Strings(keys)
	for _, k := range keys {
		ins := installed[k]
		ok := len(ins) == 1
		msg := ""
		if !ok {
			msg = fmt.Sprintf("parameter %q is looked up but %d constraints are registered under that id: the parameter has no effect (or a doubled one)", k, len(ins))
		} else {
			// the value handed to the constraint must derive from the looked-up parameter
			a := ins[0].Common().Args
			cons := a[len(a)-1]
			if !derivesFromParamValue(cons, keyVal[k], ins[0].Block()) {
				ok, msg = false, fmt.Sprintf("the constraint registered for %q is not built from that parameter's value", k)
			}
		}
		r.Ob("every-key-installs", "node.BuildConstraints/"+k, ctx.Pos(keyPos[k]), ok, msg)
	}
	r.Floor("every-key-installs", len(keys), 9)
}

// derivesFromParamValue: the registered constraint value depends on the
// parameter lookup (data flow through constructor calls and struct fields), or
// its installation is control dependent on it.
func derivesFromParamValue(cons ssa.Value, lookup ssa.Value, at *ssa.BasicBlock) bool {
	seen := map[ssa.Value]bool{}
	var dep func(v ssa.Value, d int) bool
	dep = func(v ssa.Value, d int) bool {
		if v == nil || d > 8 || seen[v] {
			return false
		}
		seen[v] = true
		if v == lookup {
			return true
		}
		switch x := v.(type) {
		case *ssa.MakeInterface:
			return dep(x.X, d+1)
		case *ssa.ChangeInterface:
			return dep(x.X, d+1)
		case *ssa.Extract:
			return dep(x.Tuple, d+1)
		case *ssa.Call:
			for _, a := range x.Common().Args {
				if dep(a, d+1) {
					return true
				}
			}
		case *ssa.UnOp:
			if al, ok := x.X.(*ssa.Alloc); ok {
				// a struct local: any store into it or its fields
				for _, r := range *al.Referrers() {
					switch y := r.(type) {
					case *ssa.Store:
						if dep(y.Val, d+1) {
							return true
						}
					case *ssa.FieldAddr:
						for _, r2 := range *y.Referrers() {
							if st, ok := r2.(*ssa.Store); ok && dep(st.Val, d+1) {
								return true
							}
						}
					}
				}
				return false
			}
			return dep(x.X, d+1)
		case *ssa.Alloc:
			for _, r := range *x.Referrers() {
				if fa, ok := r.(*ssa.FieldAddr); ok {
					for _, r2 := range *fa.Referrers() {
						if st, ok := r2.(*ssa.Store); ok && dep(st.Val, d+1) {
							return true
						}
					}
				}
			}
		case *ssa.Index:
			return dep(x.X, d+1)
		case *ssa.IndexAddr:
			return dep(x.X, d+1)
		case *ssa.Phi:
			for _, e := range x.Edges {
				if dep(e, d+1) {
					return true
				}
			}
		}
		return false
	}
	return dep(cons, 0)
}

// c07Stateful: a Check* method that stores to its receiver needs a pointer
// receiver, and the type must be registered by pointer.
func c07Stateful(ctx *core.Ctx, r *core.Report, regs map[*types.Named]types.Type) {
	n, nCount := 0, 0
	for named, regType := range regs {
		for i := 0; i < named.NumMethods(); i++ {
			m := named.Method(i)
			if !strings.HasPrefix(m.Name(), "Check") && m.Name() != "ContextConstraint" {
				continue
			}
			f := ctx.Prog.FuncValue(m)
			if f == nil || len(f.Blocks) == 0 {
				continue
			}
			n++
			recv := f.Params[0]
			_, ptrRecv := recv.Type().(*types.Pointer)
			writes := false
			core.Instrs(f, func(_ *ssa.BasicBlock, in ssa.Instruction) {
				st, ok := in.(*ssa.Store)
				if !ok {
					return
				}
				fa, ok := st.Addr.(*ssa.FieldAddr)
				if !ok {
					return
				}
				root, _ := addrRoot(fa.X)
				if root == ssa.Value(recv) {
					writes = true
				}
				// value receiver spilled to a local
				if al, ok := root.(*ssa.Alloc); ok {
					for _, rr := range *al.Referrers() {
						if s2, ok := rr.(*ssa.Store); ok && s2.Val == ssa.Value(recv) {
							writes = true
						}
					}
				}
			})
			key := "node." + named.Obj().Name() + "." + m.Name()
			if counts := incrementsReceiver(f, recv); counts {
				// a limit on what is returned counts what is returned: a
				// pre-constraint runs for every node the schema allows, before
				// the data node is asked whether it has one and before later filters
				r.Ob("counter-counts-selected", key, ctx.Pos(f.Pos()), !strings.Contains(m.Name(), "PreConstraints"),
					"the counting constraint counts in a pre-constraint: containers that do not exist in the data, and containers a later filter rejects, use up the limit")
				nCount++
			}
			if !writes {
				r.Ob("stateful-by-pointer", key, ctx.Pos(f.Pos()), true, "keeps no state")
				continue
			}
			_, regPtr := regType.(*types.Pointer)
			ok := ptrRecv && regPtr
			r.Ob("stateful-by-pointer", key, ctx.Pos(f.Pos()), ok,
				fmt.Sprintf("the check updates its receiver (pointer receiver: %v, registered by pointer: %v): with a value receiver or a by-value registration the update lands on a copy and the limit never takes effect", ptrRecv, regPtr))
		}
	}
	r.Floor("stateful-by-pointer", n, 12)
	r.Floor("counter-counts-selected", nCount, 1)
	c07CounterRunsLast(ctx, r)
}

// incrementsReceiver: the method stores field+const back into the same field of its receiver.
func incrementsReceiver(f *ssa.Function, recv *ssa.Parameter) bool {
	found := false
	core.Instrs(f, func(_ *ssa.BasicBlock, in ssa.Instruction) {
		st, ok := in.(*ssa.Store)
		if !ok {
			return
		}
		fa, ok := st.Addr.(*ssa.FieldAddr)
		if !ok || !core.IsParam(fa.X, recv) {
			return
		}
		b, ok := st.Val.(*ssa.BinOp)
		if !ok || b.Op != token.ADD {
			return
		}
		if _, isConst := b.Y.(*ssa.Const); !isConst {
			return
		}
		if u, ok := b.X.(*ssa.UnOp); ok {
			if fa2, ok := u.X.(*ssa.FieldAddr); ok && fa2.Field == fa.Field && core.IsParam(fa2.X, recv) {
				found = true
			}
		}
	})
	return found
}

// c07CounterRunsLast: among the constraints registered in package node that
// act after a container was selected (ContainerPostConstraint), the counting
// one has the highest priority number, i.e. runs after every filter.
func c07CounterRunsLast(ctx *core.Ctx, r *core.Report) {
	add := ctx.Method("node", "Constraints", "AddConstraint")
	post := ctx.Named("node", "ContainerPostConstraint")
	if add == nil || post == nil {
		r.Fatalf("anchors node.Constraints.AddConstraint / node.ContainerPostConstraint not found")
		return
	}
	iface := post.Underlying().(*types.Interface)
	type reg struct {
		name string
		prio int64
		pos  string
		cnt  bool
	}
	var regs []reg
	for _, f := range ctx.RepoFuncs() {
		if core.FnPkgPath(f) != core.Full("node") {
			continue
		}
		for _, c := range callsStatic(f, add, true) {
			a := c.Common().Args // recv, id, weight, priority, constraint
			mi, ok := a[len(a)-1].(*ssa.MakeInterface)
			if !ok || !types.Implements(mi.X.Type(), iface) {
				continue
			}
			prio, ok := core.ConstInt(a[3])
			if !ok {
				r.Ob("counter-runs-last", core.FnName(f)+"/"+core.TypeName(mi.X.Type()), ctx.Pos(c.Pos()), false, "priority is not a constant: the order of the post-constraints cannot be decided")
				continue
			}
			named := core.NamedOf(mi.X.Type())
			cnt := false
			if named != nil {
				for i := 0; i < named.NumMethods(); i++ {
					if m := named.Method(i); m.Name() == "CheckContainerPostConstraints" {
						if mf := ctx.Prog.FuncValue(m); mf != nil && len(mf.Params) > 0 && incrementsReceiver(mf, mf.Params[0]) {
							cnt = true
						}
					}
				}
			}
			regs = append(regs, reg{core.TypeName(mi.X.Type()), prio, ctx.Pos(c.Pos()), cnt})
		}
	}
	n := 0
	for _, c := range regs {
		if !c.cnt {
			continue
		}
		for _, o := range regs {
			if o.cnt {
				continue
			}
			n++
			r.Ob("counter-runs-last", c.name+" after "+o.name, c.pos, c.prio > o.prio,
				fmt.Sprintf("the counting constraint (priority %d) does not run after %s (priority %d, registered at %s): containers that constraint rejects are counted", c.prio, o.name, o.prio, o.pos))
		}
	}
	r.Floor("counter-runs-last", n, 1)
}

// c07NavigationExempt: parameter constraints let navigation through.
func c07NavigationExempt(ctx *core.Ctx, r *core.Report, regs map[*types.Named]types.Type) {
	isNavFns := map[*ssa.Function]bool{}
	for _, t := range []string{"ChildRequest", "ListRequest", "FieldRequest", "ActionRequest", "NotifyRequest", "Request"} {
		if f := ctx.Method("node", t, "IsNavigation"); f != nil {
			isNavFns[f] = true
		}
	}
	if len(isNavFns) < 3 {
		r.Fatalf("anchor node.{Child,List,Field}Request.IsNavigation not found")
		return
	}
	n := 0
	var names []*types.Named
	for named := range regs {
		names = append(names, named)
	}
	sort.Slice(names, func(i, j int) bool { return names[i].Obj().Name() < names[j].Obj().Name() })
	for _, named := range names {
		tname := "node." + named.Obj().Name()
		for i := 0; i < named.NumMethods(); i++ {
			m := named.Method(i)
			if !strings.HasPrefix(m.Name(), "Check") {
				continue
			}
			f := ctx.Prog.FuncValue(m)
			if f == nil || len(f.Blocks) == 0 {
				continue
			}
			n++
			key := tname + "." + m.Name()
			if reason, ok := c07NavExempt[tname]; ok {
				r.Ob("navigation-exempt", key, ctx.Pos(f.Pos()), true, "exempt: "+reason)
				continue
			}
			// a call of IsNavigation in the entry block whose true edge returns (true, nil)
			ok := false
			for _, c := range callsWhere(f, false, func(c ssa.CallInstruction) bool { return isNavFns[core.StaticCallee(c)] }) {
				if c.Block() != f.Blocks[0] {
					continue
				}
				for _, ret := range core.Returns(f) {
					ops := core.RetOperands(ret)
					first, isC := ops[0].(*ssa.Const)
					if !isC || first.Value == nil || first.Value.String() != "true" || !core.IsNilConst(ops[len(ops)-1]) {
						continue
					}
					// return reachable when IsNavigation() is true, without evaluating anything else of the request
					for _, pc := range core.PathConds(ret.Block()) {
						if dependsOn(pc.V, c.Value(), 0) {
							ok = true
						}
					}
					// short-circuit form `r.IsNavigation() || …`: the return block is a successor of the entry If
					if ifi, isIf := f.Blocks[0].Instrs[len(f.Blocks[0].Instrs)-1].(*ssa.If); isIf && dependsOn(ifi.Cond, c.Value(), 0) {
						if f.Blocks[0].Succs[0] == ret.Block() {
							ok = true
						}
					}
				}
			}
			r.Ob("navigation-exempt", key, ctx.Pos(f.Pos()), ok,
				"the check does not start with `if r.IsNavigation() { return true, nil }`: the filter is applied to the steps Find walks through, so navigation can fail or be cut short by a read filter")
		}
	}
	r.Floor("navigation-exempt", n, 12)
}

// c07NearMiss: a registered constraint type with a method named like a
// constraint-interface method but with another signature is silently inactive.
func c07NearMiss(ctx *core.Ctx, r *core.Report, regs map[*types.Named]types.Type) {
	// constraint interfaces: interfaces of package node with exactly one method named Check*/ContextConstraint
	ifaces := map[string]*types.Interface{}
	scope := ctx.TPkg("node").Scope()
	for _, nme := range scope.Names() {
		tn, ok := scope.Lookup(nme).(*types.TypeName)
		if !ok {
			continue
		}
		it, ok := tn.Type().Underlying().(*types.Interface)
		if !ok || it.NumMethods() != 1 {
			continue
		}
		m := it.Method(0)
		if strings.HasPrefix(m.Name(), "Check") {
			ifaces[m.Name()] = it
		}
	}
	r.Count("constraint_interfaces", len(ifaces))
	if len(ifaces) < 8 {
		r.Fatalf("only %d constraint interfaces discovered", len(ifaces))
	}
	n := 0
	for named := range regs {
		for i := 0; i < named.NumMethods(); i++ {
			m := named.Method(i)
			it, ok := ifaces[m.Name()]
			if !ok {
				continue
			}
			n++
			impl := types.Implements(named, it) || types.Implements(types.NewPointer(named), it)
			if reason, ok := c07NearMissExempt["node."+named.Obj().Name()+"."+m.Name()]; ok && !impl {
				r.Ob("no-near-miss", "node."+named.Obj().Name()+"."+m.Name(), ctx.Pos(m.Pos()), true, "exempt: "+reason)
				continue
			}
			r.Ob("no-near-miss", "node."+named.Obj().Name()+"."+m.Name(), ctx.Pos(m.Pos()), impl,
				fmt.Sprintf("method %s has the name of a constraint interface method but not its signature (%s): the type does not implement the interface and this check is never called", m.Name(), types.TypeString(it.Method(0).Type(), nil)))
		}
	}
	r.Floor("no-near-miss", n, 12)
}

// c07NoWrites: no constraint check can reach an edit.
func c07NoWrites(ctx *core.Ctx, r *core.Report, regs map[*types.Named]types.Type) {
	var roots []*ssa.Function
	for named := range regs {
		for i := 0; i < named.NumMethods(); i++ {
			if strings.HasPrefix(named.Method(i).Name(), "Check") {
				if f := ctx.Prog.FuncValue(named.Method(i)); f != nil {
					roots = append(roots, f)
					roots = append(roots, withClosures(f)[1:]...)
				}
			}
		}
	}
	// val.Reduce/ForEach call a Reducer closure; VTA resolves that call to every
	// closure of that type in the program, so the walk stops there (the closures the
	// checks themselves pass are nested functions of the checks and are walked as such)
	reach := ctx.Reachable(ctx.CG(), roots, func(f *ssa.Function) bool {
		n := core.FnName(f)
		return n == "val.Reduce" || n == "val.ForEach"
	})
	for _, bad := range []string{"node.Selection.set", "node.editor.edit", "node.Selection.Delete", "node.Selection.ClearField"} {
		f := ctx.Lookup(bad)
		if f == nil {
			r.Fatalf("anchor %s not found", bad)
			continue
		}
		ok := !reach.Set[f]
		msg := ""
		if !ok {
			msg = "an edit is reachable from a constraint check: " + reach.PathTo(f)
		}
		r.Ob("filters-do-not-write", bad, ctx.Pos(f.Pos()), ok, msg)
	}
	r.Count("functions_reachable_from_checks", len(reach.Set))
}

// methods that do not implement the interface they are named after, where the
// behaviour the property asks for is provided elsewhere.
var c07NearMissExempt = map[string]string{
	"node.CheckWhen.CheckListPostConstraints": "returns (bool, error) instead of (bool, bool, error) and is therefore never called; a list's `when` is nevertheless enforced, by CheckWhen.CheckContainerPostConstraints when the list node itself is selected (Selection.selekt), so no read or write observes the difference",
}

// c07Accumulate: registering a constraint never removes or replaces one that
// is already registered. Parameters given in several rounds (Find with a query,
// then Constrain; the defaults BuildConstraints always adds) must intersect, so
// the registry only grows: every return of AddConstraint has appended the new
// entry to the receiver's own entries, nothing stores into an element of an
// existing entries slice, and a child set starts from all of its parent's entries.
func c07Accumulate(ctx *core.Ctx, r *core.Report) {
	add := ctx.Method("node", "Constraints", "AddConstraint")
	nc := ctx.Fn("node", "NewConstraints")
	cons := ctx.Named("node", "Constraints")
	if add == nil || nc == nil || cons == nil {
		r.Fatalf("anchors node.Constraints.AddConstraint / NewConstraints not found")
		return
	}
	isEntries := func(v ssa.Value) bool {
		fa, ok := v.(*ssa.FieldAddr)
		if !ok {
			return false
		}
		st, ok := core.Deref(fa.X.Type()).Underlying().(*types.Struct)
		return ok && core.NamedOf(fa.X.Type()) == cons && st.Field(fa.Field).Name() == "entries"
	}
	loadOfEntries := func(v ssa.Value) bool {
		u, ok := core.Strip(v).(*ssa.UnOp)
		return ok && u.Op == token.MUL && isEntries(u.X)
	}
	// (a) AddConstraint: an appending store dominates every return
	var appends []ssa.Instruction
	core.Instrs(add, func(_ *ssa.BasicBlock, in ssa.Instruction) {
		st, ok := in.(*ssa.Store)
		if !ok || !isEntries(st.Addr) {
			return
		}
		if c, ok := core.Strip(st.Val).(*ssa.Call); ok {
			if b, ok := c.Common().Value.(*ssa.Builtin); ok && b.Name() == "append" && loadOfEntries(c.Common().Args[0]) {
				appends = append(appends, st)
			}
		}
	})
	for i, ret := range core.Returns(add) {
		ok := false
		for _, a := range appends {
			if instrDominates(a, ret) {
				ok = true
			}
		}
		r.Ob("constraints-accumulate", fmt.Sprintf("node.Constraints.AddConstraint/return#%d", i+1), ctx.Pos(ret.Pos()), ok,
			"AddConstraint can return without having appended the new entry to the entries it already holds: a registration is lost or takes the place of an earlier one, so parameters given in two rounds (Find's query, then Constrain; the defaults BuildConstraints always adds) no longer intersect")
	}
	if len(core.Returns(add)) == 0 {
		r.Fatalf("node.Constraints.AddConstraint has no return")
	}
	// (b) nobody overwrites an element of an existing entries slice
	n := 0
	for _, f := range ctx.RepoFuncs() {
		if core.FnPkgPath(f) != core.Full("node") {
			continue
		}
		core.Instrs(f, func(_ *ssa.BasicBlock, in ssa.Instruction) {
			st, ok := in.(*ssa.Store)
			if !ok {
				return
			}
			ia, ok := st.Addr.(*ssa.IndexAddr)
			if !ok || !loadOfEntries(ia.X) {
				return
			}
			n++
			// filling a slice this function has just made for a new Constraints is the copy of NewConstraints
			fresh := false
			if u, ok := core.Strip(ia.X).(*ssa.UnOp); ok {
				if fa, ok := u.X.(*ssa.FieldAddr); ok {
					if _, isAlloc := core.Strip(fa.X).(*ssa.Alloc); isAlloc && f == nc {
						fresh = true
					}
				}
			}
			r.Ob("constraints-accumulate", core.FnName(f)+"/element-store", ctx.Pos(st.Pos()), fresh,
				"an element of an existing set of registered constraints is overwritten: the constraint that was registered there is silently dropped")
		})
	}
	r.Count("instances:constraints-accumulate(element stores examined)", n)
	// (c) NewConstraints copies from parent.entries (not from the lazily built, possibly nil, compiled cache)
	okCopy := false
	core.Instrs(nc, func(_ *ssa.BasicBlock, in ssa.Instruction) {
		if rg, ok := in.(*ssa.Range); ok && loadOfEntries(rg.X) {
			okCopy = true
		}
		if c, ok := in.(*ssa.Call); ok {
			if b, ok := c.Common().Value.(*ssa.Builtin); ok && (b.Name() == "copy" || b.Name() == "append") {
				for _, a := range c.Common().Args[1:] {
					if loadOfEntries(a) {
						okCopy = true
					}
				}
			}
		}
		// for i, e := range parent.entries compiles to len + index loads
		if ia, ok := in.(*ssa.IndexAddr); ok && loadOfEntries(ia.X) {
			if p, isParam := core.Strip(ia.X).(*ssa.UnOp).X.(*ssa.FieldAddr).X.(*ssa.Parameter); isParam && p == nc.Params[0] {
				okCopy = true
			}
		}
	})
	// and not from another field of the parent
	core.Instrs(nc, func(_ *ssa.BasicBlock, in ssa.Instruction) {
		fa, ok := in.(*ssa.FieldAddr)
		if !ok || core.NamedOf(fa.X.Type()) != cons {
			return
		}
		if p, isParam := fa.X.(*ssa.Parameter); isParam && p == nc.Params[0] {
			st := core.Deref(fa.X.Type()).Underlying().(*types.Struct)
			if st.Field(fa.Field).Name() != "entries" {
				okCopy = false
			}
		}
	})
	r.Ob("constraints-accumulate", "node.NewConstraints/copies-parent-entries", ctx.Pos(nc.Pos()), okCopy,
		"the constraint set made for a child selection is not filled from the parent's registered entries (the compiled field is a lazily built cache and is nil until the first request): constraints registered on the parent — the type check of written values among them — are not inherited")
}
