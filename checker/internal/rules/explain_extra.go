package rules

// ExplainExtra: what was added to each property's rule set after the seeded-change
// campaign (kept in step with tools/gen_manifest.py EXTRA); appended to the explanation in evidence.
var ExplainExtra = map[string]string{
	"C01": "Also decided: an expansion inserts copies, never the statement's own nodes; every shorthand node augmented into a choice gets its own case; every collection a submodule can fill is carried over and no element of it can be skipped; a lookup cache of the resolver is keyed by everything the lookup reads from its argument (lexical scope included); a refine disabled by if-feature does not end the refine loop.",
	"C02": "Also decided: the typedef's units/default are installed only on the side of the test where the leaf itself states none; a typedef lookup cache is keyed by the scope it walks, not by module and name.",
	"C04": "Also decided: the member iterator cannot end early because a choice has no case selected; value text reaches the JSON output only through the escaping loop (see C15).",
	"C05": "Also decided: every representation of a bound the comparison reads is filled by the parser, a whole-number bound is never parsed as float64 first, and the type check of written values — a registered constraint — survives later registrations and is inherited by child constraint sets.",
	"C06": "Also decided: a statement is added to a slice-held collection at its end only (no element store, no shifting copy), and a backslash escapes only inside double-quoted strings.",
	"C07": "Also decided: registering a constraint never replaces or drops a registered one (parameters given in two rounds intersect) and a child set copies its parent's entries; typed values are never compared through their text; the depth of a request is counted from the node whose schema identity equals the request base.",
	"C08": "Also decided: the navigation mark is set on every step, the last one included.",
	"C09": "Also decided: shorthand nodes augmented into a choice get one case each; a node that remembers which case is active forgets it when written and does not share the table between copies of itself.",
	"C11": "Also decided: initialising an imported module cannot discard the features of the modules initialised before; each must/unique named by one deviate delete is removed; `and`/`not` take one operand, `or`/`(` the rest, and a call asked for one operand returns after any token completed one (precedence not > and > or). The truth tables of the combinations and the tokeniser remain undecided.",
	"C14": "Also decided: no element of a submodule's collections can be skipped while it is merged.",
	"C15": "Also decided: no shortcut in front of the escaper lets a byte through that the tables say must be escaped; the tables themselves mark control characters, quote and backslash unsafe; a member is qualified by comparing its module with that of the enclosing DATA node (p.Parent.Meta), not the schema parent.",
	"C16": "Also decided: where recognises its list by schema-node identity, not by name; a when verdict is not remembered without invalidation; every Compare the comparisons rest on derives its sign from an exact comparison.",
	"C17": "Also decided: the sort order of the key index is decided by val.CompareVals on every path, and key leaves are never matched through their String().",
	"C18": "Also decided: a slice-backed list grows only by appending a created item (never by re-slicing into stale capacity), and the editor looks an entry up by key before creating one.",
	"C19": "Also decided: XMLWtr2.ns is OriginalModule(d).Namespace() of the definition the element is named after, wherever an element is built.",
	"C20": "Also decided: no package-level variable of the library holds an object with self-mutating methods (a shared feature set, builder or cache), one exemption with its reason.",
}
