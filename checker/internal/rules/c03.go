package rules

import (
	"fmt"
	"go/token"
	"go/types"
	"sort"
	"strings"

	"golang.org/x/tools/go/ssa"

	"verif/checker/internal/core"
)

// ---------------------------------------------------------------------------
// C03 — upsert / insert / update are keyed deep merges with defined failures.
// Structural clauses on editor.node, editor.list, editor.leaf and the entry
// points of Selection.
// ---------------------------------------------------------------------------

func paramNamed(f *ssa.Function, name string) *ssa.Parameter {
	for _, p := range f.Params {
		if p.Name() == name {
			return p
		}
	}
	return nil
}

// strategyConsts: the declared constants of type node.editStrategy.
func strategyConsts(ctx *core.Ctx, r *core.Report) map[int64]string {
	out := map[int64]string{}
	t := ctx.Named("node", "editStrategy")
	if t == nil {
		r.Fatalf("anchor node.editStrategy not found")
		return out
	}
	scope := ctx.TPkg("node").Scope()
	for _, n := range scope.Names() {
		if c, ok := scope.Lookup(n).(*types.Const); ok && types.Identical(c.Type(), t) {
			if v, ok := constIntOf(ctx, "node", n); ok {
				out[v] = n
			}
		}
	}
	return out
}

// strategyConds: the constants the strategy parameter is compared with in f.
func strategyCompares(f *ssa.Function, strat *ssa.Parameter) map[int64]*ssa.BinOp {
	out := map[int64]*ssa.BinOp{}
	core.Instrs(f, func(_ *ssa.BasicBlock, in ssa.Instruction) {
		bo, ok := in.(*ssa.BinOp)
		if !ok || (bo.Op != token.EQL && bo.Op != token.NEQ) {
			return
		}
		if core.IsParam(bo.X, strat) {
			if c, ok := core.ConstInt(bo.Y); ok {
				out[c] = bo
			}
		} else if core.IsParam(bo.Y, strat) {
			if c, ok := core.ConstInt(bo.X); ok {
				out[c] = bo
			}
		}
	})
	return out
}

// inCase: is block b inside the branch where `strategy == c` holds?
func inStrategyCase(b *ssa.BasicBlock, strat *ssa.Parameter, c int64) bool {
	for _, pc := range core.PathConds(b) {
		bo, ok := pc.V.(*ssa.BinOp)
		if !ok {
			continue
		}
		var k int64
		var okc bool
		if core.IsParam(bo.X, strat) {
			k, okc = core.ConstInt(bo.Y)
		} else if core.IsParam(bo.Y, strat) {
			k, okc = core.ConstInt(bo.X)
		}
		if !okc || k != c {
			continue
		}
		if (bo.Op == token.EQL && pc.True) || (bo.Op == token.NEQ && !pc.True) {
			return true
		}
	}
	return false
}

// nilTest: the branch conditions on block b that compare a value derived from
// one of the lookup calls with nil; returns "nil", "nonnil" or "".
// innermostIsPresence: the branch condition nearest to b is the nil-test of a lookup result.
func innermostIsPresence(b *ssa.BasicBlock, lookups []ssa.CallInstruction) bool {
	pcs := core.PathConds(b)
	if len(pcs) == 0 {
		return false
	}
	bo, ok := pcs[0].V.(*ssa.BinOp)
	if !ok || (bo.Op != token.EQL && bo.Op != token.NEQ) {
		return false
	}
	var v ssa.Value
	if core.IsNilConst(bo.Y) {
		v = bo.X
	} else if core.IsNilConst(bo.X) {
		v = bo.Y
	} else {
		return false
	}
	for _, l := range lookups {
		if lv := l.Value(); lv != nil && dependsOn(v, lv, 0) {
			return true
		}
	}
	return false
}

func lookupPresence(b *ssa.BasicBlock, lookups []ssa.CallInstruction) string {
	for _, pc := range core.PathConds(b) {
		bo, ok := pc.V.(*ssa.BinOp)
		if !ok || (bo.Op != token.EQL && bo.Op != token.NEQ) {
			continue
		}
		var v ssa.Value
		if core.IsNilConst(bo.Y) {
			v = bo.X
		} else if core.IsNilConst(bo.X) {
			v = bo.Y
		} else {
			continue
		}
		derived := false
		for _, l := range lookups {
			if lv := l.Value(); lv != nil && dependsOn(v, lv, 0) {
				derived = true
			}
		}
		if !derived {
			continue
		}
		isNil := (bo.Op == token.EQL) == pc.True
		if isNil {
			return "nil"
		}
		return "nonnil"
	}
	return ""
}

func C03(ctx *core.Ctx, r *core.Report) {
	c03Shared(ctx, r)
	c18ExistingEntryIsNotEmpty(ctx, r)
	borrowFrom(ctx, r, "C09", C09, "clearing-covers-kinds", "clearing-visits-every-member")
	{
		sub := core.NewReport("C04", r.Tier, r.Root, r.Seed)
		definitionModuleOriginal(ctx, sub, scopeFuncs(ctx, "nodeutil", "json_rdr.go", "json_wtr.go"), 4)
		r.Borrow(sub, "definition-module-original")
	}
	r.Explanation = "Shape of the merge algorithm in node/edit.go, decided on all paths: the strategy dispatch of editor.node and editor.list is total over the declared strategies with a not-implemented default; the conflict error is raised exactly on the insert branch when the lookup found something and the not-found error exactly on the update branch when it found nothing (error identities resolved through fc's variables and %w); the lookup (New=false) precedes every create (New=true); the strategy is handed unchanged to every recursive enter; defaults are materialised from `new`, the strategy and the editor's flag; each API entry point passes its own strategy and orientation. The `new` flag handed to the recursive enter is decided per item (not loop-carried); the reflection list nodes drop their cached index on every path from a container change to a return; the linear key search of slice-backed lists answers found only on the equal side of every key leaf comparison. Not decided: the merge result for any pair of trees, behaviour of node implementations."
	consts := strategyConsts(ctx, r)
	conflict := globalVar(ctx, "fc", "ConflictError")
	notFound := globalVar(ctx, "fc", "NotFoundError")
	notImpl := globalVar(ctx, "node", "strategyNotImplemented")
	if conflict == nil || notFound == nil || notImpl == nil {
		r.Fatalf("anchors fc.ConflictError / fc.NotFoundError / node.strategyNotImplemented not found")
		return
	}
	var insertC, updateC, upsertC int64 = -1, -1, -1
	for v, n := range consts {
		switch n {
		case "editInsert":
			insertC = v
		case "editUpdate":
			updateC = v
		case "editUpsert":
			upsertC = v
		}
	}
	if insertC < 0 || updateC < 0 || upsertC < 0 {
		r.Fatalf("strategy constants editInsert/editUpdate/editUpsert not found")
		return
	}
	enter := ctx.Method("node", "editor", "enter")
	selekt := ctx.Method("node", "Selection", "selekt")
	selItem := ctx.Method("node", "Selection", "selectListItem")
	if enter == nil || selekt == nil || selItem == nil {
		r.Fatalf("anchors editor.enter / Selection.selekt / Selection.selectListItem not found")
		return
	}

	for _, spec := range []struct {
		fn     string
		lookup *ssa.Function
	}{{"node.editor.node", selekt}, {"node.editor.list", selItem}} {
		f := ctx.Lookup(spec.fn)
		if f == nil {
			r.Fatalf("anchor %s not found", spec.fn)
			continue
		}
		strat := paramNamed(f, "strategy")
		to := paramNamed(f, "to")
		if strat == nil || to == nil {
			r.Fatalf("%s: parameters strategy/to not found", spec.fn)
			continue
		}
		// 1. dispatch total
		cmp := strategyCompares(f, strat)
		var missing []string
		for v, n := range consts {
			if _, ok := cmp[v]; !ok {
				missing = append(missing, n)
			}
		}
		sort.Strings(missing)
		r.Ob("strategy-dispatch", spec.fn+"/cases", ctx.Pos(f.Pos()), len(missing) == 0, "no case for "+strings.Join(missing, ", ")+": that strategy falls to the default")
		defaultOK := false
		for _, ret := range core.Returns(f) {
			ops := core.RetOperands(ret)
			v := core.Strip(ops[len(ops)-1])
			if u, ok := v.(*ssa.UnOp); ok && u.X == ssa.Value(notImpl) {
				// the default branch: none of the cases holds here
				all := true
				for c := range consts {
					if inStrategyCase(ret.Block(), strat, c) {
						all = false
					}
				}
				defaultOK = all
			}
		}
		r.Ob("strategy-dispatch", spec.fn+"/default", ctx.Pos(f.Pos()), defaultOK, "the dispatch has no default that returns strategyNotImplemented: an unknown strategy would be treated as a no-op")

		// lookups: calls of selekt/selectListItem on `to`
		var lookups []ssa.CallInstruction
		for _, c := range callsStatic(f, spec.lookup, false) {
			if len(c.Common().Args) > 0 && core.IsParam(c.Common().Args[0], to) {
				lookups = append(lookups, c)
			}
		}
		sort.Slice(lookups, func(i, j int) bool { return instrDominates(lookups[i], lookups[j]) })
		if len(lookups) < 2 {
			r.Fatalf("%s: expected a lookup and create calls of %s on the target, found %d", spec.fn, core.FnName(spec.lookup), len(lookups))
			continue
		}
		first := lookups[0]

		// 2. failure identity and polarity
		nConf, nNF := 0, 0
		for _, ef := range errorfCalls(f) {
			b := ef.Call.Block()
			if ef.wraps(conflict) {
				nConf++
				ok := inStrategyCase(b, strat, insertC) && lookupPresence(b, lookups[:1]) == "nonnil"
				// … and whenever it found one: no further condition between the test of the
				// lookup's result and the error (an exemption for some node kind would let an
				// insert onto an existing node of that kind through)
				if ok && !innermostIsPresence(b, lookups[:1]) {
					r.Ob("failure-identity", spec.fn+"/conflict-unconditional", ctx.Pos(ef.Call.Pos()), false,
						"in the insert case the conflict error is raised only under a further condition after the lookup found an existing node: for the nodes that condition excludes (lists, say) insert merges into what exists instead of failing")
				} else if ok {
					r.Ob("failure-identity", spec.fn+"/conflict-unconditional", ctx.Pos(ef.Call.Pos()), true, "")
				}
				r.Ob("failure-identity", spec.fn+"/conflict", ctx.Pos(ef.Call.Pos()), ok,
					"the conflict error must be raised in the insert case exactly when the lookup found an existing node")
			}
			if ef.wraps(notFound) {
				nNF++
				ok := inStrategyCase(b, strat, updateC) && lookupPresence(b, lookups[:1]) == "nil"
				r.Ob("failure-identity", spec.fn+"/not-found", ctx.Pos(ef.Call.Pos()), ok,
					"the not-found error must be raised in the update case exactly when the lookup found nothing")
			}
		}
		r.Ob("failure-identity", spec.fn+"/conflict-raised", ctx.Pos(f.Pos()), nConf == 1, fmt.Sprintf("%d error(s) wrap fc.ConflictError, expected exactly one (insert onto an existing node)", nConf))
		r.Ob("failure-identity", spec.fn+"/not-found-raised", ctx.Pos(f.Pos()), nNF == 1, fmt.Sprintf("%d error(s) wrap fc.NotFoundError, expected exactly one (update of a missing node)", nNF))

		// 3. lookup precedes create: the store New=true to the request is dominated
		// by the first call; every other call is dominated by that store
		var newTrue, newFalse []*ssa.Store
		core.Instrs(f, func(_ *ssa.BasicBlock, in ssa.Instruction) {
			st, ok := in.(*ssa.Store)
			if !ok {
				return
			}
			fa, ok := st.Addr.(*ssa.FieldAddr)
			if !ok {
				return
			}
			stt, ok := core.Deref(fa.X.Type()).Underlying().(*types.Struct)
			if !ok || stt.Field(fa.Field).Name() != "New" {
				return
			}
			if c, ok := st.Val.(*ssa.Const); ok && c.Value != nil {
				if c.Value.String() == "true" {
					newTrue = append(newTrue, st)
				} else {
					newFalse = append(newFalse, st)
				}
			}
		})
		okOrder := len(newTrue) == 1 && len(newFalse) >= 1
		why := ""
		if okOrder {
			// New=false is in force at the lookup
			preceded := false
			for _, nf := range newFalse {
				if instrDominates(nf, first) || nf.Block() == first.Block() {
					preceded = true
				}
			}
			if !preceded || instrDominates(newTrue[0], first) {
				okOrder, why = false, "the first call on the target is not a lookup (New=false)"
			}
			for _, c := range lookups[1:] {
				if !instrDominates(newTrue[0], c) {
					okOrder, why = false, "a later call on the target is not dominated by New=true: it would repeat the lookup instead of creating"
				}
				if !instrDominates(first, c) && !skippedOnlyForEmptyKey(first, c) {
					okOrder, why = false, "a create call is not dominated by the lookup (the lookup may be skipped only when the entry has no key)"
				}
			}
		} else {
			why = fmt.Sprintf("expected one New=true and at least one New=false store on the target request, found %d/%d", len(newTrue), len(newFalse))
		}
		r.Ob("lookup-precedes-create", spec.fn, ctx.Pos(first.Pos()), okOrder, why)
		// creates happen only in the insert/upsert cases, and in upsert only when the lookup found nothing
		for i, c := range lookups[1:] {
			b := c.Block()
			ok := inStrategyCase(b, strat, insertC) || (inStrategyCase(b, strat, upsertC) && lookupPresence(b, lookups[:1]) == "nil")
			r.Ob("create-only-when-allowed", fmt.Sprintf("%s/create%d", spec.fn, i+1), ctx.Pos(c.Pos()), ok,
				"a create (New=true) is issued outside the insert case and outside the upsert-and-absent case")
		}

		// 4. strategy propagated unchanged
		for _, c := range callsStatic(f, enter, false) {
			a := c.Common().Args
			ok := len(a) == 7 && core.IsParam(a[4], strat)
			r.Ob("strategy-propagated", spec.fn+"→editor.enter", ctx.Pos(c.Pos()), ok,
				"the recursive enter is not given the caller's own strategy: insert/update semantics stop applying below this level")
			// the `new` flag is decided per row (or per child): never a
			// value carried around the loop from the previous row
			if len(a) == 7 {
				if ph := loopCarried(a[3], map[ssa.Value]bool{}); ph != nil {
					r.Ob("new-flag-per-item", spec.fn+"→editor.enter", ctx.Pos(c.Pos()), false,
						"the `new` flag handed to enter is carried from the previous iteration ("+ctx.Pos(ph.Pos())+"): once one row was created every later existing row is entered as new, so defaults overwrite and create-triggers fire on it")
				} else {
					r.Ob("new-flag-per-item", spec.fn+"→editor.enter", ctx.Pos(c.Pos()), true, "")
				}
			}
		}
	}

	// enter → leaf/node/list with its own strategy and new
	if f := enter; f != nil {
		strat := paramNamed(f, "strategy")
		nw := paramNamed(f, "new")
		n := 0
		for _, name := range []string{"leaf", "node", "list"} {
			callee := ctx.Method("node", "editor", name)
			for _, c := range callsStatic(f, callee, false) {
				n++
				a := c.Common().Args
				ok := len(a) >= 6 && core.IsParam(a[len(a)-1], strat) && core.IsParam(a[len(a)-2], nw)
				r.Ob("strategy-propagated", "node.editor.enter→editor."+name, ctx.Pos(c.Pos()), ok, "enter must pass its own `new` and `strategy` on")
			}
		}
		r.Floor("strategy-propagated(enter's dispatch)", n, 4)
	}

	// 5. defaults on create
	if leaf := ctx.Method("node", "editor", "leaf"); leaf != nil {
		get := ctx.Method("node", "Selection", "get")
		strat := paramNamed(leaf, "strategy")
		nw := paramNamed(leaf, "new")
		ok := false
		msg := "Selection.get is not called from editor.leaf"
		for _, c := range callsStatic(leaf, get, false) {
			a := c.Common().Args
			ud := a[len(a)-1]
			depNew := dependsOnParam(ud, nw, 0)
			depStrat := dependsOnParam(ud, strat, 0)
			ok = depNew && depStrat
			msg = fmt.Sprintf("useDefault must derive from `new` (%v) and the strategy (%v): defaults are materialised exactly for newly created nodes outside update", depNew, depStrat)
		}
		r.Ob("defaults-on-create", "node.editor.leaf/useDefault", ctx.Pos(leaf.Pos()), ok, msg)
	} else {
		r.Fatalf("anchor editor.leaf not found")
	}

	// 6. entry points
	edit := ctx.Method("node", "editor", "edit")
	split := ctx.Method("node", "Selection", "Split")
	n := 0
	for _, m := range exportedMethods(ctx, "node", "Selection") {
		name := m.Name()
		var want int64 = -1
		switch {
		case strings.HasPrefix(name, "Insert"):
			want = insertC
		case strings.HasPrefix(name, "Upsert"):
			want = upsertC
		case strings.HasPrefix(name, "Update"):
			want = updateC
		default:
			continue
		}
		for _, c := range callsStatic(m, edit, false) {
			n++
			a := c.Common().Args // recv, from, to, strategy
			got, okc := core.ConstInt(a[3])
			okStrat := okc && got == want
			// orientation
			recv := m.Params[0]
			isSplit := func(v ssa.Value) bool {
				cc, ok := v.(*ssa.Call)
				return ok && core.IsCallTo(cc, split)
			}
			okDir := false
			if strings.Contains(name, "From") {
				okDir = isSplit(a[1]) && a[2] == ssa.Value(recv)
			} else if strings.Contains(name, "Into") {
				okDir = a[1] == ssa.Value(recv) && isSplit(a[2])
			}
			r.Ob("entry-points", "node.Selection."+name, ctx.Pos(c.Pos()), okStrat && okDir,
				fmt.Sprintf("%s must call editor.edit with strategy %s and the selection on the %s side", name, consts[want], map[bool]string{true: "target", false: "source"}[strings.Contains(name, "From")]))
		}
	}
	r.Floor("entry-points", n, 8)
	// "list entries are matched by key": shared with C17/C18
	c17KeyMatchConjunction(ctx, r)
	c18CacheDroppedOnMutation(ctx, r)
}

// dependsOnParam is dependsOn for a parameter that may be spilled.
func dependsOnParam(v ssa.Value, p *ssa.Parameter, depth int) bool {
	if p == nil {
		return false
	}
	if core.IsParam(v, p) {
		return true
	}
	if depth > 6 {
		return false
	}
	switch x := v.(type) {
	case *ssa.BinOp:
		return dependsOnParam(x.X, p, depth+1) || dependsOnParam(x.Y, p, depth+1)
	case *ssa.UnOp:
		return dependsOnParam(x.X, p, depth+1)
	case *ssa.Phi:
		// short-circuit operators: the phi's value depends on the conditions that
		// select its edges as well as on the edges
		for _, e := range x.Edges {
			if dependsOnParam(e, p, depth+1) {
				return true
			}
		}
		for _, pred := range x.Block().Preds {
			if ifi, ok := pred.Instrs[len(pred.Instrs)-1].(*ssa.If); ok {
				if dependsOnParam(ifi.Cond, p, depth+1) {
					return true
				}
			}
			for _, pc := range core.PathConds(pred) {
				if dependsOnParam(pc.V, p, depth+1) {
					return true
				}
			}
		}
	}
	return false
}

// skippedOnlyForEmptyKey: the lookup sits in the true branch of a
// `len(key) > 0` test whose If dominates the create call.
func skippedOnlyForEmptyKey(lookup, create ssa.CallInstruction) bool {
	conds := core.PathConds(lookup.Block())
	if len(conds) == 0 {
		return false
	}
	inner := conds[0]
	bo, ok := inner.V.(*ssa.BinOp)
	if !ok || !inner.True || bo.Op != token.GTR {
		return false
	}
	c, ok := bo.X.(*ssa.Call)
	if !ok {
		return false
	}
	if bi, ok := c.Common().Value.(*ssa.Builtin); !ok || bi.Name() != "len" {
		return false
	}
	if z, ok := core.ConstInt(bo.Y); !ok || z != 0 {
		return false
	}
	return inner.If.Block().Dominates(create.Block())
}

// loopCarried: the value is (or is chosen from) a phi at a loop header one of
// whose incoming values is computed inside the loop: state carried from one
// iteration to the next. Returns that phi.
func loopCarried(v ssa.Value, seen map[ssa.Value]bool) *ssa.Phi {
	if seen[v] {
		return nil
	}
	seen[v] = true
	ph, ok := v.(*ssa.Phi)
	if !ok {
		return nil
	}
	b := ph.Block()
	for i, p := range b.Preds {
		if b.Dominates(p) { // back edge
			if _, isConst := ph.Edges[i].(*ssa.Const); !isConst {
				return ph
			}
		}
	}
	for _, e := range ph.Edges {
		if r := loopCarried(e, seen); r != nil {
			return r
		}
	}
	return nil
}

// c03Shared: clauses of the merge that other properties' rule sets decide on the same code —
// the XML reader as edit source hands out every entry of a list (C19), and schema defaults
// are materialised for every leaf kind that can have one (C04).
func c03Shared(ctx *core.Ctx, r *core.Report) {
	sub := core.NewReport("C19", r.Tier, r.Root, r.Seed)
	C19(ctx, sub)
	r.Borrow(sub, "list-entries-by-match", "list-interleaving")
	sub4 := core.NewReport("C04", r.Tier, r.Root, r.Seed)
	c04DefaultSites(ctx, sub4)
	r.Borrow(sub4, "default-after-hasdefault")
}
