package rules

import (
	"go/ast"
	"go/token"
	"go/types"
	"strconv"

	"golang.org/x/tools/go/ssa"

	"verif/checker/internal/core"
)

// K4b: parallel indexing. Inside `for i := range X` the index i is in range
// for X only; Y[i] for another slice Y needs its own reason: Y was made with
// len(X), a test of len(Y) precedes the loop or the access, or the loop bound
// itself is min(len(X), len(Y)).
func parallelIndex(ctx *core.Ctx, r *core.Report, reach *core.Reach, exclude func(*ssa.Function) bool, triage map[string]string, floor int) {
	n := 0
	seen := map[string]int{}
	for _, f := range ctx.RepoFuncs() {
		if reach != nil && !reach.Set[f] {
			continue
		}
		if exclude != nil && exclude(f) {
			continue
		}
		if f.Parent() != nil {
			continue // closures are walked with their enclosing declaration
		}
		fd, ok := f.Syntax().(*ast.FuncDecl)
		if !ok || fd.Body == nil {
			continue
		}
		pkg, _ := ctx.FileOf(fd.Pos())
		if pkg == nil {
			continue
		}
		info := pkg.TypesInfo
		text := func(e ast.Expr) string { return types.ExprString(e) }
		// every condition / make in the function, by text
		var lenTests []string // expressions whose len() appears in some condition
		madeLike := map[string]string{}
		lenVars := map[string]string{}
		ast.Inspect(fd.Body, func(nn ast.Node) bool {
			var conds []ast.Expr
			switch x := nn.(type) {
			case *ast.IfStmt:
				conds = append(conds, x.Cond)
			case *ast.ForStmt:
				if x.Cond != nil {
					conds = append(conds, x.Cond)
				}
			case *ast.CaseClause:
				conds = append(conds, x.List...)
			case *ast.ValueSpec:
				if len(x.Names) == 1 && len(x.Values) == 1 {
					if c, ok := x.Values[0].(*ast.CallExpr); ok {
						if id, ok := c.Fun.(*ast.Ident); ok && id.Name == "make" && len(c.Args) >= 2 {
							if lc, ok := c.Args[1].(*ast.CallExpr); ok {
								if lid, ok := lc.Fun.(*ast.Ident); ok && lid.Name == "len" && len(lc.Args) == 1 {
									madeLike[x.Names[0].Name] = text(lc.Args[0])
								}
							}
						}
					}
				}
			case *ast.AssignStmt:
				if len(x.Lhs) == 1 && len(x.Rhs) == 1 {
					// n := len(Y): a later test of n is a test of len(Y)
					if lc, ok := x.Rhs[0].(*ast.CallExpr); ok {
						if lid, ok := lc.Fun.(*ast.Ident); ok && lid.Name == "len" && len(lc.Args) == 1 {
							lenVars[text(x.Lhs[0])] = text(lc.Args[0])
						}
					}
				}
				if len(x.Lhs) == 1 && len(x.Rhs) == 1 {
					if c, ok := x.Rhs[0].(*ast.CallExpr); ok {
						if id, ok := c.Fun.(*ast.Ident); ok && id.Name == "make" && len(c.Args) >= 2 {
							if lc, ok := c.Args[1].(*ast.CallExpr); ok {
								if lid, ok := lc.Fun.(*ast.Ident); ok && lid.Name == "len" && len(lc.Args) == 1 {
									madeLike[text(x.Lhs[0])] = text(lc.Args[0])
								}
							}
						}
					}
				}
			}
			for _, c := range conds {
				ast.Inspect(c, func(m ast.Node) bool {
					if lc, ok := m.(*ast.CallExpr); ok {
						if lid, ok := lc.Fun.(*ast.Ident); ok && lid.Name == "len" && len(lc.Args) == 1 {
							lenTests = append(lenTests, text(lc.Args[0]))
						}
					}
					if id, ok := m.(*ast.Ident); ok && lenVars[id.Name] != "" {
						lenTests = append(lenTests, lenVars[id.Name])
					}
					return true
				})
			}
			return true
		})
		hasLenTest := func(y string) bool {
			for _, t := range lenTests {
				if t == y {
					return true
				}
			}
			return false
		}
		ast.Inspect(fd.Body, func(nn ast.Node) bool {
			rs, ok := nn.(*ast.RangeStmt)
			if !ok || rs.Key == nil {
				return true
			}
			key, ok := rs.Key.(*ast.Ident)
			if !ok || key.Name == "_" {
				return true
			}
			keyObj := info.ObjectOf(key)
			if keyObj == nil {
				return true
			}
			xt := info.TypeOf(rs.X)
			if xt == nil {
				return true
			}
			switch xt.Underlying().(type) {
			case *types.Slice, *types.Array, *types.Basic: // slices, arrays, strings, range-over-int
			default:
				if p, ok := xt.Underlying().(*types.Pointer); !ok || p == nil {
					return true // maps, channels, functions
				}
			}
			xs := text(rs.X)
			ast.Inspect(rs.Body, func(m ast.Node) bool {
				ie, ok := m.(*ast.IndexExpr)
				if !ok {
					return true
				}
				id, ok := ie.Index.(*ast.Ident)
				if !ok || info.ObjectOf(id) != keyObj {
					return true
				}
				yt := info.TypeOf(ie.X)
				if yt == nil {
					return true
				}
				if _, isSlice := yt.Underlying().(*types.Slice); !isSlice {
					if b, isStr := yt.Underlying().(*types.Basic); !isStr || b.Info()&types.IsString == 0 {
						return true
					}
				}
				ys := text(ie.X)
				if ys == xs {
					return true
				}
				n++
				k := core.FnName(f) + "/" + ys + "[" + key.Name + "] in range " + xs
				seen[k]++
				if seen[k] > 1 {
					k += "#" + strconv.Itoa(seen[k])
				}
				why := ""
				switch {
				case madeLike[ys] == xs:
					why = ys + " was made with len(" + xs + ")"
				case madeLike[xs] == ys:
					why = xs + " was made with len(" + ys + ")"
				case madeLike[ys] != "" && madeLike[ys] == madeLike[xs]:
					why = "both were made with len(" + madeLike[ys] + ")"
				case hasLenTest(ys):
					why = "len(" + ys + ") is tested in this function"
				case madeLike[ys] != "" && hasLenTest(madeLike[ys]):
					why = ys + " was made with len(" + madeLike[ys] + "), which is tested in this function"
				}
				if why == "" {
					if reason, ok := triage[k]; ok {
						why = "triaged: " + reason
					}
				}
				r.Ob("crash", "K4b:"+k, ctx.Pos(ie.Pos()), why != "",
					"K4b parallel index: "+key.Name+" ranges over "+xs+" and indexes "+ys+", whose length nothing relates to it: a longer "+xs+" is an index out of range panic")
				return true
			})
			return true
		})
	}
	r.Count("K4b_parallel_index_sites", n)
	if n < floor {
		r.Fatalf("K4b matched %d site(s), expected at least %d", n, floor)
	}
	_ = token.NoPos
}

// K3: counter-indexed buffers. A store buf[n] = v where buf and n are fields
// of the same struct (a stack or ring kept with its own fill count) writes
// past the end once the count reaches the capacity the buffer was made with,
// and the count grows with the input (nesting depth, tokens per statement).
// Such a store must be dominated by a test that relates the count to
// len(buf) (after which the buffer is grown or the input refused).
func fixedBuffer(ctx *core.Ctx, r *core.Report, reach *core.Reach, exclude func(*ssa.Function) bool, triage map[string]string, floor int) {
	n := 0
	for _, f := range ctx.RepoFuncs() {
		if (reach != nil && !reach.Set[f]) || (exclude != nil && exclude(f)) {
			continue
		}
		core.Instrs(f, func(b *ssa.BasicBlock, in ssa.Instruction) {
			st, ok := in.(*ssa.Store)
			if !ok {
				return
			}
			ia, ok := st.Addr.(*ssa.IndexAddr)
			if !ok {
				return
			}
			cu, ok1 := ia.X.(*ssa.UnOp)
			iu, ok2 := ia.Index.(*ssa.UnOp)
			if !ok1 || !ok2 {
				return
			}
			cf, ok1 := cu.X.(*ssa.FieldAddr)
			xf, ok2 := iu.X.(*ssa.FieldAddr)
			if !ok1 || !ok2 || cf.X != xf.X {
				return
			}
			if _, isSlice := cu.Type().Underlying().(*types.Slice); !isSlice {
				return
			}
			n++
			stt, _ := core.Deref(cf.X.Type()).Underlying().(*types.Struct)
			name := "?"
			if stt != nil {
				name = stt.Field(cf.Field).Name() + "[" + stt.Field(xf.Field).Name() + "]"
			}
			key := core.FnName(f) + "/" + name
			mentions := func(v ssa.Value) (cnt, ln bool) {
				seen := map[ssa.Value]bool{}
				var walk func(v ssa.Value, d int)
				walk = func(v ssa.Value, d int) {
					if d > 6 || seen[v] {
						return
					}
					seen[v] = true
					switch x := v.(type) {
					case *ssa.BinOp:
						walk(x.X, d+1)
						walk(x.Y, d+1)
					case *ssa.UnOp:
						if fa, ok := x.X.(*ssa.FieldAddr); ok && fa.X == cf.X {
							if fa.Field == xf.Field {
								cnt = true
							}
						}
					case *ssa.Call:
						if bi, ok := x.Common().Value.(*ssa.Builtin); ok && (bi.Name() == "len" || bi.Name() == "cap") {
							if u, ok := x.Common().Args[0].(*ssa.UnOp); ok {
								if fa, ok := u.X.(*ssa.FieldAddr); ok && fa.X == cf.X && fa.Field == cf.Field {
									ln = true
								}
							}
						}
					case *ssa.Convert:
						walk(x.X, d+1)
					}
				}
				walk(v, 0)
				return
			}
			guarded := false
			for d := b; d != nil; d = d.Idom() {
				if ifi, ok := d.Instrs[len(d.Instrs)-1].(*ssa.If); ok && d != b {
					if c, l := mentions(ifi.Cond); c && l {
						guarded = true
					}
				}
			}
			if !guarded {
				if reason, ok := triage[key]; ok {
					r.Ob("crash", "K3:"+key, ctx.Pos(st.Pos()), true, "triaged: "+reason)
					return
				}
			}
			r.Ob("crash", "K3:"+key, ctx.Pos(st.Pos()), guarded,
				"K3 counter-indexed buffer: the store is not preceded by a test of the count against the buffer's length: input that needs more slots than the buffer was made with is an index out of range panic (or, for a ring, silently overwrites pending entries)")
		})
	}
	r.Count("K3_counter_indexed_stores", n)
	if n < floor {
		r.Fatalf("K3 matched %d site(s), expected at least %d", n, floor)
	}
}
