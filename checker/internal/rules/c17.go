package rules

import (
	"fmt"
	"go/token"
	"go/types"
	"sort"
	"strconv"

	"golang.org/x/tools/go/ssa"

	"verif/checker/internal/core"
)

// ---------------------------------------------------------------------------
// C17 — order laws of typed values.
//
// compare-order: for every Compare method of a val.Comparable implementer the
// sign of every returned value must be *derived from a comparison of the
// receiver with the argument*, oriented receiver-vs-argument:
//   - a constant c is returned only where the dominating branch conditions
//     confine the relation between receiver and argument to {<} (c<0), {=}
//     (c==0) or {>} (c>0);
//   - a difference x-y (or strings.Compare/bytes.Compare(x,y)) is returned or
//     tested only when receiver is the left operand and the subtraction cannot
//     wrap: its type must be signed and strictly wider than the declared domain
//     of both operands (or floating point).
// ---------------------------------------------------------------------------

type side int

const (
	sNone side = iota
	sX         // derived from the receiver
	sY         // derived from the argument
)

type cmpClass struct {
	side side
	// diff: the value is sign(x-y) carrying (difference or library comparison)
	diff     bool
	reversed bool // diff computed as y-x
	inexact  string
	bits     int // domain bits for plain integer values (0 = unknown → type width)
}

// domain table for compare operands that are wider than the numbers they hold.
// key: method name; value: bits of the signed domain and the reason.
var c17Domain = map[string]struct {
	bits   int
	reason string
}{
	"val.Int32.Compare": {32, "val.Int32 is a Go int that by construction (val.Conv, FmtInt32) holds an int32"},
	"val.Enum.Compare":  {32, "Enum.Id is an RFC 7950 §9.6.4.2 enum value, an int32"},
}

type cmpAnalysis struct {
	ctx   *core.Ctx
	f     *ssa.Function
	name  string
	memo  map[ssa.Value]cmpClass
	subs  []string // violations found on subtractions
	subOK int
}

func (a *cmpAnalysis) class(v ssa.Value) cmpClass {
	if c, ok := a.memo[v]; ok {
		return c
	}
	a.memo[v] = cmpClass{} // cycle guard
	c := a.class1(v)
	a.memo[v] = c
	return c
}

func (a *cmpAnalysis) class1(v ssa.Value) cmpClass {
	sizes := a.ctx.Sizes
	switch x := v.(type) {
	case *ssa.Parameter:
		for i, p := range a.f.Params {
			if p == x {
				if i == 0 {
					return cmpClass{side: sX, bits: a.declBits(x.Type())}
				}
				return cmpClass{side: sY, bits: a.declBits(x.Type())}
			}
		}
	case *ssa.Convert:
		c := a.class(x.X)
		if c.side != sNone && !c.diff {
			// a widening convert keeps the operand's domain
			if sb, ssigned, ok := core.IntBits(x.X.Type(), sizes); ok {
				d := sb
				if !ssigned {
					d = sb + 1
				}
				if c.bits == 0 || c.bits > d {
					c.bits = d
				}
				if db, _, ok2 := core.IntBits(x.Type(), sizes); ok2 && db < sb {
					c.bits = 0 // narrowing: unknown
				}
			}
		}
		return c
	case *ssa.ChangeType:
		return a.class(x.X)
	case *ssa.ChangeInterface:
		return a.class(x.X)
	case *ssa.MakeInterface:
		return a.class(x.X)
	case *ssa.TypeAssert:
		c := a.class(x.X)
		c.bits = a.declBits(x.AssertedType)
		return c
	case *ssa.Extract:
		return a.class(x.Tuple)
	case *ssa.Field:
		c := a.class(x.X)
		c.bits = a.declBits(x.Type())
		return c
	case *ssa.FieldAddr:
		c := a.class(x.X)
		c.bits = a.declBits(core.Deref(x.Type()))
		return c
	case *ssa.UnOp:
		if x.Op == token.MUL || x.Op == token.SUB && false {
			return a.class(x.X)
		}
	case *ssa.Index:
		return a.class(x.X)
	case *ssa.IndexAddr:
		return a.class(x.X)
	case *ssa.Slice:
		return a.class(x.X)
	case *ssa.Alloc:
		// a spilled value receiver/local: look for the single store
		var src ssa.Value
		n := 0
		for _, r := range *x.Referrers() {
			if st, ok := r.(*ssa.Store); ok && st.Addr == x {
				src = st.Val
				n++
			}
		}
		if n == 1 {
			return a.class(src)
		}
	case *ssa.Phi:
		// loop-carried values (range index): classify by agreeing edges
		var res cmpClass
		for _, e := range x.Edges {
			c := a.class(e)
			if c.side == sNone {
				continue
			}
			if res.side == sNone {
				res = c
			} else if res.side != c.side {
				return cmpClass{}
			}
		}
		return res
	case *ssa.Call:
		cc := x.Common()
		if m := core.IfaceMethod(x); m != nil && m.Name() == "Value" {
			c := a.class(cc.Value)
			c.bits = 0
			return c
		}
		if b, ok := cc.Value.(*ssa.Builtin); ok && b.Name() == "len" && len(cc.Args) == 1 {
			c := a.class(cc.Args[0])
			c.bits = 63
			return c
		}
		if callee := core.StaticCallee(x); callee != nil && len(cc.Args) >= 2 {
			n := core.FnName(callee)
			isCmp := n == "strings.Compare" || n == "bytes.Compare"
			// another comparator of the same package with (x, y) operands
			if !isCmp && callee.Signature.Results().Len() == 1 {
				if b, ok := callee.Signature.Results().At(0).Type().(*types.Basic); ok && b.Kind() == types.Int &&
					(callee.Name() == "Compare" || callee.Name() == "CompareVals") {
					isCmp = true
				}
			}
			if isCmp {
				l, r := a.class(cc.Args[len(cc.Args)-2]), a.class(cc.Args[len(cc.Args)-1])
				if l.side == sX && r.side == sY {
					return cmpClass{side: sX, diff: true}
				}
				if l.side == sY && r.side == sX {
					return cmpClass{side: sX, diff: true, reversed: true}
				}
			}
		}
	case *ssa.BinOp:
		if x.Op == token.SUB {
			l, r := a.class(x.X), a.class(x.Y)
			if l.diff || r.diff || l.side == sNone || r.side == sNone || l.side == r.side {
				return cmpClass{}
			}
			res := cmpClass{side: sX, diff: true, reversed: l.side == sY}
			pos := a.ctx.Pos(x.Pos())
			if core.IsFloat(x.Type()) {
				a.subOK++
				return res
			}
			w, signed, ok := core.IntBits(x.Type(), sizes)
			if !ok {
				res.inexact = "subtraction on non-numeric type"
			} else if !signed {
				res.inexact = fmt.Sprintf("difference computed in unsigned %s is never negative, so the order is lost", core.TypeName(x.Type()))
			} else {
				dl, dr := l.bits, r.bits
				if d, ok := c17Domain[a.name]; ok {
					if dl == 0 || dl > d.bits {
						dl = d.bits
					}
					if dr == 0 || dr > d.bits {
						dr = d.bits
					}
				}
				if dl == 0 {
					dl = w
				}
				if dr == 0 {
					dr = w
				}
				if w <= dl || w <= dr {
					res.inexact = fmt.Sprintf("difference computed in %d-bit %s can wrap for %d/%d-bit operands", w, core.TypeName(x.Type()), dl, dr)
				}
			}
			if res.inexact != "" {
				a.subs = append(a.subs, pos+": "+res.inexact)
			} else {
				a.subOK++
			}
			return res
		}
	}
	return cmpClass{}
}

// declBits: integer width of a declared type (named types via underlying).
func (a *cmpAnalysis) declBits(t types.Type) int {
	if b, signed, ok := core.IntBits(t, a.ctx.Sizes); ok {
		if !signed {
			return b + 1
		}
		return b
	}
	return 0
}

const (
	relLT = 1 << iota
	relEQ
	relGT
)

func relOf(op token.Token) int {
	switch op {
	case token.LSS:
		return relLT
	case token.LEQ:
		return relLT | relEQ
	case token.GTR:
		return relGT
	case token.GEQ:
		return relGT | relEQ
	case token.EQL:
		return relEQ
	case token.NEQ:
		return relLT | relGT
	}
	return relLT | relEQ | relGT
}

func flipRel(r int) int {
	out := r & relEQ
	if r&relLT != 0 {
		out |= relGT
	}
	if r&relGT != 0 {
		out |= relLT
	}
	return out
}

// condRel interprets a branch condition as a constraint on rel(x,y).
// ok=false when the condition says nothing about receiver vs argument.
func (a *cmpAnalysis) condRel(v ssa.Value, truth bool) (int, bool) {
	all := relLT | relEQ | relGT
	if u, ok := v.(*ssa.UnOp); ok && u.Op == token.NOT {
		return a.condRel(u.X, !truth)
	}
	b, ok := v.(*ssa.BinOp)
	if !ok || !core.RelOp(b.Op) {
		return all, false
	}
	l, r := a.class(b.X), a.class(b.Y)
	var rel int
	switch {
	case l.diff && l.inexact == "" && isZero(b.Y):
		rel = relOf(b.Op)
		if l.reversed {
			rel = flipRel(rel)
		}
	case r.diff && r.inexact == "" && isZero(b.X):
		rel = flipRel(relOf(b.Op))
		if r.reversed {
			rel = flipRel(rel)
		}
	case !l.diff && !r.diff && l.side == sX && r.side == sY:
		rel = relOf(b.Op)
	case !l.diff && !r.diff && l.side == sY && r.side == sX:
		rel = flipRel(relOf(b.Op))
	default:
		return all, false
	}
	if !truth {
		rel = all &^ rel
	}
	return rel, true
}

func isZero(v ssa.Value) bool {
	if i, ok := core.ConstInt(v); ok {
		return i == 0
	}
	return false
}

func isBoolType(t types.Type) bool {
	b, ok := t.Underlying().(*types.Basic)
	return ok && b.Info()&types.IsBoolean != 0
}

func relString(r int) string {
	s := ""
	if r&relLT != 0 {
		s += "<"
	}
	if r&relEQ != 0 {
		s += "="
	}
	if r&relGT != 0 {
		s += ">"
	}
	if s == "" {
		s = "∅"
	}
	return "{" + s + "}"
}

// comparableImpls discovers the implementers of val.Comparable in package val.
func comparableImpls(ctx *core.Ctx, r *core.Report) (impls []*types.Named, scalars []*types.Named) {
	cmpI := ctx.Named("val", "Comparable")
	valI := ctx.Named("val", "Value")
	listI := ctx.Named("val", "Listable")
	if cmpI == nil || valI == nil || listI == nil {
		r.Fatalf("anchor val.Comparable / val.Value / val.Listable not found")
		return
	}
	ci := cmpI.Underlying().(*types.Interface)
	vi := valI.Underlying().(*types.Interface)
	li := listI.Underlying().(*types.Interface)
	scope := ctx.TPkg("val").Scope()
	names := scope.Names()
	sort.Strings(names)
	for _, n := range names {
		tn, ok := scope.Lookup(n).(*types.TypeName)
		if !ok {
			continue
		}
		named, ok := tn.Type().(*types.Named)
		if !ok || types.IsInterface(named) {
			continue
		}
		if !types.Implements(named, vi) && !types.Implements(types.NewPointer(named), vi) {
			continue
		}
		isList := types.Implements(named, li) || types.Implements(types.NewPointer(named), li)
		if !isList {
			scalars = append(scalars, named)
		}
		if types.Implements(named, ci) || types.Implements(types.NewPointer(named), ci) {
			impls = append(impls, named)
		}
	}
	return
}

func C17(ctx *core.Ctx, r *core.Report) {
	r.Explanation = "Structural necessary conditions of the order laws, decided for all values at once: every val.Comparable.Compare derives the sign of its result from an exact, correctly oriented comparison of receiver and argument (no wrapping or unsigned subtraction; constants returned only where dominating branch conditions pin the relation); val.Equal on scalars is Compare==0; every scalar value kind is Comparable; tuple comparison bounds its index; slice-backed lists sort and search with one comparator; reflection-based key comparison covers every key kind. Callers of Compare/CompareVals test only the sign of the result; the linear key search of slice-backed lists matches on the conjunction of all key leaves. Not decided: nothing about particular values beyond these shapes."
	impls, scalars := comparableImpls(ctx, r)
	r.Count("comparable_implementers", len(impls))
	r.Count("scalar_value_kinds", len(scalars))

	c17CompareOrder(ctx, r, impls)

	// --- equal-via-compare --------------------------------------------------
	if eq := ctx.Fn("val", "Equal"); eq == nil {
		r.Fatalf("anchor val.Equal not found")
	} else {
		found := false
		for _, cs := range core.CallSites(eq) {
			if m := core.IfaceMethod(cs); m != nil && m.Name() == "Compare" {
				v := cs.Value()
				for _, ref := range *v.Referrers() {
					if b, ok := ref.(*ssa.BinOp); ok && b.Op == token.EQL && (isZero(b.X) || isZero(b.Y)) {
						// the comparison must be what the function returns
						for _, rr := range *b.Referrers() {
							if _, ok := rr.(*ssa.Return); ok {
								found = true
							}
						}
					}
				}
			}
		}
		r.Ob("equal-via-compare", "val.Equal", ctx.Pos(eq.Pos()), found, "scalar equality must be `Compare(...) == 0` so that equality agrees with order")
	}

	// --- scalar-comparable --------------------------------------------------
	// every scalar kind is Comparable, or val.Equal does not assert Comparable
	// unconditionally (comma-ok form with a fallback).
	isCmp := map[*types.Named]bool{}
	for _, n := range impls {
		isCmp[n] = true
	}
	equalTotal := false
	if eq := ctx.Fn("val", "Equal"); eq != nil {
		cmpI := ctx.Named("val", "Comparable")
		nAssert, nOk := 0, 0
		core.Instrs(eq, func(_ *ssa.BasicBlock, in ssa.Instruction) {
			if ta, ok := in.(*ssa.TypeAssert); ok && cmpI != nil && types.Identical(ta.AssertedType, cmpI) {
				nAssert++
				if ta.CommaOk {
					nOk++
				}
			}
		})
		equalTotal = nAssert > 0 && nAssert == nOk
	}
	for _, n := range scalars {
		r.Ob("scalar-comparable", "val."+n.Obj().Name(), ctx.Pos(n.Obj().Pos()), isCmp[n] || equalTotal,
			"scalar value kind does not implement val.Comparable and val.Equal asserts Comparable unconditionally: comparing such values panics")
	}
	r.Floor("scalar-comparable", len(scalars), 15)

	// --- tuple-bound --------------------------------------------------------
	c17TupleBound(ctx, r)
	// --- sort-search-one-comparator ------------------------------------------
	c17SortSearch(ctx, r)
	// --- reflect-compare-kinds -----------------------------------------------
	c17ReflectCompare(ctx, r)
	c17KeyMatchConjunction(ctx, r)
	c17CompareSignOnly(ctx, r)
	noValueTextEquality(ctx, r)
	{
		// lookups by key answer from a sorted index that must be rebuilt after every change of the container (C03/C18's rule)
		sub := core.NewReport("C18", r.Tier, r.Root, r.Seed)
		C18(ctx, sub)
		r.Borrow(sub, "cache-dropped-on-mutation")
	}
	c17LessComparesWholeKey(ctx, r)
	c17IndexNilOnError(ctx, r)
	c18ExistingEntryIsNotEmpty(ctx, r)
	c16LiteralExact(ctx, r)
}

// c17TupleBound: in val.CompareVals every index into the second tuple must be
// dominated by a comparison of that index with len(second).
func c17TupleBound(ctx *core.Ctx, r *core.Report) {
	fn := ctx.Fn("val", "CompareVals")
	if fn == nil {
		r.Fatalf("anchor val.CompareVals not found")
		return
	}
	if len(fn.Params) != 2 {
		r.Fatalf("val.CompareVals: unexpected arity")
		return
	}
	n := 0
	core.Instrs(fn, func(b *ssa.BasicBlock, in ssa.Instruction) {
		ia, ok := in.(*ssa.IndexAddr)
		if !ok {
			return
		}
		if ia.X != fn.Params[1] && ia.X != fn.Params[0] {
			return
		}
		n++
		other := ia.X
		guarded := indexGuarded(b, ia.Index, other)
		// a range loop over the same slice bounds its own index
		if !guarded && rangeBounded(ia.Index, other) {
			guarded = true
		}
		which := "a"
		if other == fn.Params[1] {
			which = "b"
		}
		r.Ob("tuple-bound", "val.CompareVals/index:"+which, ctx.Pos(ia.Pos()), guarded,
			"index into tuple "+which+" is not bounded by its length: comparing tuples of different length panics instead of ordering the proper prefix")
	})
	r.Floor("tuple-bound", n, 2)
}

// indexGuarded: some dominating branch compares idx with len(slice).
func indexGuarded(b *ssa.BasicBlock, idx ssa.Value, slice ssa.Value) bool {
	for _, pc := range core.PathConds(b) {
		if bo, ok := pc.V.(*ssa.BinOp); ok && core.RelOp(bo.Op) {
			if (sameVal(bo.X, idx) && isLenOf(bo.Y, slice)) || (sameVal(bo.Y, idx) && isLenOf(bo.X, slice)) {
				return true
			}
		}
	}
	return false
}

func sameVal(a, b ssa.Value) bool { return a == b }

func isLenOf(v ssa.Value, slice ssa.Value) bool {
	c, ok := v.(*ssa.Call)
	if !ok {
		return false
	}
	bi, ok := c.Common().Value.(*ssa.Builtin)
	return ok && bi.Name() == "len" && len(c.Common().Args) == 1 && c.Common().Args[0] == slice
}

// rangeBounded: idx is the induction variable of a loop whose exit test is
// idx < len(slice).
func rangeBounded(idx ssa.Value, slice ssa.Value) bool {
	phi, ok := idx.(*ssa.Phi)
	var cands []ssa.Value
	cands = append(cands, idx)
	if ok {
		cands = append(cands, phi.Edges...)
	}
	// rangeindex loops: idx = phi(-1, idx+1); test idx+1 < len
	if bo, ok := idx.(*ssa.BinOp); ok && bo.Op == token.ADD {
		cands = append(cands, bo.X)
	}
	for _, c := range cands {
		refs := c.Referrers()
		if refs == nil {
			continue
		}
		for _, ref := range *refs {
			if bo, ok := ref.(*ssa.BinOp); ok && bo.Op == token.LSS && bo.X == c && isLenOf(bo.Y, slice) {
				return true
			}
			// idx+1 < len
			if add, ok := ref.(*ssa.BinOp); ok && add.Op == token.ADD {
				for _, r2 := range *add.Referrers() {
					if bo, ok := r2.(*ssa.BinOp); ok && bo.Op == token.LSS && bo.X == add && isLenOf(bo.Y, slice) {
						return true
					}
				}
			}
		}
	}
	return false
}

// c17SortSearch: the slice-backed list index sorts (Less), searches
// (sort.Search predicate) and confirms (EqualVals) with val.CompareVals /
// val.EqualVals — one comparator for all three.
func c17SortSearch(ctx *core.Ctx, r *core.Report) {
	cv := ctx.Fn("val", "CompareVals")
	ev := ctx.Fn("val", "EqualVals")
	less := ctx.Method("nodeutil", "sliceSorter", "Less")
	ff := ctx.Method("nodeutil", "sliceSorter", "findFunc")
	find := ctx.Method("nodeutil", "sliceSorter", "find")
	if cv == nil || ev == nil || less == nil || ff == nil || find == nil {
		r.Fatalf("anchor nodeutil.sliceSorter.{Less,findFunc,find} / val.CompareVals / val.EqualVals not found")
		return
	}
	calls := func(f *ssa.Function, target *ssa.Function) *ssa.Call {
		var hit *ssa.Call
		var visit func(f *ssa.Function)
		visit = func(f *ssa.Function) {
			for _, cs := range core.CallSites(f) {
				if core.IsCallTo(cs, target) {
					if c, ok := cs.(*ssa.Call); ok && hit == nil {
						hit = c
					}
				}
			}
			for _, an := range f.AnonFuncs {
				visit(an)
			}
		}
		visit(f)
		return hit
	}
	// Less: CompareVals(a,b) < 0
	lc := calls(less, cv)
	okLess := lc != nil && cmpAgainstZero(lc, token.LSS)
	if okLess {
		// and on every path: no return of Less is decided by anything but that call
		for _, ret := range core.Returns(less) {
			for _, op := range core.RetOperands(ret) {
				if !valueDependsOn(op, lc, map[ssa.Value]bool{}) {
					okLess = false
				}
			}
		}
	}
	r.Ob("sort-search-one-comparator", "nodeutil.sliceSorter.Less", ctx.Pos(less.Pos()), okLess, "Less must be val.CompareVals(a,b) < 0 on every path: an ordering of the index decided by anything else (the first key leaf only, say) disagrees with the comparator the binary search uses, and entries that exist are not found")
	fc := calls(ff, cv)
	okFind := fc != nil && cmpAgainstZero(fc, token.GEQ)
	r.Ob("sort-search-one-comparator", "nodeutil.sliceSorter.findFunc", ctx.Pos(ff.Pos()), okFind, "sort.Search predicate must be val.CompareVals(entry,key) >= 0 (the first index not less than the key)")
	ec := calls(find, ev)
	r.Ob("sort-search-one-comparator", "nodeutil.sliceSorter.find", ctx.Pos(find.Pos()), ec != nil, "the index returned by sort.Search must be confirmed with val.EqualVals before it is reported as found")
}

func cmpAgainstZero(c *ssa.Call, op token.Token) bool {
	for _, ref := range *c.Referrers() {
		if b, ok := ref.(*ssa.BinOp); ok && b.X == c && isZero(b.Y) && b.Op == op {
			return true
		}
	}
	return false
}

// c17ReflectCompare: nodeutil.reflectCompare (and valSorter.Less) order map
// keys by reflect kind; every comparable key kind family must have a branch:
// CanInt, CanUint, CanFloat, string.
func c17ReflectCompare(ctx *core.Ctx, r *core.Report) {
	for _, spec := range []string{"nodeutil.reflectCompare"} {
		fn := ctx.Lookup(spec)
		if fn == nil {
			r.Fatalf("anchor %s not found", spec)
			continue
		}
		have := map[string]bool{}
		core.Instrs(fn, func(_ *ssa.BasicBlock, in ssa.Instruction) {
			cs, ok := in.(ssa.CallInstruction)
			if !ok {
				return
			}
			if cal := core.StaticCallee(cs); cal != nil && core.FnPkgPath(cal) == "reflect" {
				have[cal.Name()] = true
			}
		})
		for _, fam := range []struct {
			name string
			alts []string
		}{
			{"signed", []string{"Int"}},
			{"unsigned", []string{"Uint"}},
			{"float", []string{"Float"}},
			{"string", []string{"String"}},
		} {
			ok := false
			for _, a := range fam.alts {
				if have[a] {
					ok = true
				}
			}
			r.Ob("reflect-compare-kinds", spec+"/"+fam.name, ctx.Pos(fn.Pos()), ok,
				"no branch for "+fam.name+" map-key kinds: ordering such keys panics or is undefined")
		}
	}
}

// innerLoopOf returns the blocks of the innermost natural loop containing b
// and its header, or nil.
func innerLoopOf(b *ssa.BasicBlock) (map[*ssa.BasicBlock]bool, *ssa.BasicBlock) {
	var best map[*ssa.BasicBlock]bool
	var bestH *ssa.BasicBlock
	for _, h := range b.Parent().Blocks {
		if !h.Dominates(b) {
			continue
		}
		body := map[*ssa.BasicBlock]bool{}
		for _, p := range h.Preds {
			if h.Dominates(p) { // back edge p→h
				body[h] = true
				var up func(x *ssa.BasicBlock)
				up = func(x *ssa.BasicBlock) {
					if body[x] {
						return
					}
					body[x] = true
					for _, q := range x.Preds {
						up(q)
					}
				}
				up(p)
			}
		}
		if !body[b] {
			continue
		}
		if best == nil || len(body) < len(best) {
			best, bestH = body, h
		}
	}
	return best, bestH
}

// c17KeyMatchConjunction: the linear key search of slice-backed lists
// (sliceAsList.findByKey) answers "found" only for an entry all of whose key
// leaves equal the requested key: the comparison of one key leaf sits in a loop
// over the key leaves, a mismatch leaves that loop (it does not move on to the
// next key leaf), and the found-return is reached only on the equal side of the
// comparison and on the last key leaf.
func c17KeyMatchConjunction(ctx *core.Ctx, r *core.Report) {
	f := ctx.Method("nodeutil", "sliceAsList", "findByKey")
	if f == nil {
		r.Fatalf("anchor nodeutil.sliceAsList.findByKey not found")
		return
	}
	key := "nodeutil.sliceAsList.findByKey"
	// the comparison of two Value() results
	isValueCall := func(v ssa.Value) bool {
		c, ok := v.(*ssa.Call)
		if !ok {
			return false
		}
		m := core.IfaceMethod(c)
		return m != nil && m.Name() == "Value"
	}
	var cmps []*ssa.BinOp
	core.Instrs(f, func(_ *ssa.BasicBlock, in ssa.Instruction) {
		if b, ok := in.(*ssa.BinOp); ok && (b.Op == token.NEQ || b.Op == token.EQL) && isValueCall(b.X) && isValueCall(b.Y) {
			cmps = append(cmps, b)
		}
	})
	var found []*ssa.Return
	for _, ret := range core.Returns(f) {
		ops := core.RetOperands(ret)
		if len(ops) == 3 {
			if _, isConst := ops[0].(*ssa.Const); !isConst && core.IsNilConst(ops[2]) {
				if _, isParamOrPhi := ops[0].(*ssa.Phi); isParamOrPhi || true {
					found = append(found, ret)
				}
			}
		}
	}
	// the not-found return also has a non-constant first operand when written `return notfound, …`
	var foundRets []*ssa.Return
	for _, ret := range found {
		ops := core.RetOperands(ret)
		if c, ok := core.ConstInt(ops[0]); ok && c == -1 {
			continue
		}
		foundRets = append(foundRets, ret)
	}
	if len(cmps) != 1 || len(foundRets) == 0 {
		r.Ob("key-match-conjunction", key+"/shape", ctx.Pos(f.Pos()), false,
			fmt.Sprintf("expected one comparison of a candidate key leaf's Value() with the requested one and a found-return; saw %d comparison(s), %d found-return(s): the rule cannot show that found means all key leaves equal", len(cmps), len(foundRets)))
		return
	}
	cmp := cmps[0]
	body, header := innerLoopOf(cmp.Block())
	if body == nil {
		r.Ob("key-match-conjunction", key+"/loop", ctx.Pos(cmp.Pos()), false, "the key leaf comparison is not in a loop over the key leaves")
		return
	}
	// mismatch leaves the loop
	var ifi *ssa.If
	for _, ref := range *cmp.Referrers() {
		if i, ok := ref.(*ssa.If); ok {
			ifi = i
		}
	}
	if ifi == nil {
		r.Ob("key-match-conjunction", key+"/mismatch-leaves-loop", ctx.Pos(cmp.Pos()), false,
			"the result of the key leaf comparison is not branched on where it is computed (it is accumulated instead): the rule cannot show that a mismatch on an earlier key leaf excludes the entry")
		return
	}
	mismatch := ifi.Block().Succs[0]
	if cmp.Op == token.EQL {
		mismatch = ifi.Block().Succs[1]
	}
	r.Ob("key-match-conjunction", key+"/mismatch-leaves-loop", ctx.Pos(ifi.Pos()), !body[mismatch],
		"after a key leaf that differs the search goes on to the next key leaf of the same entry: an entry whose last key leaf matches is returned although an earlier one differs")
	// found only on the equal side and on the last key leaf
	for i, ret := range foundRets {
		k := key + "/found"
		if i > 0 {
			k += "#" + strconv.Itoa(i+1)
		}
		equalSide, lastKey := false, false
		for _, pc := range core.PathConds(ret.Block()) {
			if pc.V == ssa.Value(cmp) && pc.True == (cmp.Op == token.EQL) {
				equalSide = true
			}
			if b, ok := pc.V.(*ssa.BinOp); ok && b.Op == token.EQL && pc.True {
				for _, side := range []ssa.Value{b.X, b.Y} {
					if ph, ok := side.(*ssa.Phi); ok && ph.Block() == header {
						lastKey = true
					}
					if bo, ok := side.(*ssa.BinOp); ok && bo.Op == token.ADD { // rotated range loops: index = phi+1
						if ph, ok := bo.X.(*ssa.Phi); ok && ph.Block() == header {
							lastKey = true
						}
					}
				}
			}
		}
		msg := ""
		if !equalSide {
			msg = "the found-return is not on the equal side of the key leaf comparison"
		} else if !lastKey {
			msg = "the found-return is not conditioned on having reached the last key leaf: an entry matching only the first key leaf is returned"
		}
		r.Ob("key-match-conjunction", k, ctx.Pos(ret.Pos()), msg == "", msg)
	}
}

// c17CompareSignOnly: callers of Comparable.Compare (and of CompareVals) use
// the sign of the result only. Compare's contract is negative/zero/positive;
// implementations are free to return any magnitude, so a test against 1 or -1
// treats "greater by more than one" as equal.
func c17CompareSignOnly(ctx *core.Ctx, r *core.Report) {
	n := 0
	seen := map[string]int{}
	for _, f := range ctx.RepoFuncs() {
		p := core.FnPkgPath(f)
		if p != core.Full("val") && p != core.Full("node") && p != core.Full("nodeutil") && p != core.Full("meta") {
			continue
		}
		for _, c := range core.CallSites(f) {
			isCmp := false
			if m := core.IfaceMethod(c); m != nil && m.Name() == "Compare" {
				isCmp = true
			}
			if cal := core.StaticCallee(c); cal != nil {
				if cal.Name() == "Compare" && core.FnPkgPath(cal) == core.Full("val") {
					isCmp = true
				}
				if core.FnName(cal) == "val.CompareVals" {
					isCmp = true
				}
			}
			v := c.Value()
			if !isCmp || v == nil || v.Referrers() == nil {
				continue
			}
			if b, ok := v.Type().Underlying().(*types.Basic); !ok || b.Info()&types.IsInteger == 0 {
				continue
			}
			n++
			bad := ""
			var visit func(x ssa.Value, depth int)
			visit = func(x ssa.Value, depth int) {
				if depth > 2 || x.Referrers() == nil {
					return
				}
				for _, ref := range *x.Referrers() {
					switch y := ref.(type) {
					case *ssa.BinOp:
						other := y.Y
						if other == x {
							other = y.X
						}
						if k, ok := core.ConstInt(other); ok && k != 0 && (y.Op == token.EQL || y.Op == token.NEQ || core.RelOp(y.Op)) {
							bad = ctx.Pos(y.Pos())
						}
					case *ssa.Phi:
						visit(y, depth+1)
					case *ssa.Convert:
						visit(y, depth+1)
					}
				}
			}
			visit(v, 0)
			r.Ob("compare-sign-only", loopKey(seen, f), ctx.Pos(c.Pos()), bad == "",
				"the result of Compare is tested against a non-zero constant ("+bad+"): Compare promises a sign, not -1/0/1, so a larger difference is taken for equal")
		}
	}
	r.Floor("compare-sign-only", n, 4)
}

// c17CompareOrder: the compare-order rule (see the head of this file), also used by C16,
// whose comparisons are decided by these Compare methods.
func c17CompareOrder(ctx *core.Ctx, r *core.Report, impls []*types.Named) {
	// --- compare-order ----------------------------------------------------
	nMethods := 0
	for _, named := range impls {
		var fn *ssa.Function
		for i := 0; i < named.NumMethods(); i++ {
			if named.Method(i).Name() == "Compare" {
				fn = ctx.Prog.FuncValue(named.Method(i))
			}
		}
		if fn == nil || len(fn.Blocks) == 0 {
			r.Fatalf("Compare method of %s has no body", named.Obj().Name())
			continue
		}
		nMethods++
		name := core.FnName(fn)
		a := &cmpAnalysis{ctx: ctx, f: fn, name: name, memo: map[ssa.Value]cmpClass{}}
		var problems []string
		nret := 0
		for _, ret := range core.Returns(fn) {
			if len(ret.Results) != 1 {
				continue
			}
			for _, leaf := range core.PhiLeaves(ret.Results[0], ret.Block()) {
				nret++
				pos := ctx.Pos(ret.Pos())
				if c, ok := core.ConstInt(leaf.V); ok {
					rel := relLT | relEQ | relGT
					boolHint := 0 // bare boolean receiver/argument condition
					for _, pc := range core.PathConds(leaf.Block) {
						if cr, ok := a.condRel(pc.V, pc.True); ok {
							rel &= cr
						} else if isBoolType(pc.V.Type()) {
							cl := a.class(pc.V)
							if !cl.diff && cl.side == sX {
								if pc.True {
									boolHint |= relGT | relEQ
								} else {
									boolHint |= relLT | relEQ
								}
							} else if !cl.diff && cl.side == sY {
								if pc.True {
									boolHint |= relLT | relEQ
								} else {
									boolHint |= relGT | relEQ
								}
							}
						}
					}
					// the edge that selects this phi leaf may itself be a branch
					if len(leaf.Block.Instrs) > 0 {
						if ifi, ok := leaf.Block.Instrs[len(leaf.Block.Instrs)-1].(*ssa.If); ok && leaf.Block != ret.Block() {
							for si, s := range leaf.Block.Succs {
								if s == ret.Block() || s.Dominates(ret.Block()) && len(s.Preds) == 1 {
									if cr, ok := a.condRel(ifi.Cond, si == 0); ok {
										rel &= cr
									}
								}
							}
						}
					}
					if boolHint != 0 {
						rel &= boolHint
					}
					want := relEQ
					if c < 0 {
						want = relLT
					} else if c > 0 {
						want = relGT
					}
					if rel&^want != 0 || rel == 0 {
						problems = append(problems, fmt.Sprintf("%s: returns %d where the dominating comparisons allow receiver%sargument", pos, c, relString(rel)))
					}
					continue
				}
				cl := a.class(leaf.V)
				switch {
				case cl.diff && cl.reversed:
					problems = append(problems, fmt.Sprintf("%s: returns argument-vs-receiver difference (reversed orientation)", pos))
				case cl.diff:
					// exactness problems are collected in a.subs
				default:
					problems = append(problems, fmt.Sprintf("%s: returned value %s is not derived from a comparison of receiver and argument", pos, leaf.V.Name()))
				}
			}
		}
		problems = append(problems, a.subs...)
		ok := len(problems) == 0
		msg := fmt.Sprintf("%d return leaves, %d exact differences", nret, a.subOK)
		if !ok {
			msg = core.Join(problems)
		}
		r.Ob("compare-order", name, ctx.Pos(fn.Pos()), ok, msg)
		if ok {
			r.Sample("compare-order %s: %s", name, msg)
		}
	}
	r.Floor("compare-order", nMethods, 15)
}
