package rules

// Triage of crash sites that the dischargers cannot prove safe and that were
// confirmed by reading NOT to be reachable by request content. One named site
// per entry, each with its reason. A site that is a genuine defect is not
// listed here: it is either fixed in /repo or listed in known_findings.json.
const (
	rKind    = "receiver-kind precondition of an API method: calling it on a selection of another schema kind is a programming error of the caller, not request content (Find never hands out such a selection for this call)"
	rRO      = "write request sent to a read-only reader / read sent to a write-only writer: API misuse by the embedding program (a reader used as edit target), not request content"
	rReflect = "reflection node over the embedding program's own Go objects: the panic reports a Go object graph that does not match the schema (programming error of the embedder), not request content"
	rCtor    = "constructor precondition (nil argument): programming error of the caller"
	rSameFmt = "Compare contract: both operands have the same Format. val.Equal checks Format equality first; xpath resolveOperator builds the literal with NewValue of the leaf's own type; CompareVals compares keys of one list's key leaves"
	rSchema  = "schema-structure invariant of compiled modules (the operand is produced by the compiler/walker, never by request content)"
	rKey     = "ListRequest.Key invariant: nil or one value per key leaf (built by parseUrlPath/NewValues from KeyMeta or by editor.list from the source entry); callers test it with isKeyValid/len before dispatching here"
	rQuery   = "url.ParseQuery / url.Values never stores an empty slice under a key; BuildConstraints is fed from url.Values by Find and Constrain"
	rValFmt  = "the value handed to a leaf has the Format of the leaf's type: values are produced by node.NewValue(type, …) on every request path"
)

var c13Triage = map[string]string{
	// ---- K1 explicit panics ------------------------------------------------
	`K1:meta.Any.DefaultValue/panic("anydata cannot have default value")`:                                                        "typestate: DefaultValue() is called only after HasDefault() on the same receiver (rule default-after-hasdefault of C04 checks the dominance); Any.HasDefault() is constant false",
	`K1:meta.RangeNumber.getFloat64/panic("invalid number range comparison")`:                                                    "unreachable by construction: newRangeNumber sets exactly one of integer/unsigned/float unless min/max, and RangeNumber.Compare returns for min/max before any getter runs",
	`K1:meta.RangeNumber.getInt64/panic("invalid number range comparison")`:                                                      "unreachable by construction: newRangeNumber sets exactly one of integer/unsigned/float unless min/max; Compare handles min/max and unsigned-only bounds before getInt64",
	`K1:meta.RangeNumber.getUnit64/panic("invalid number range comparison")`:                                                     "unreachable by construction: Compare handles min/max and negative bounds before getUnit64",
	`K1:node.Constraints.AddConstraint/panic(reflect.TypeOf(constraint).Name() + " does not implement any of the kn…)`:           "API misuse: a constraint object implementing none of the constraint interfaces; BuildConstraints only registers the library's own constraint types (C07 rule registered-constraints-implement)",
	`K1:node.Selection.Split/panic("selection is nil")`:                                                                          rCtor,
	`K1:nodeutil.ConfigProxy.Node/panic("nil local")`:                                                                            rCtor,
	`K1:nodeutil.CopyOnWrite.list/panic("nil read")`:                                                                             rCtor,
	`K1:nodeutil.JSONWtr.container$4/panic("Not a reader")`:                                                                      rRO,
	`K1:nodeutil.JsonContainerReader$2/panic("cannot write to JSON reader")`:                                                     rRO,
	`K1:nodeutil.JsonContainerReader$3/panic("cannot write to JSON reader")`:                                                     rRO,
	`K1:nodeutil.JsonListReader$1/panic("Cannot write to JSON reader")`:                                                          rRO,
	`K1:nodeutil.Node.DoNewObject/panic(fmt.Sprintf("creating type not supported %v", t))`:                                       rReflect,
	`K1:nodeutil.Reflect.Child/panic("unsupported type for child container " + v.String())`:                                      rReflect,
	`K1:nodeutil.Reflect.ReadFieldWithFieldName/panic(fmt.Sprintf("Field not found: %s on %v", m.Ident(), ptrVal))`:              rReflect,
	`K1:nodeutil.Reflect.ReadFieldWithFieldName/panic(fmt.Sprintf("Pointer to a pointer not legal %s on %v ", m.Ident(), ptr…)`:  rReflect,
	`K1:nodeutil.Reflect.ReflectList/panic("unsupported type for listing " + v.String())`:                                        rReflect,
	`K1:nodeutil.Reflect.WriteFieldWithFieldName/panic(fmt.Sprintf("Cannot find property \"%s\" on invalid or nil %s", fieldN…)`: rReflect,
	`K1:nodeutil.Reflect.WriteFieldWithFieldName/panic(fmt.Sprintf("Invalid property \"%s\" on %s", fieldName, elemVal.Type()…)`: rReflect,
	`K1:nodeutil.Reflect.WriteFieldWithFieldName/panic(fmt.Sprintf("No value given to set %s", m.Ident()))`:                      rReflect,
	`K1:nodeutil.Reflect.create/panic(fmt.Sprintf("creating type not supported %v", t))`:                                         rReflect,
	`K1:nodeutil.newStructAsContainer/panic(fmt.Sprintf("struct %s not allowed, need pointer to struct", src.Type(…)`:            rReflect,
	`K1:nodeutil.reflectCompare/panic(fmt.Sprintf("cannot compare %s. you must set comparator or implement y…)`:                  rReflect + " (documented: set a comparator for other key kinds)",
	`K1:nodeutil.valSorter.Less/panic("not supported")`:                                                                          rReflect,

	// ---- K2 unchecked assertions ---------------------------------------------
	`K2:meta.RootModule/candidate.(*Module)`:                                       rSchema + ": the root of every Parent() chain of a compiled definition is its *Module",
	`K2:meta.SchemaPath/m.(Identifiable)`:                                          rSchema + ": every meta.Meta on a Parent() chain is a Definition, hence Identifiable",
	`K2:node.ContentConstraint.CheckFieldPreConstraints/r.Meta.(meta.HasDetails)`:  rSchema + ": FieldRequest.Meta is a Leaf, LeafList or Any (all HasDetails); the only other Leafable, Typedef, is never the meta of a field request",
	`K2:node.Selection.Action/sel.Meta().(*meta.Rpc)`:                              rKind,
	`K2:node.Selection.Delete/sel.Meta().(*meta.List)`:                             rSchema + ": InsideList is set only by selectListItem, whose selection's meta is the *meta.List",
	`K2:node.Selection.Delete/sel.Meta().(meta.HasDataDefinitions)`:                rKind,
	`K2:node.Selection.First/sel.Meta().(*meta.List)`:                              rKind,
	`K2:node.Selection.Notifications/sel.Meta().(*meta.Notification)`:              rKind,
	`K2:node.TriggerTable.handle/i.Value.(*Trigger)`:                               "container/list element invariant: TriggerTable.Install is the only writer of the list and stores *Trigger",
	`K2:node.editor.clearChoiceCase/m.(meta.Identifiable)`:                         rSchema + ": the choice-case iterator yields data definitions",
	`K2:node.editor.clearOnDifferentChoiceCase/wantCase.Parent().(*meta.Choice)`:   rSchema + ": the parent of a *ChoiceCase is its *Choice",
	`K2:node.editor.enter/m.(meta.HasDataDefinitions)`:                             rSchema + ": reached in the !IsLeaf/!IsAction/!IsNotification branch of the child iterator, which yields only data definitions of a container",
	`K2:node.fieldConstraints.CheckFieldPreConstraints/hnd.Val.Value().([]string)`: rValFmt,
	`K2:node.newContainerMetaList/s.Path.Meta.(meta.HasDataDefinitions)`:           rSchema + ": the editor enters only selections of containers, list entries, rpc input/output and notifications",
	`K2:node.xpathImpl.resolveOperator/m.(meta.HasType)`:                           rSchema + ": resolvePath calls resolveExpression only in its IsLeaf(m) branch for the same ident; Leaf, LeafList and Any implement HasType",
	`K2:node.xpathImpl.resolveOperator/s.Meta().(meta.HasDefinitions)`:             rKind,
	`K2:node.xpathImpl.resolvePath/s.Meta().(meta.HasDefinitions)`:                 rKind,
	`K2:nodeutil.ConfigProxy.Node$2/choice.Parent().(meta.HasDetails)`:             rSchema + ": a choice's parent is a container, list, case or rpc io, all HasDetails",
	`K2:nodeutil.ConfigProxy.Node$9/r.Meta.(meta.HasDetails)`:                      rSchema + ": FieldRequest.Meta is a Leaf, LeafList or Any",
	`K2:nodeutil.JSONWtr.writeValue$1/p.Meta.(meta.HasType)`:                       rSchema + ": writeValue is called from the Field callback, whose path meta is the leaf",
	`K2:nodeutil.JSONWtr.writeValue/lerr.(error)`:                                  "guarded by `lerr != nil` on the same value in the preceding statement; the reducer only ever returns an error or nil",
	`K2:nodeutil.Node.exists/m.(meta.Leafable)`:                                    rSchema + ": last branch of an IsContainer/IsList/IsChoice/… cascade over data definitions",
	`K2:nodeutil.XMLWtr.getStringValue/p.Meta.(meta.HasType)`:                      rSchema + ": called from the Field callback, whose path meta is the leaf",
	`K2:nodeutil.XMLWtr2.writeFieldElement/m.(meta.HasType)`:                       rSchema + ": called from Field with the request's Leafable",
	`K2:nodeutil.actionHandler.invoke/in.Interface().(map[string]interface{})`:     rReflect,
	`K2:nodeutil.actionHandler.invoke/lastVal.Interface().(error)`:                 rReflect + "; the handler's last result type was checked to be error when the handler was built",
	`K2:nodeutil.reflectByField.get/resp[1].Interface().(error)`:                   rReflect,
	`K2:nodeutil.reflectByField.set/resp[0].Interface().(error)`:                   rReflect,
	`K2:nodeutil.valSorter.Less/self[j].Interface().(fmt.Stringer)`:                rReflect,
	`K2:val.Binary.Compare/y.(Binary)`:                                             rSameFmt,
	`K2:val.Bool.Compare/y.Value().(bool)`:                                         rSameFmt,
	`K2:val.CompareVals/b[i].(Comparable)`:                                         "list keys are of orderable kinds: RFC 7950 forbids empty keys, and bits/anydata keys are not supported by the slice index (limitation, not request content)",
	`K2:val.CompareVals/v.(Comparable)`:                                            "as for b[i]: list keys are of orderable kinds",
	`K2:val.Decimal64.Compare/b.Value().(float64)`:                                 rSameFmt,
	`K2:val.Enum.Compare/b.Value().(Enum)`:                                         rSameFmt,
	`K2:val.IdentRef.Compare/b.(IdentRef)`:                                         rSameFmt,
	`K2:val.Int16.Compare/y.Value().(int16)`:                                       rSameFmt,
	`K2:val.Int32.Compare/b.Value().(int)`:                                         rSameFmt,
	`K2:val.Int64.Compare/b.Value().(int64)`:                                       rSameFmt,
	`K2:val.Int8.Compare/y.Value().(int8)`:                                         rSameFmt,
	`K2:val.String.Compare/b.Value().(string)`:                                     rSameFmt,
	`K2:val.UInt16.Compare/b.Value().(uint16)`:                                     rSameFmt,
	`K2:val.UInt32.Compare/b.Value().(uint)`:                                       rSameFmt,
	`K2:val.UInt64.Compare/b.Value().(uint64)`:                                     rSameFmt,
	`K2:val.UInt8.Compare/b.Value().(uint8)`:                                       rSameFmt,

	// ---- K4 constant index ----------------------------------------------------
	`K4:node.BuildConstraints/p[0]`:                   rQuery,
	`K4:node.findIntParam/v[0]`:                       rQuery,
	`K4:nodeutil.Node.DoGetByRow/r.Meta.KeyMeta()[0]`: rSchema + ": reached only for keyed lists (the enclosing branch tests len(KeyMeta()))",
	`K4:nodeutil.Reflect.listMap$1/key[0]`:            "both uses sit under isKeyValid(key) (non-empty, no nil element) in the same closure: the new-entry branch returns a bad request otherwise, the lookup branch falls to the by-row walk",
	`K4:nodeutil.mapAsList.deleteByKey/r.Key[0]`:      rKey,
	`K4:nodeutil.mapAsList.getByKey/r.Key[0]`:         rKey,
	`K4:nodeutil.mapAsList.newListItem/r.Key[0]`:      rKey,
}
