// verifchk decides structural necessary conditions of the properties in
// /verif/properties.jsonl by static analysis of /repo's current source.
package main

import (
	"flag"
	"fmt"
	"os"
	"runtime/debug"
	"sort"
	"strconv"

	"verif/checker/internal/core"
	"verif/checker/internal/rules"
)

func main() {
	prop := flag.String("property", "", "property id (C01..C20)")
	tier := flag.String("tier", "quick", "quick|thorough")
	repo := flag.String("repo", "/repo", "repository to analyse")
	root := flag.String("root", "/verif", "verification root (known_findings.json, evidence/, out/)")
	goarch := flag.String("goarch", "", "GOARCH to type-check for (default host)")
	list := flag.Bool("list", false, "list properties with rules")
	flag.Parse()
	if *list {
		var ids []string
		for id := range rules.Registry {
			ids = append(ids, id)
		}
		sort.Strings(ids)
		for _, id := range ids {
			fmt.Println(id)
		}
		return
	}
	if t := os.Getenv("VERIF_TIER"); t != "" && !flagSet("tier") {
		*tier = t
	}
	seed := 0
	if s := os.Getenv("VERIF_SEED"); s != "" {
		seed, _ = strconv.Atoi(s)
	}
	if *prop == "ALL" {
		os.Exit(runAll(*tier, *repo, *root, *goarch, seed))
	}
	rule, ok := rules.Registry[*prop]
	if !ok {
		fmt.Fprintf(os.Stderr, "unknown property %q\n", *prop)
		os.Exit(2)
	}
	os.Exit(run(*prop, *tier, *repo, *root, *goarch, seed, rule))
}

// runAll decides every property with one load of the program (used to
// evaluate seeded defects; the registered checks run one property per process).
func runAll(tier, repo, root, goarch string, seed int) int {
	ctx, err := core.Load(repo, goarch)
	var ids []string
	for id := range rules.Registry {
		ids = append(ids, id)
	}
	sort.Strings(ids)
	code := 0
	for _, id := range ids {
		r := core.NewReport(id, tier, root, seed)
		if err != nil {
			r.Fatalf("cannot load %s: %v", repo, err)
			if r.Finish() != 0 {
				code = 1
			}
			continue
		}
		func() {
			defer func() {
				if p := recover(); p != nil {
					r.Fatalf("analyser panic: %v\n%s", p, debug.Stack())
				}
			}()
			rules.Registry[id](ctx, r)
			if x := rules.ExplainExtra[id]; x != "" {
				r.Explanation += " " + x
			}
		}()
		if r.Finish() != 0 {
			code = 1
		}
	}
	return code
}

func flagSet(name string) bool {
	set := false
	flag.Visit(func(f *flag.Flag) {
		if f.Name == name {
			set = true
		}
	})
	return set
}

func run(prop, tier, repo, root, goarch string, seed int, rule rules.Rule) (code int) {
	r := core.NewReport(prop, tier, root, seed)
	defer func() {
		if p := recover(); p != nil {
			r.Fatalf("analyser panic: %v\n%s", p, debug.Stack())
			code = r.Finish()
		}
	}()
	ctx, err := core.Load(repo, goarch)
	if err != nil {
		// a tree that does not type-check cannot be decided
		r.Fatalf("cannot load %s: %v", repo, err)
		return r.Finish()
	}
	r.Count("packages", len(ctx.Pkgs))
	r.Count("repo_functions", len(ctx.RepoFuncs()))
	fmt.Printf("loaded %d packages, %d repo functions in %.1fs (GOARCH=%s)\n", len(ctx.Pkgs), len(ctx.RepoFuncs()), ctx.LoadSecs, goarch)
	rule(ctx, r)
	if x := rules.ExplainExtra[prop]; x != "" {
		r.Explanation += " " + x
	}
	if tier == "thorough" {
		rules.Thorough(prop, ctx, r, repo, root)
	}
	return r.Finish()
}
